"""C13 Lookups return exactly the matching rows in documented order -- structural clauses.

Narrow claim (DESIGN.md section 4). R2 re-evaluates C05-R6 (index and sorted-cache maintenance)
under this property's rule id and adds what reading lookup.py showed to be needed besides: the
two update_record implementations must drop the row's old key on every path on which the key
changed (TwoWayMap.insert restores the old mapping when the new key is unhashable), report the
old key as affected, and the mapped-keys accessor must hand out a copy (callers remove entries
while iterating).
"""
import ast
from ..fn import World
from ..index import AnalysisError, dotted
from ..astutil import text, short, endswith, calls_in
from .. import events as E
from . import _h_C as H
from . import c05
from .c11 import _single, _owner

EXPLANATION = (
  "Decides that the probe key and the index key of a lookup are normalised and typed alike: "
  "every key handed on by (Sorted)LookupMapColumn.do_lookup and every key passed to "
  "lookup_by_key went component-wise through _extract, get_new_keys_iter builds every component "
  "of an index key with _extract, one per key column, and Table.lookup_records converts each "
  "plain probe value with the column's own convert/_convert_raw_value and keeps values and "
  "column ids aligned (R1); the index follows the data: an update drops the row's old key on "
  "every path on which the key changed, reports old and new key as affected, removal drops "
  "every mapped key, mapped keys are handed out as copies, and (C05-R6) affected keys are "
  "invalidated and cached orders are keyed by their sort spec and dropped when the set changes "
  "(R2); lookup_one_record is lookup_records(...).get_one() and get_one yields the first row "
  "or the empty record (R3). Not decided: the order produced by make_sort_spec / SortKey "
  "(value level).")


def check(run, repo, tier):
  V = H.guarded_views
  V(run, repo, r1_key_normalisation)
  V(run, repo, r2_index_maintenance)
  V(run, repo, r3_lookup_one)
  V(run, repo, r4_no_captured_columns)
  from ._extra import c13_reset_all_keys, c14_sortkey_total_order
  V(run, repo, c13_reset_all_keys, "C13-R2")
  V(run, repo, c14_sortkey_total_order, "C13-R5")


def r4_no_captured_columns(run, w):
  """Sort keys must resolve their columns when they are built: a Column object captured in the
  key class outlives the column (ModifyColumn / RemoveColumn+undo replace the object), and a
  destroyed column reads as all-defaults, silently degrading every order to row-id order."""
  R4 = run.rule("C13-R4", "make_sort_key captures column ids, not Column objects; SortKey looks "
                "the column up at construction time", floor=2)
  mk = w.fn("sort_key.make_sort_key")
  tparam = mk.fi.params()[0]
  # names bound (directly or as tuple parts appended to a list) to <table>.get_column(...)
  colvars = set()
  for n in ast.walk(mk.node):
    if isinstance(n, ast.FunctionDef) and n is not mk.node:
      continue
  body_nodes = [x for s_ in mk.node.body if not isinstance(s_, ast.ClassDef)
                for x in ast.walk(s_)]
  for n in body_nodes:
    if isinstance(n, ast.Assign) and isinstance(n.value, ast.Call) and \
        isinstance(n.value.func, ast.Attribute) and n.value.func.attr == "get_column":
      for t in n.targets:
        if isinstance(t, ast.Name):
          colvars.add(t.id)
  captured = set()
  for n in body_nodes:
    if isinstance(n, ast.Call) and isinstance(n.func, ast.Attribute) and \
        n.func.attr in ("append", "extend", "add") and isinstance(n.func.value, ast.Name):
      names = {x.id for a in n.args for x in ast.walk(a) if isinstance(x, ast.Name)}
      has_call = any(isinstance(x, ast.Call) and isinstance(x.func, ast.Attribute) and
                     x.func.attr == "get_column" for a in n.args for x in ast.walk(a))
      if names & colvars or has_call:
        captured.add(n.func.value.id)
  classes = [s_ for s_ in mk.node.body if isinstance(s_, ast.ClassDef)]
  if len(classes) != 1:
    raise AnalysisError("make_sort_key: expected exactly one nested key class")
  used = {x.id for x in ast.walk(classes[0]) if isinstance(x, ast.Name)}
  bad = sorted((colvars | captured) & used)
  run.ob(R4, mk.qualname, "closure of %s uses: %s" % (classes[0].name,
                                                     ", ".join(sorted(used & (captured | colvars |
                                                                              {tparam, "col_sort_spec"})))),
         "the key class does not hold Column objects created before the next schema change",
         not bad, witness=("captured column objects: " + ", ".join(bad)) if bad else None,
         fi=mk.fi)
  init = w.fn("sort_key.make_sort_key.SortKey.__init__")
  ok = any(isinstance(c.func, ast.Attribute) and c.func.attr == "get_cell_value" and
           isinstance(c.func.value, ast.Call) and isinstance(c.func.value.func, ast.Attribute) and
           c.func.value.func.attr == "get_column" and text(c.func.value.func.value) == tparam
           for c in ast.walk(init.node) if isinstance(c, ast.Call))
  run.ob(R4, init.qualname, "%s.get_column(col_id).get_cell_value(row_id)" % tparam,
         "sort values are read from the table's current column object", ok, fi=init.fi)
  # missing sort columns are still reported when the helper column is created
  sc = w.fn("lookup.SortedLookupMapColumn.__init__")
  ok = any(isinstance(n, ast.Raise) for n in ast.walk(sc.node)) and \
      any(isinstance(c, ast.Call) and isinstance(c.func, ast.Attribute) and
          c.func.attr == "has_column" for c in ast.walk(sc.node))
  run.ob(R4, sc.qualname, "if not table.has_column(c): raise KeyError", "a sorted lookup over a "
         "missing column fails loudly", ok, fi=sc.fi, nontrivial=False)


def _is_extract(call):
  return isinstance(call, ast.Call) and dotted(call.func) == "_extract" and len(call.args) == 1


def _normalised_comp(flow, r, src_pred):
  """Root r is `tuple(_extract(v) for v in <src>)` (seen through tuple()) with src satisfying
  src_pred(list of roots)."""
  if r.kind != "comp" or r.path or not isinstance(r.node, (ast.GeneratorExp, ast.ListComp)):
    return False
  g = r.node.generators
  if len(g) != 1 or g[0].ifs or not _is_extract(r.node.elt):
    return False
  if text(r.node.elt.args[0]) != text(g[0].target):
    return False
  return src_pred(flow.roots(g[0].iter, r.nid))


def r1_key_normalisation(run, w):
  R1 = run.rule("C13-R1", "probe keys and index keys pass every component through _extract; "
                "probe values are converted with the column's own type; values and column ids "
                "stay aligned", floor=9)
  # (a) do_lookup of both lookup columns: the raw key parameter is never handed on
  for q in ("lookup.LookupMapColumn.do_lookup", "lookup.SortedLookupMapColumn.do_lookup",
            "lookup.LookupMapColumn._do_fast_lookup"):
    fn = w.fn(q)
    flow = H.Flow(fn)
    p = fn.fi.params()[1]
    uses = []
    is_param = lambda x: isinstance(x, ast.Name) and x.id == p
    for (n, c, nm) in fn.calls():
      if dotted(c.func) in ("tuple", "_extract", "list"):
        continue
      for a in list(c.args) + [k.value for k in c.keywords]:
        if flow.du.flows_from(is_param, a):
          uses.append((n, c, a))
    if not uses:
      raise AnalysisError("%s: the key is not handed on" % q)
    for (n, c, a) in uses:
      rs = flow.roots(a, n.id)
      ok = bool(rs) and all(
        _normalised_comp(flow, r, lambda it: bool(it) and all(
          x.kind == "param" and x.node == p and not x.path for x in it)) for r in rs)
      run.ob(R1, q, short(c), "the key handed on is tuple(_extract(v) for v in %s): records are "
             "replaced by their row ids exactly as in the index" % p, ok, fi=fn.fi, node=c)
  # (b) every lookup_by_key call receives a normalised key
  n_sites = 0
  for fi in w.repo.all_functions():
    if fi.module.name != "lookup":
      continue
    fn = w.fn_of(fi)
    sites = [(n, c) for (n, c, nm) in fn.calls() if isinstance(c.func, ast.Attribute) and
             c.func.attr == "lookup_by_key" and c.args]
    if not sites:
      continue
    flow = H.Flow(fn)
    for (n, c) in sites:
      n_sites += 1
      rs = flow.roots(c.args[0], n.id)
      def good(r):
        if r.kind == "lit" and isinstance(r.node, ast.Tuple) and not r.node.elts and not r.path:
          return True             # the empty key of a lookup without key columns
        if r.kind == "param" and fi.name == "_do_fast_lookup":
          return False
        if _normalised_comp(flow, r, lambda it: bool(it) and all(x.kind == "param" for x in it)):
          return True
        if r.kind == "call" and isinstance(r.node.func, ast.Attribute) and \
            r.node.func.attr == "get_new_keys_iter" and r.path == (("elem",),):
          return True             # keys produced by the index side itself
        if r.kind == "call" and dotted(r.node.func) == "set" and r.path == (("elem",),) and \
            len(r.node.args) == 1:
          inner = flow.roots(r.node.args[0], r.nid)
          return bool(inner) and all(
            x.kind == "call" and isinstance(x.node.func, ast.Attribute) and
            x.node.func.attr == "get_new_keys_iter" and not x.path for x in inner)
        return False
      ok = bool(rs) and all(good(r) for r in rs)
      run.ob(R1, fi.qualname, short(c), "the index is probed only with keys normalised like the "
             "stored ones", ok, witness="; ".join(repr(r) for r in rs if not good(r)) or None,
             fi=fi, node=c)
  if n_sites < 3:
    raise AnalysisError("lookup.py: lookup_by_key call sites not found")
  # (c) index side
  base = w.repo.cls("lookup.BaseLookupMapping")
  subs = [ci for ci in w.repo.subclasses(base, strict=True) if "get_new_keys_iter" in ci.methods]
  if len(subs) < 2:
    raise AnalysisError("lookup.py: concrete lookup mappings not found")
  for ci in subs:
    m = ci.methods["get_new_keys_iter"]
    fn = w.fn_of(m)
    rec = m.params()[1]
    rets = H.returns_of(m.node)
    if len(rets) != 1:
      raise AnalysisError("%s: expected a single return" % m.qualname)
    v = rets[0].value
    ok = False
    what = short(v)
    if isinstance(v, ast.List) and len(v.elts) == 1:
      e = v.elts[0]
      if isinstance(e, ast.Call) and dotted(e.func) == "tuple" and len(e.args) == 1 and \
          isinstance(e.args[0], (ast.GeneratorExp, ast.ListComp)):
        g = e.args[0]
        ok = len(g.generators) == 1 and not g.generators[0].ifs and \
            text(g.generators[0].iter) == "self._col_ids_tuple" and _is_extract(g.elt) and \
            text(g.elt.args[0]) == "getattr(%s, %s)" % (rec, text(g.generators[0].target))
    elif isinstance(v, ast.Call) and endswith(dotted(v.func), "product") and \
        len(v.args) == 1 and isinstance(v.args[0], ast.Starred):
      groups = text(v.args[0].value)
      loops = [s for s in m.node.body if isinstance(s, ast.For) and
               text(s.iter) == "self._col_ids_tuple"]
      if len(loops) == 1:
        last = loops[0].body[-1]
        ok = isinstance(last, ast.Expr) and isinstance(last.value, ast.Call) and \
            text(last.value.func) == groups + ".append" and len(last.value.args) == 1
        if ok:
          a = last.value.args[0]
          ok = isinstance(a, (ast.ListComp, ast.GeneratorExp)) and len(a.generators) == 1 and \
              not a.generators[0].ifs and _is_extract(a.elt) and \
              text(a.elt.args[0]) == text(a.generators[0].target)
          # the cell is read from the record for this key column
          reads = [c for c in calls_in(loops[0].body) if dotted(c.func) == "getattr" and
                   text(c.args[0]) == rec]
          ok = ok and len(reads) == 1 and isinstance(reads[0].args[1], ast.Call) and \
              dotted(reads[0].args[1].func) == "extract_column_id" and \
              text(reads[0].args[1].args[0]) == text(loops[0].target)
        what = "for col_id in self._col_ids_tuple: %s.append([_extract(v) for v in group]); " \
            "product(*%s)" % (groups, groups)
    else:
      raise AnalysisError("%s: unrecognised key construction %s" % (m.qualname, short(v)))
    run.ob(R1, m.qualname, what, "every component of an index key is the cell of the "
           "corresponding key column passed through _extract, one component per key column",
           ok, fi=m, node=rets[0])
  # (d) probe side typing in Table.lookup_records
  fn = w.fn("table.Table.lookup_records")
  flow = H.Flow(fn)
  kw = fn.node.args.kwarg.arg if fn.node.args.kwarg else None
  loops = [s for s in fn.node.body if isinstance(s, ast.For) and
           text(s.iter) in ("sorted(%s)" % kw, kw, "list(%s)" % kw, "%s.keys()" % kw,
                            "sorted(%s.keys())" % kw)]
  lp = _single(loops, "lookup_records: loop over the sorted keyword names")
  cv = text(lp.target)
  apps = [s.value for s in lp.body if isinstance(s, ast.Expr) and isinstance(s.value, ast.Call)
          and isinstance(s.value.func, ast.Attribute) and s.value.func.attr == "append"]
  ok = len(apps) == 2 and all(s.value in apps for s in lp.body[-2:])
  KEY = IDS = VAL = None
  if ok:
    for a in apps:
      if text(a.args[0]) == cv:
        IDS = text(a.func.value)
      else:
        KEY = text(a.func.value)
        VAL = text(a.args[0])
    ok = KEY is not None and IDS is not None
  run.ob(R1, fn.qualname, "for col_id in sorted(%s): ...; %s.append(value); %s.append(col_id)"
         % (kw, KEY, IDS), "each probe value is appended together with its column id as the "
         "last step of the same iteration, so key components line up with the index's key "
         "columns", ok,
         fi=fn.fi, node=lp)
  conv_ok = False
  cont_ok = False
  for s in (lp.body if VAL is not None else []):
    if isinstance(s, ast.If) and isinstance(s.test, ast.Call) and \
        dotted(s.test.func) == "isinstance" and endswith(dotted(s.test.args[1]), "_Contains"):
      # CONTAINS branch: the marker moves to the column id, the value is unwrapped
      b = [x for x in s.body if isinstance(x, ast.Assign)]
      cont_ok = any(text(x.targets[0]) == cv and text(x.value) == "%s._replace(value=%s)"
                    % (VAL, cv) for x in b) and \
          any(text(x.targets[0]) == VAL and text(x.value) == VAL + ".value" for x in b)
      o = [x for x in s.orelse if isinstance(x, ast.Assign)]
      cols = [x for x in o if isinstance(x.value, ast.Call) and
              text(x.value.func) == "self.get_column" and
              [text(a) for a in x.value.args] == [cv]]
      if len(cols) == 1:
        col = text(cols[0].targets[0])
        conv_ok = any(text(x.targets[0]) == VAL and
                      text(x.value) == "%s._convert_raw_value(%s.convert(%s))" % (col, col, VAL)
                      for x in o)
  run.ob(R1, fn.qualname, "value = col._convert_raw_value(col.convert(value))  (col = "
         "self.get_column(col_id))", "a plain probe value is converted to the looked-up column's "
         "type and rich form, the form in which the index stores that column's cells", conv_ok,
         fi=fn.fi, node=lp)
  run.ob(R1, fn.qualname, "CONTAINS: col_id = value._replace(value=col_id); value = value.value",
         "a CONTAINS probe moves its marker to the column id (so the index expands that "
         "column's lists) and probes with the bare element", cont_ok, fi=fn.fi, node=lp)
  lm = [(n, c) for (n, c, nm) in fn.calls() if nm == "self._get_lookup_map"]
  dl = [(n, c) for (n, c, nm) in fn.calls() if isinstance(c.func, ast.Attribute) and
        c.func.attr == "do_lookup"]
  ok = len(lm) == 1 and len(dl) == 1
  if ok:
    r1 = flow.roots(lm[0][1].args[0], lm[0][0].id)
    r2 = flow.roots(dl[0][1].args[0], dl[0][0].id)
    def is_list(rs, name):
      return bool(rs) and all(r.kind == "lit" and isinstance(r.node, ast.List) and not r.path
                              for r in rs) and name is not None
    # both are tuple(<the list built in the loop>)
    ok = is_list(r1, IDS) and is_list(r2, KEY) and \
        _tuple_of(fn, lm[0][1].args[0], IDS) and _tuple_of(fn, dl[0][1].args[0], KEY)
  run.ob(R1, fn.qualname, "self._get_lookup_map(tuple(%s)) ... do_lookup(tuple(%s))" % (IDS, KEY),
         "the index is chosen by the column ids collected in the loop and probed with the values "
         "collected alongside", ok, fi=fn.fi)


def _tuple_of(fn, expr, listname):
  """expr is `tuple(<listname>)` possibly through one local rebinding `x = tuple(x)`."""
  e = expr
  if isinstance(e, ast.Name):
    defs = [v for v in E.local_defs(fn.node, e.id) if not isinstance(v, ast.List)]
    if len(defs) != 1:
      return False
    e = defs[0]
  return isinstance(e, ast.Call) and dotted(e.func) == "tuple" and \
      [text(a) for a in e.args] == [listname]


# --------------------------------------------------------------------------------------- R2

def r2_index_maintenance(run, w):
  R2 = run.rule("C13-R2", "the lookup index follows the data: old key dropped on every path on "
                "which the key changed, affected keys reported and invalidated, cached orders "
                "consistent (C05-R6)", floor=13)
  c05.r6_lookup_index(H.RuleAlias(run, {"C05-R6": "C13-R2"}), w)
  # SimpleLookupMapping.update_record
  fn = w.fn("lookup.SimpleLookupMapping.update_record")
  flow = H.Flow(fn)
  xcfg = fn.xcfg
  rec = fn.fi.params()[1]
  row = rec + "._row_id"
  olds = [s for s in fn.node.body if isinstance(s, ast.Assign) and
          isinstance(s.value, ast.Call) and text(s.value.func) == "self._get_mapped_key" and
          [text(a) for a in s.value.args] == [row]]
  news = [s for s in fn.node.body if isinstance(s, ast.Assign) and
          isinstance(s.value, ast.Subscript) and isinstance(s.value.value, ast.Call) and
          text(s.value.value.func) == "self.get_new_keys_iter" and
          [text(a) for a in s.value.value.args] == [rec] and text(s.value.slice) == "0"]
  if len(olds) != 1 or len(news) != 1:
    raise AnalysisError("SimpleLookupMapping.update_record: old/new key not found")
  OLD, NEW = text(olds[0].targets[0]), text(news[0].targets[0])
  early = [n for n in xcfg.nodes if n.kind == "if" and isinstance(n.stmt.test, ast.Compare) and
           isinstance(n.stmt.test.ops[0], ast.Eq) and
           {text(n.stmt.test.left), text(n.stmt.test.comparators[0])} == {OLD, NEW} and
           n.stmt.body and isinstance(n.stmt.body[-1], ast.Return)]
  run.ob(R2, fn.qualname, "if %s == %s: return set()" % (NEW, OLD),
         "nothing is reported (and nothing done) only when the key is unchanged",
         len(early) == 1, fi=fn.fi)
  ins = {n.id for (n, c, nm) in fn.calls(xcfg) if nm == "self._row_key_map.insert" and
         [text(a) for a in c.args] == [row, NEW]}
  rem = {n.id for (n, c, nm) in fn.calls(xcfg) if nm == "self._row_key_map.remove" and
         [text(a) for a in c.args] == [row, OLD]}
  if not ins:
    raise AnalysisError("SimpleLookupMapping.update_record: insert of the new key not found")
  # every way out of the insert -- completing (the single-valued right bin overwrites the old
  # key) or raising -- leaves the row no longer mapped under the old key
  handlers = [n for n in xcfg.nodes if n.kind == "handler"]
  ok = True
  wit = None
  for i in ins:
    for (src, dst) in [(i, d) for d in xcfg.succ[i] if (i, d) in xcfg.exc_edges]:
      # exceptional continuation of the insert
      if dst == xcfg.raise_exit.id:
        continue          # propagates: the whole bundle is rolled back
      r = xcfg.reach({dst}, removed=rem)
      if xcfg.exit.id in r:
        ok = False
        wit = xcfg.describe_path(xcfg.path(dst, {xcfg.exit.id}, removed=rem))
  run.ob(R2, fn.qualname, "except TypeError: self._row_key_map.remove(%s, %s)" % (row, OLD),
         "when the new key cannot be inserted (TwoWayMap.insert then restores the old mapping) "
         "every path on which the function still returns normally removes the row's entry "
         "under its old key", ok, witness=wit, fi=fn.fi)
  rets = [s for s in H.returns_of(fn.node) if not any(s in e.stmt.body for e in early)]
  okr = bool(rets)
  for r in rets:
    v = r.value
    if isinstance(v, ast.Name):
      # result held in a local: look at what it was built from
      rs = flow.roots(v, flow.node_of(v))
      if len(rs) == 1 and rs[0].kind in ("comp", "lit") and not rs[0].path:
        v = rs[0].node
    names = {x.id for x in ast.walk(v) if isinstance(x, ast.Name)} if v is not None else set()
    if OLD not in names:
      okr = False
    elif isinstance(v, ast.SetComp):
      g = v.generators[0]
      okr = okr and isinstance(g.iter, (ast.Tuple, ast.List, ast.Set)) and \
          OLD in [text(e) for e in g.iter.elts] and text(v.elt) == text(g.target) and \
          all(text(c) == "%s is not None" % text(g.target) for c in g.ifs)
    elif isinstance(v, ast.Set):
      okr = okr and OLD in [text(e) for e in v.elts]
    else:
      raise AnalysisError("SimpleLookupMapping.update_record: unrecognised result %s" % short(v))
  run.ob(R2, fn.qualname, "return {k for k in (%s, %s) if k is not None}" % (OLD, NEW),
         "the old key is reported as affected whenever there was one, so lookups that returned "
         "the row under it are recomputed", okr, fi=fn.fi)
  # ContainsLookupMapping.update_record
  fn = w.fn("lookup.ContainsLookupMapping.update_record")
  rec = fn.fi.params()[1]
  news = [s for s in fn.node.body if isinstance(s, ast.Assign) and
          text(s.value) == "set(self.get_new_keys_iter(%s))" % rec]
  olds = [s for s in fn.node.body if isinstance(s, ast.Assign) and
          isinstance(s.value, ast.Call) and text(s.value.func) == "self.get_mapped_keys"]
  if len(news) != 1 or len(olds) != 1:
    raise AnalysisError("ContainsLookupMapping.update_record: old/new keys not found")
  OLD, NEW = text(olds[0].targets[0]), text(news[0].targets[0])
  rowv = text(olds[0].value.args[0])
  def loop_ok(meth, a, b):
    for s in fn.node.body:
      if isinstance(s, ast.For) and isinstance(s.iter, ast.BinOp) and \
          isinstance(s.iter.op, ast.Sub) and text(s.iter.left) == a and \
          text(s.iter.right) == b:
        return any(text(c.func) == "self._row_key_map." + meth and
                   [text(x) for x in c.args] == [rowv, text(s.target)]
                   for c in calls_in(s.body))
    return False
  run.ob(R2, fn.qualname, "for k in %s - %s: remove(row, k); for k in %s - %s: insert(row, k)"
         % (OLD, NEW, NEW, OLD), "keys the row no longer has are dropped and keys it gained are "
         "added", loop_ok("remove", OLD, NEW) and loop_ok("insert", NEW, OLD), fi=fn.fi)
  rets = H.returns_of(fn.node)
  ok = len(rets) == 1 and isinstance(rets[0].value, ast.BinOp) and \
      isinstance(rets[0].value.op, ast.BitXor) and \
      {text(rets[0].value.left), text(rets[0].value.right)} == {OLD, NEW}
  run.ob(R2, fn.qualname, "return %s ^ %s" % (NEW, OLD), "exactly the keys whose row set changed "
         "are reported as affected", ok, fi=fn.fi)
  # removal drops every mapped key
  fn = w.fn("lookup.BaseLookupMapping.remove_row_id")
  p = fn.fi.params()[1]
  ok = False
  for s in fn.node.body:
    if isinstance(s, ast.For):
      src = H.Flow(fn).roots(s.iter, H.Flow(fn).node_of(s.iter))
      ok = bool(src) and all(r.kind == "call" and text(r.node.func) == "self.get_mapped_keys" and
                             [text(a) for a in r.node.args] == [p] for r in src) and \
          any(text(c.func) == "self._row_key_map.remove" and
              [text(x) for x in c.args] == [p, text(s.target)] for c in calls_in(s.body)) and \
          not any(isinstance(x, (ast.If, ast.Break, ast.Continue)) for b in s.body
                  for x in ast.walk(b))
  run.ob(R2, fn.qualname, "for k in self.get_mapped_keys(%s): self._row_key_map.remove(%s, k)"
         % (p, p), "a removed row leaves the index under every key it was mapped to", ok,
         fi=fn.fi)
  # mapped keys are handed out as copies (remove_row_id iterates them while removing)
  base = w.repo.cls("lookup.BaseLookupMapping")
  for ci in w.repo.subclasses(base, strict=True):
    m = ci.methods.get("get_mapped_keys")
    if m is None:
      continue
    mfn = w.fn_of(m)
    mflow = H.Flow(mfn, passthrough=False)
    for n in [x for x in mfn.cfg.nodes if x.kind == "return"]:
      kinds = [_owner(mflow, r, m.module) for r in mflow.roots(n.stmt.value, n.id)]
      bad = [k for k in kinds if k[0] in ("state", "param", "callee")]
      unk = [k for k in kinds if k[0] == "unknown"]
      if unk and not bad:
        raise AnalysisError("%s: cannot decide whether %s is a copy" % (m.qualname,
                                                                        short(n.stmt.value)))
      run.ob(R2, m.qualname, short(n.stmt), "the set of mapped keys handed out is a copy, not "
             "the set stored in the two-way map (callers remove entries while iterating it)",
             bool(kinds) and not bad, witness="; ".join("%s: %r" % k for k in bad) or None,
             fi=m, node=n.stmt)


# --------------------------------------------------------------------------------------- R3

def r3_lookup_one(run, w):
  R3 = run.rule("C13-R3", "lookup_one_record = lookup_records(...).get_one(); get_one yields the "
                "first row or the empty record", floor=3)
  fn = w.fn("table.Table.lookup_one_record")
  kw = fn.node.args.kwarg.arg if fn.node.args.kwarg else None
  rets = H.returns_of(fn.node)
  du = H.Flow(fn).du
  ok = len(rets) == 1 and isinstance(rets[0].value, ast.Call) and \
      text(rets[0].value) == "self.lookup_records(**%s).get_one()" % kw and \
      not du.defs.get(kw) and not du.muts.get(kw)
  run.ob(R3, fn.qualname, "return self.lookup_records(**%s).get_one()" % kw,
         "lookupOne sees exactly the rows and the order lookupRecords would return", ok,
         fi=fn.fi)
  ut = w.fn("table.UserTable.lookupOne")
  kw2 = ut.node.args.kwarg.arg if ut.node.args.kwarg else None
  rets = H.returns_of(ut.node)
  ok = len(rets) == 1 and text(rets[0].value) == "self.table.lookup_one_record(**%s)" % kw2
  ut2 = w.fn("table.UserTable.lookupRecords")
  kw3 = ut2.node.args.kwarg.arg if ut2.node.args.kwarg else None
  rets2 = H.returns_of(ut2.node)
  ok = ok and len(rets2) == 1 and text(rets2[0].value) == "self.table.lookup_records(**%s)" % kw3
  run.ob(R3, ut.qualname, "lookupOne -> lookup_one_record; lookupRecords -> lookup_records",
         "the formula-facing methods forward every keyword (key columns, order_by, sort_by) "
         "unchanged", ok, fi=ut.fi)
  go = w.fn("records.RecordSet.get_one")
  rets = H.returns_of(go.node)
  flow = H.Flow(go)
  ok = len(rets) == 1 and isinstance(rets[0].value, ast.Call) and \
      text(rets[0].value.func) == "self._table.Record" and len(rets[0].value.args) >= 1
  if ok:
    rid = rets[0].value.args[0]
    rs = flow.roots(rid, flow.node_of(rid))
    first = [r for r in rs if r.kind == "param" and r.node == "self" and
             r.path == (("attr", "_row_ids"), ("idx", 0))]
    empty = [r for r in rs if r.kind == "const" and r.node.value == 0 and not r.path]
    ok = len(rs) == 2 and len(first) == 1 and len(empty) == 1
    # ... and the choice between them is the emptiness of the row list
    if ok:
      conds = [(x.test, x.body) for x in ast.walk(go.node) if isinstance(x, ast.IfExp)] + \
          [(x.test, x.body[0].value) for x in ast.walk(go.node) if isinstance(x, ast.If) and
           len(x.body) == 1 and isinstance(x.body[0], ast.Assign)]
      if len(conds) != 1:
        raise AnalysisError("RecordSet.get_one: cannot find the choice between first row and 0")
      t, when_true = conds[0]
      nonempty = text(t) in ("self._row_ids", "len(self._row_ids) > 0", "len(self._row_ids)",
                             "len(self._row_ids) != 0")
      isempty = text(t) in ("not self._row_ids", "len(self._row_ids) == 0")
      if not (nonempty or isempty):
        raise AnalysisError("RecordSet.get_one: unrecognised emptiness test %s" % short(t))
      ok = (text(when_true) == "self._row_ids[0]") == nonempty
  run.ob(R3, go.qualname, "self._table.Record(self._row_ids[0] if self._row_ids else 0, ...)",
         "the first row in the documented order, or the empty record (row id 0) when nothing "
         "matches", ok, fi=go.fi)


LK = "sandbox/grist/lookup.py"
TB = "sandbox/grist/table.py"
RC = "sandbox/grist/records.py"
VARIANTS = [
  ("sort-key-captures-column-objects", "sandbox/grist/sort_key.py", """    table.get_column(col_id)
    col_sort_spec.append((col_id, sign))
""", """    col_obj = table.get_column(col_id)
    col_sort_spec.append((col_obj, sign))
""", "C13-R4"),

  # known realistic breakage (seeded)
  ("unhashable-key-keeps-old-index-entry", LK,
   """    except TypeError:
      # If key is not hashable, ignore it, just remove the old_key then.
      self._row_key_map.remove(rec._row_id, old_key)
      new_key = None""",
   """    except TypeError:
      # If key is not hashable, ignore it; insert() leaves the map unchanged when it fails.
      new_key = None""", "C13-R2"),
  ("old-key-not-reported", LK,
   "    return {k for k in (old_key, new_key) if k is not None}",
   "    return {new_key} if new_key is not None else set()", "C13-R2"),
  ("contains-keeps-stale-keys", LK,
   """    for old_key in old_keys - new_keys:
      self._row_key_map.remove(row_id, old_key)

""", "", "C13-R2"),
  ("mapped-keys-live-set", LK,
   "    return set(self._row_key_map.lookup_left(row_id, ()))",
   "    return self._row_key_map.lookup_left(row_id, ())", "C13-R2"),
  ("cache-key-mismatch", LK,
   "      row_id_set.sorted_versions[sort_spec] = row_ids",
   "      row_id_set.sorted_versions[()] = row_ids", "C13-R2"),
  ("lookup-unset-no-invalidate", LK,
   """    affected_keys = self._mapping.remove_row_id(row_id)
    self._relation_tracker.invalidate_affected_keys(affected_keys)""",
   """    affected_keys = self._mapping.remove_row_id(row_id)""", "C13-R2"),
  ("probe-key-not-extracted", LK,
   """    key = tuple(_extract(val) for val in key)
    row_ids, rel = self._do_lookup_with_sort(key, (), None)""",
   """    key = tuple(key)
    row_ids, rel = self._do_lookup_with_sort(key, (), None)""", "C13-R1"),
  ("sorted-probe-key-not-extracted", LK,
   """    key = tuple(_extract(val) for val in key)
    self._relation_tracker.update_relation_from_current_node(key)""",
   """    self._relation_tracker.update_relation_from_current_node(key)""", "C13-R1"),
  ("index-key-not-extracted", LK,
   "    return [tuple(_extract(getattr(rec, _col_id)) for _col_id in self._col_ids_tuple)]",
   "    return [tuple(getattr(rec, _col_id) for _col_id in self._col_ids_tuple)]", "C13-R1"),
  ("contains-index-key-not-extracted", LK,
   "      new_keys_groups.append([_extract(v) for v in group])",
   "      new_keys_groups.append(list(group))", "C13-R1"),
  ("probe-value-not-converted", TB,
   "        value = col._convert_raw_value(col.convert(value))",
   "        value = col._convert_raw_value(value)", "C13-R1"),
  ("probe-ids-misaligned", TB,
   "      key.append(value)\n      col_ids.append(col_id)",
   "      key.append(value)\n      col_ids.insert(0, col_id)", "C13-R1"),
  ("lookup-one-takes-last", RC,
   "    row_id = self._row_ids[0] if self._row_ids else 0\n    return self._table.Record(row_id, self._source_relation)",
   "    row_id = self._row_ids[-1] if self._row_ids else 0\n    return self._table.Record(row_id, self._source_relation)",
   "C13-R3"),
  ("lookup-one-drops-order", TB,
   "    return self.lookup_records(**kwargs).get_one()",
   "    kwargs.pop('order_by', None)\n    return self.lookup_records(**kwargs).get_one()", "C13-R3"),
]
