"""C13 Lookups return exactly the matching rows in documented order -- structural clauses.

Narrow claim (DESIGN.md section 4). R2 re-evaluates C05-R6 (index and sorted-cache maintenance)
under this property's rule id and adds what reading lookup.py showed to be needed besides: the
two update_record implementations must drop the row's old key on every path on which the key
changed (TwoWayMap.insert restores the old mapping when the new key is unhashable), report the
old key as affected, and the mapped-keys accessor must hand out a copy (callers remove entries
while iterating).

Reading the code: every rule function is evaluated through H.guarded_views -- on the source as
written and on behaviour-preserving normal forms of it (see _h_C.py / _h_C_norm.py) -- and slots
are filled by role (flow origins, guard atoms, return cases, conditions as boolean formulas),
not by statement shape or local names.
"""
import ast
from ..fn import World
from ..index import AnalysisError, dotted
from ..astutil import text, short, endswith, calls_in, walk_no_nested
from .. import events as E
from . import _h_C as H
from . import c05
from .c11 import _single, _owner, _stmt_of as c11_stmt_of

EXPLANATION = (
  "Decides that the probe key and the index key of a lookup are normalised and typed alike: "
  "every key handed on by (Sorted)LookupMapColumn.do_lookup and every key passed to "
  "lookup_by_key went component-wise through _extract, get_new_keys_iter builds every component "
  "of an index key with _extract, one per key column, and Table.lookup_records converts each "
  "plain probe value with the column's own convert/_convert_raw_value and keeps values and "
  "column ids aligned (R1); the index follows the data: an update drops the row's old key on "
  "every path on which the key changed, reports old and new key as affected, removal drops "
  "every mapped key, mapped keys are handed out as copies, and (C05-R6) affected keys are "
  "invalidated and cached orders are keyed by their sort spec and dropped when the set changes "
  "(R2); lookup_one_record is lookup_records(...).get_one() and get_one yields the first row "
  "or the empty record (R3). Not decided: the order produced by make_sort_spec / SortKey "
  "(value level).")


def check(run, repo, tier):
  V = H.guarded_views
  V(run, repo, r1_key_normalisation)
  V(run, repo, r2_c05_lookup_index)
  V(run, repo, r2_simple_update)
  V(run, repo, r2_contains_update)
  V(run, repo, r2_removal)
  V(run, repo, r3_lookup_one)
  V(run, repo, r4_no_captured_columns)
  from ._extra import c13_reset_all_keys, c14_sortkey_total_order
  V(run, repo, c13_reset_all_keys, "C13-R2")
  V(run, repo, c14_sortkey_total_order, "C13-R5")
  H.finish_views(run, repo)


def r4_no_captured_columns(run, w):
  """Sort keys must resolve their columns when they are built: a Column object captured in the
  key class outlives the column (ModifyColumn / RemoveColumn+undo replace the object), and a
  destroyed column reads as all-defaults, silently degrading every order to row-id order."""
  R4 = run.rule("C13-R4", "make_sort_key captures column ids, not Column objects; SortKey looks "
                "the column up at construction time", floor=2)
  mk = w.fn("sort_key.make_sort_key")
  tparam = mk.fi.params()[0]
  # names bound (directly or as tuple parts appended to a list) to <table>.get_column(...)
  colvars = set()
  for n in ast.walk(mk.node):
    if isinstance(n, ast.FunctionDef) and n is not mk.node:
      continue
  body_nodes = [x for s_ in mk.node.body if not isinstance(s_, ast.ClassDef)
                for x in ast.walk(s_)]
  for n in body_nodes:
    if isinstance(n, ast.Assign) and isinstance(n.value, ast.Call) and \
        isinstance(n.value.func, ast.Attribute) and n.value.func.attr == "get_column":
      for t in n.targets:
        if isinstance(t, ast.Name):
          colvars.add(t.id)
  captured = set()
  for n in body_nodes:
    if isinstance(n, ast.Call) and isinstance(n.func, ast.Attribute) and \
        n.func.attr in ("append", "extend", "add") and isinstance(n.func.value, ast.Name):
      names = {x.id for a in n.args for x in ast.walk(a) if isinstance(x, ast.Name)}
      has_call = any(isinstance(x, ast.Call) and isinstance(x.func, ast.Attribute) and
                     x.func.attr == "get_column" for a in n.args for x in ast.walk(a))
      if names & colvars or has_call:
        captured.add(n.func.value.id)
  classes = [s_ for s_ in mk.node.body if isinstance(s_, ast.ClassDef)]
  if len(classes) != 1:
    raise AnalysisError("make_sort_key: expected exactly one nested key class")
  used = {x.id for x in ast.walk(classes[0]) if isinstance(x, ast.Name)}
  bad = sorted((colvars | captured) & used)
  run.ob(R4, mk.qualname, "closure of %s uses: %s" % (classes[0].name,
                                                     ", ".join(sorted(used & (captured | colvars |
                                                                              {tparam, "col_sort_spec"})))),
         "the key class does not hold Column objects created before the next schema change",
         not bad, witness=("captured column objects: " + ", ".join(bad)) if bad else None,
         fi=mk.fi)
  init = w.fn("sort_key.make_sort_key.SortKey.__init__")
  ok = any(isinstance(c.func, ast.Attribute) and c.func.attr == "get_cell_value" and
           isinstance(c.func.value, ast.Call) and isinstance(c.func.value.func, ast.Attribute) and
           c.func.value.func.attr == "get_column" and text(c.func.value.func.value) == tparam
           for c in ast.walk(init.node) if isinstance(c, ast.Call))
  run.ob(R4, init.qualname, "%s.get_column(col_id).get_cell_value(row_id)" % tparam,
         "sort values are read from the table's current column object", ok, fi=init.fi)
  # missing sort columns are still reported when the helper column is created
  sc = w.fn("lookup.SortedLookupMapColumn.__init__")
  ok = any(isinstance(n, ast.Raise) for n in ast.walk(sc.node)) and \
      any(isinstance(c, ast.Call) and isinstance(c.func, ast.Attribute) and
          c.func.attr == "has_column" for c in ast.walk(sc.node))
  run.ob(R4, sc.qualname, "if not table.has_column(c): raise KeyError", "a sorted lookup over a "
         "missing column fails loudly", ok, fi=sc.fi, nontrivial=False)


def _is_extract(call):
  return isinstance(call, ast.Call) and dotted(call.func) == "_extract" and len(call.args) == 1


def _normalised_comp(flow, r, src_pred):
  """Root r is `tuple(_extract(v) for v in <src>)` (seen through tuple()) with src satisfying
  src_pred(list of roots)."""
  if r.kind != "comp" or r.path or not isinstance(r.node, (ast.GeneratorExp, ast.ListComp)):
    return False
  g = r.node.generators
  if len(g) != 1 or g[0].ifs or not _is_extract(r.node.elt):
    return False
  if text(r.node.elt.args[0]) != text(g[0].target):
    return False
  return src_pred(flow.roots(g[0].iter, r.nid))


def r1_key_normalisation(run, w):
  R1 = run.rule("C13-R1", "probe keys and index keys pass every component through _extract; "
                "probe values are converted with the column's own type; values and column ids "
                "stay aligned", floor=9)
  # (a) do_lookup of both lookup columns: the raw key parameter is never handed on
  N_FAST = H.aname(w, "lookup.LookupMapColumn._do_fast_lookup")
  for q in ("lookup.LookupMapColumn.do_lookup", "lookup.SortedLookupMapColumn.do_lookup",
            "lookup.LookupMapColumn._do_fast_lookup"):
    fn = w.fn(q)
    flow = H.Flow(fn)
    p = fn.fi.params()[1]
    uses = []
    is_param = lambda x: isinstance(x, ast.Name) and x.id == p
    for (n, c, nm) in fn.calls():
      if dotted(c.func) in ("tuple", "_extract", "list"):
        continue
      for a in list(c.args) + [k.value for k in c.keywords]:
        if flow.du.flows_from(is_param, a):
          uses.append((n, c, a))
    if not uses:
      raise AnalysisError("%s: the key is not handed on" % q)
    for (n, c, a) in uses:
      rs = flow.roots(a, n.id)
      ok = bool(rs) and all(
        _normalised_comp(flow, r, lambda it: bool(it) and all(
          x.kind == "param" and x.node == p and not x.path for x in it)) for r in rs)
      if not ok and any(r.kind in ("call", "unknown", "global") for r in rs):
        raise AnalysisError("%s: cannot follow how the key passed to %s is built"
                            % (q, short(c, 60)))
      run.ob(R1, q, short(c), "the key handed on is tuple(_extract(v) for v in %s): records are "
             "replaced by their row ids exactly as in the index" % p, ok, fi=fn.fi, node=c)
  # (b) every lookup_by_key call receives a normalised key
  n_sites = 0
  for fi in w.repo.all_functions():
    if fi.module.name != "lookup":
      continue
    fn = w.fn_of(fi)
    sites = [(n, c) for (n, c, nm) in fn.calls() if isinstance(c.func, ast.Attribute) and
             c.func.attr == "lookup_by_key" and c.args]
    if not sites:
      continue
    flow = H.Flow(fn)
    for (n, c) in sites:
      n_sites += 1
      rs = flow.roots(c.args[0], n.id)
      def good(r):
        if r.kind == "lit" and isinstance(r.node, ast.Tuple) and not r.node.elts and not r.path:
          return True             # the empty key of a lookup without key columns
        if r.kind == "param" and fi.name == N_FAST:
          return False
        if _normalised_comp(flow, r, lambda it: bool(it) and all(x.kind == "param" for x in it)):
          return True
        if r.kind == "call" and isinstance(r.node.func, ast.Attribute) and \
            r.node.func.attr == "get_new_keys_iter" and r.path == (("elem",),):
          return True             # keys produced by the index side itself
        if r.kind == "call" and dotted(r.node.func) == "set" and r.path == (("elem",),) and \
            len(r.node.args) == 1:
          inner = flow.roots(r.node.args[0], r.nid)
          return bool(inner) and all(
            x.kind == "call" and isinstance(x.node.func, ast.Attribute) and
            x.node.func.attr == "get_new_keys_iter" and not x.path for x in inner)
        return False
      def decided(r, cfn=fn, depth=0):
        """True / False when the origin is positively (not) a normalised key; AnalysisError when
        it cannot be followed."""
        if good(r):
          return True
        if r.kind == "param" and cfn.fi.name == N_FAST:
          return False            # the raw key of a lookup, by contract
        if r.kind == "param" and r.node not in ("self",) and depth < 2:
          sites2 = H._call_sites(w, cfn.fi)
          if sites2:
            res = True
            for (sfn, sn, sc) in sites2:
              b = H.bind_args(sc, cfn.fi)
              if r.node not in b:
                raise AnalysisError("%s: cannot follow parameter %s" % (cfn.qualname, r.node))
              sflow = H._flow_of(sfn)
              for r2 in sflow.roots(b[r.node], sn.id):
                r2 = r2.plus(*r.path)
                # within the caller the same tests apply
                if not (_normalised_comp(sflow, r2, lambda it: bool(it) and
                                         all(x.kind == "param" for x in it)) or
                        decided_in(sfn, sflow, r2, depth + 1)):
                  res = False
            return res
        if r.kind == "comp" and not r.path:
          return False            # built here, but not by _extract over the key's components
        raise AnalysisError("%s: cannot follow where the key %s comes from (%r)"
                            % (cfn.qualname, short(c.args[0]), r))
      def decided_in(sfn, sflow, r2, depth):
        if r2.kind == "call" and isinstance(r2.node.func, ast.Attribute) and \
            r2.node.func.attr == "get_new_keys_iter":
          return True
        if r2.kind == "lit" and isinstance(r2.node, ast.Tuple) and not r2.node.elts:
          return True
        if r2.kind == "param" and sfn.fi.name in ("do_lookup", N_FAST):
          return False
        raise AnalysisError("%s: cannot follow where the key comes from (%r)"
                            % (sfn.qualname, r2))
      ok = bool(rs) and all(decided(r) for r in rs)
      run.ob(R1, fi.qualname, short(c), "the index is probed only with keys normalised like the "
             "stored ones", ok, witness="; ".join(repr(r) for r in rs if not good(r)) or None,
             fi=fi, node=c)
  if n_sites < 3:
    raise AnalysisError("lookup.py: lookup_by_key call sites not found")
  # (c) index side
  base = w.repo.cls("lookup.BaseLookupMapping")
  subs = [ci for ci in w.repo.subclasses(base, strict=True) if "get_new_keys_iter" in ci.methods]
  if len(subs) < 2:
    raise AnalysisError("lookup.py: concrete lookup mappings not found")
  for ci in subs:
    m = ci.methods["get_new_keys_iter"]
    fn = w.fn_of(m)
    flow = H.Flow(fn)
    rec = m.params()[1]
    cases = [c for c in H.return_cases(fn.node) if c.value is not None]
    if len(cases) != 1:
      raise AnalysisError("%s: expected a single return" % m.qualname)
    rn = [x.id for x in fn.cfg.nodes if x.stmt is cases[0].stmt][0]
    v = H.resolve(flow, cases[0].value, rn)
    ok = False
    what = short(v)
    def key_columns(it):
      return _xname(fn, H.strip_passthrough(it)) == "self._col_ids_tuple"
    if isinstance(v, ast.List) and len(v.elts) == 1:
      e = H.resolve(flow, v.elts[0], rn)
      comps = H.elements(fn, flow, e.args[0], flow.node_of(e)) \
          if isinstance(e, ast.Call) and dotted(e.func) == "tuple" and len(e.args) == 1 else None
      if comps is None:
        raise AnalysisError("%s: cannot follow how the index key %s is built"
                            % (m.qualname, short(e)))
      ok = bool(comps) and len(comps) == 1
      for el in comps or []:
        ok = ok and len(el.gens) == 1 and not el.conds and key_columns(el.gens[0][1]) and \
            _is_extract(el.elt) and \
            text(H.inline(flow, el.elt.args[0], stop=(text(el.gens[0][0]),))) == \
            "getattr(%s, %s)" % (rec, text(el.gens[0][0]))
    elif isinstance(v, ast.Call) and endswith(dotted(v.func), "product") and \
        len(v.args) == 1 and isinstance(v.args[0], ast.Starred):
      groups = v.args[0].value
      els = H.elements(fn, flow, groups, flow.node_of(v))
      if not els:
        raise AnalysisError("%s: cannot follow how the key components %s are collected"
                            % (m.qualname, short(groups)))
      ok = bool(els) and len(els) == 1
      for el in els or []:
        a = H.resolve(flow, el.elt, el.nid)
        if isinstance(a, ast.Call) and dotted(a.func) not in H.PASSTHROUGH + ("set",):
          raise AnalysisError("%s: cannot follow the component built by %s"
                              % (m.qualname, short(a)))
        ok = ok and len(el.gens) == 1 and not el.conds and key_columns(el.gens[0][1]) and \
            isinstance(a, (ast.ListComp, ast.GeneratorExp, ast.SetComp)) and \
            len(a.generators) == 1 and not a.generators[0].ifs and _is_extract(a.elt) and \
            text(a.elt.args[0]) == text(a.generators[0].target)
        if ok:
          # the cell is read from the record for this key column
          loop = [s for s in walk_no_nested(fn.node) if isinstance(s, ast.For) and
                  s.iter is el.gens[0][1]]
          reads = [c for c in calls_in(loop[0].body) if dotted(c.func) == "getattr" and
                   len(c.args) == 2 and text(c.args[0]) == rec] if loop else []
          if not reads:
            raise AnalysisError("%s: cannot find where the record's cell is read" % m.qualname)
          ok = len(reads) == 1 and isinstance(reads[0].args[1], ast.Call) and \
              dotted(reads[0].args[1].func) == "extract_column_id" and \
              text(reads[0].args[1].args[0]) == text(el.gens[0][0])
      what = "for col_id in self._col_ids_tuple: groups.append([_extract(v) for v in group]); " \
          "product(*groups)"
    else:
      raise AnalysisError("%s: unrecognised key construction %s" % (m.qualname, short(v)))
    run.ob(R1, m.qualname, what, "every component of an index key is the cell of the "
           "corresponding key column passed through _extract, one component per key column",
           ok, fi=m, node=cases[0].stmt)
  # (d) probe side typing in Table.lookup_records
  fn = w.fn("table.Table.lookup_records")
  flow = H.Flow(fn)
  kw = fn.node.args.kwarg.arg if fn.node.args.kwarg else None
  lm = [(n, c) for (n, c, nm) in fn.calls() if nm == "self._get_lookup_map"]
  dl = [(n, c) for (n, c, nm) in H.calls(fn) if endswith(nm, "do_lookup")]
  (lmn, lmc) = _single(lm, "lookup_records: _get_lookup_map call")
  (dln, dlc) = _single(dl, "lookup_records: do_lookup call")
  if not lmc.args or not dlc.args:
    raise AnalysisError("lookup_records: index / probe argument not found")
  ids_els = H.elements(fn, flow, lmc.args[0], lmn.id)
  key_els = H.elements(fn, flow, dlc.args[0], dln.id)
  def odd_mutation(arg, nid):
    """An in-place edit other than append of the list an argument is built from."""
    for r in flow.roots(arg, nid):
      st = flow.cfg.nodes[r.nid].stmt if r.nid is not None else None
      if isinstance(st, ast.Assign) and st.value is r.node and \
          isinstance(st.targets[0], ast.Name):
        X = st.targets[0].id
        for c in calls_in(fn.node):
          if isinstance(c.func, ast.Attribute) and isinstance(c.func.value, ast.Name) and \
              c.func.value.id == X and c.func.attr in ("insert", "extend", "pop", "remove",
                                                       "sort", "reverse"):
            return short(c)
    return None
  odd = odd_mutation(lmc.args[0], lmn.id) or odd_mutation(dlc.args[0], dln.id)
  if (ids_els is None or key_els is None) and not odd:
    raise AnalysisError("lookup_records: cannot follow how the key / column ids are built")
  ok = not odd and len(ids_els) == 1 and len(key_els) == 1
  ie = ke = None
  if ok:
    ie, ke = ids_els[0], key_els[0]
    ok = len(ie.gens) == 1 and len(ke.gens) == 1 and ie.gens[0][1] is ke.gens[0][1] and \
        not ie.conds and not ke.conds and isinstance(ie.gens[0][0], ast.Name) and \
        text(H.strip_passthrough(ie.gens[0][1])) in (kw, "%s.keys()" % kw) and \
        isinstance(ie.gens[0][1], ast.Call) and dotted(ie.gens[0][1].func) == "sorted"
  run.ob(R1, fn.qualname, "for col_id in sorted(%s): ...; key.append(value); col_ids.append(col_id)"
         % kw, "each probe value is appended together with its column id in the same "
         "iteration, unconditionally, so key components line up with the index's key columns",
         ok, witness=odd, fi=fn.fi, node=lmc)
  conv_ok = cont_ok = False
  if ok:
    cv = ie.gens[0][0].id
    def is_contains(t):
      return isinstance(t, ast.Call) and dotted(t.func) == "isinstance" and len(t.args) == 2 and \
          endswith(dotted(t.args[1]), "_Contains")
    vcases = H.value_cases(fn, flow, ke.elt, ke.nid)
    icases = H.value_cases(fn, flow, ie.elt, ie.nid)
    raw = "%s[%s]" % (kw, cv)
    def probe(e):
      """e is the probe value as passed by the caller: kwargs[col_id] (through locals)."""
      return any(text(c.value) == raw or
                 (isinstance(c.value, ast.Name) and text(H.inline(flow, c.value)) == raw)
                 for c in H.value_cases(fn, flow, e, flow.node_of(e))) \
          if isinstance(e, ast.Name) else text(e) == raw
    n_conv = n_cont = n_other = 0
    for c in vcases:
      v = c.value
      contains = [p for (t, p) in c.atoms if is_contains(t)]
      if isinstance(v, ast.Attribute) and v.attr == "value" and contains == [True]:
        n_cont += 1
        continue
      good = False
      if isinstance(v, ast.Call) and isinstance(v.func, ast.Attribute) and \
          v.func.attr == "_convert_raw_value" and len(v.args) == 1 and \
          isinstance(v.args[0], ast.Call) and isinstance(v.args[0].func, ast.Attribute) and \
          v.args[0].func.attr == "convert" and len(v.args[0].args) == 1 and \
          text(v.func.value) == text(v.args[0].func.value) and contains == [False]:
        col = H.resolve(flow, v.func.value, flow.node_of(v))
        good = isinstance(col, ast.Call) and _xname(fn, col.func) == "self.get_column" and \
            [text(a) for a in col.args] == [cv]
      if good:
        n_conv += 1
      else:
        # positively unconverted: the probe value itself, or a half conversion; anything else
        # (a helper we cannot read) is not decidable
        half = isinstance(v, ast.Call) and isinstance(v.func, ast.Attribute) and \
            v.func.attr in ("_convert_raw_value", "convert")
        if not (half or probe(v) or isinstance(v, (ast.Subscript, ast.Name))):
          raise AnalysisError("lookup_records: cannot follow how the probe value %s is "
                              "converted" % short(v))
        n_other += 1
    if n_cont == 0 or not [c for c in icases if isinstance(c.value, ast.Call)]:
      raise AnalysisError("lookup_records: CONTAINS branch of the key building not found")
    conv_ok = n_conv >= 1 and n_other == 0
    moved = [c for c in icases if isinstance(c.value, ast.Call) and
             isinstance(c.value.func, ast.Attribute) and c.value.func.attr == "_replace" and
             [(k.arg, text(k.value)) for k in c.value.keywords] == [("value", cv)] and
             [p for (t, p) in c.atoms if is_contains(t)] == [True]]
    cont_ok = n_cont >= 1 and len(moved) >= 1
  run.ob(R1, fn.qualname, "value = col._convert_raw_value(col.convert(value))  (col = "
         "self.get_column(col_id))", "a plain probe value is converted to the looked-up column's "
         "type and rich form, the form in which the index stores that column's cells", conv_ok,
         fi=fn.fi, node=lmc)
  run.ob(R1, fn.qualname, "CONTAINS: col_id = value._replace(value=col_id); value = value.value",
         "a CONTAINS probe moves its marker to the column id (so the index expands that "
         "column's lists) and probes with the bare element", cont_ok, fi=fn.fi, node=lmc)
  def tuple_of_list(arg, nid):
    rs = flow.roots(arg, nid)
    return bool(rs) and all(r.kind == "lit" and isinstance(r.node, ast.List) and not r.path
                            for r in rs)
  ok = tuple_of_list(lmc.args[0], lmn.id) and tuple_of_list(dlc.args[0], dln.id) and \
      not _same_list(flow, lmc.args[0], lmn.id, dlc.args[0], dln.id)
  run.ob(R1, fn.qualname, "self._get_lookup_map(tuple(col_ids)) ... do_lookup(tuple(key))",
         "the index is chosen by the column ids collected in the loop and probed with the values "
         "collected alongside", ok, fi=fn.fi)


def _xname(fn, e):
  return fn.name(e) or text(e)


def _same_list(flow, a, an, b, bn):
  ra, rb = flow.roots(a, an), flow.roots(b, bn)
  return any(x.node is y.node for x in ra for y in rb)


def _tuple_of(fn, expr, listname):
  """expr is `tuple(<listname>)` possibly through one local rebinding `x = tuple(x)`."""
  e = expr
  if isinstance(e, ast.Name):
    defs = [v for v in E.local_defs(fn.node, e.id) if not isinstance(v, ast.List)]
    if len(defs) != 1:
      return False
    e = defs[0]
  return isinstance(e, ast.Call) and dotted(e.func) == "tuple" and \
      [text(a) for a in e.args] == [listname]


# --------------------------------------------------------------------------------------- R2

R2_DESC = ("the lookup index follows the data: old key dropped on every path on which the key "
           "changed, affected keys reported and invalidated, cached orders consistent (C05-R6)")


def r2_c05_lookup_index(run, w):
  run.rule("C13-R2", R2_DESC, floor=13)
  c05.r6_lookup_index(H.RuleAlias(run, {"C05-R6": "C13-R2"}), w)


def r2_simple_update(run, w):
  R2 = run.rule("C13-R2", R2_DESC, floor=13)
  # SimpleLookupMapping.update_record
  fn = w.fn("lookup.SimpleLookupMapping.update_record")
  flow = H.Flow(fn)
  xcfg = fn.xcfg
  rec = fn.fi.params()[1]
  row = rec + "._row_id"
  inl = lambda e: text(H.inline(flow, e))
  OLD_T = "self._get_mapped_key(%s)" % row
  NEW_T = "self.get_new_keys_iter(%s)[0]" % rec
  news = [s for s in walk_no_nested(fn.node) if isinstance(s, ast.Assign) and
          len(s.targets) == 1 and isinstance(s.targets[0], ast.Name) and inl(s.value) == NEW_T]
  # the key the row is mapped under now: through the accessor, or read from the map directly
  OLD_TS = (OLD_T, "self._row_key_map.lookup_left(%s)" % row)
  has_old = any(inl(c) in OLD_TS for c in calls_in(fn.node))
  if not has_old or len(news) != 1:
    raise AnalysisError("SimpleLookupMapping.update_record: old/new key not found")
  NEW = news[0].targets[0].id
  is_old = lambda e: inl(e) in OLD_TS
  is_new = lambda e: isinstance(e, ast.Name) and e.id == NEW or inl(e) == NEW_T
  def unchanged(t, p):
    """Atom (t, p) says: the new key equals the old key."""
    if not (isinstance(t, ast.Compare) and len(t.ops) == 1):
      return False
    l, r = t.left, t.comparators[0]
    if not ((is_old(l) and is_new(r)) or (is_new(l) and is_old(r))):
      return False
    return (isinstance(t.ops[0], ast.Eq) and p is True) or \
        (isinstance(t.ops[0], ast.NotEq) and p is False)
  cases = [c for c in H.return_cases(fn.node)]
  same = [c for c in cases if any(unchanged(t, p) for (t, p) in c.atoms)]
  changed = [c for c in cases if c not in same]
  def empty_set(e):
    e = H.inline(flow, e) if e is not None else None
    return isinstance(e, ast.Call) and dotted(e.func) in ("set", "frozenset") and not e.args
  run.ob(R2, fn.qualname, "if new_key == old_key: return set()",
         "nothing is reported (and nothing done) only when the key is unchanged",
         bool(same) and all(empty_set(c.value) for c in same), fi=fn.fi)
  def row_and(args, second):
    return len(args) == 2 and inl(args[0]) == row and second(args[1])
  ins = {n.id for (n, c, nm) in fn.calls(xcfg) if nm == "self._row_key_map.insert" and
         row_and(c.args, is_new)}
  rem = {n.id for (n, c, nm) in fn.calls(xcfg) if nm == "self._row_key_map.remove" and
         row_and(c.args, is_old)}
  if not ins:
    raise AnalysisError("SimpleLookupMapping.update_record: insert of the new key not found")
  # every way out of the insert -- completing (the single-valued right bin overwrites the old
  # key) or raising -- leaves the row no longer mapped under the old key
  ok = True
  wit = None
  for i in ins:
    for (src, dst) in [(i, d) for d in xcfg.succ[i] if (i, d) in xcfg.exc_edges]:
      # exceptional continuation of the insert
      if dst == xcfg.raise_exit.id:
        continue          # propagates: the whole bundle is rolled back
      r = xcfg.reach({dst}, removed=rem)
      if xcfg.exit.id in r:
        ok = False
        wit = xcfg.describe_path(xcfg.path(dst, {xcfg.exit.id}, removed=rem))
  run.ob(R2, fn.qualname, "except TypeError: self._row_key_map.remove(%s, old_key)" % row,
         "when the new key cannot be inserted (TwoWayMap.insert then restores the old mapping) "
         "every path on which the function still returns normally removes the row's entry "
         "under its old key", ok, witness=wit, fi=fn.fi)
  okr = bool(changed)
  for c in changed:
    rn = [x.id for x in fn.cfg.nodes if x.stmt is c.stmt][0]
    v = H.resolve(flow, c.value, rn) if c.value is not None else None
    if isinstance(v, ast.SetComp):
      g = v.generators[0]
      okr = okr and len(v.generators) == 1 and isinstance(g.iter, (ast.Tuple, ast.List, ast.Set)) \
          and any(is_old(e) for e in g.iter.elts) and text(v.elt) == text(g.target) and \
          all(text(t) == "%s is not None" % text(g.target) for t in g.ifs)
    elif isinstance(v, ast.Set):
      okr = okr and any(is_old(e) for e in v.elts)
    elif v is None or not any(is_old(x) for x in ast.walk(v) if isinstance(x, ast.expr)):
      okr = False
    else:
      raise AnalysisError("SimpleLookupMapping.update_record: unrecognised result %s" % short(v))
  run.ob(R2, fn.qualname, "return {k for k in (old_key, new_key) if k is not None}",
         "the old key is reported as affected whenever there was one, so lookups that returned "
         "the row under it are recomputed", okr, fi=fn.fi)


def r2_contains_update(run, w):
  R2 = run.rule("C13-R2", R2_DESC, floor=13)
  # ContainsLookupMapping.update_record
  fn = w.fn("lookup.ContainsLookupMapping.update_record")
  flow = H.Flow(fn)
  rec = fn.fi.params()[1]
  row = rec + "._row_id"
  inl = lambda e: text(H.inline(flow, e))
  NEW_T = "set(self.get_new_keys_iter(%s))" % rec
  OLD_T = "self.get_mapped_keys(%s)" % row
  texts = {inl(c) for c in calls_in(fn.node)}
  # the keys the row is mapped under now: through the accessor (which copies, see
  # get_mapped_keys below) or read from the two-way map here -- then the copy must be made here,
  # because the loops below edit the map's own set and the result is computed from the old keys
  direct = [c for c in calls_in(fn.node) if _xname(fn, c.func) == "self._row_key_map.lookup_left"
            and c.args and inl(c.args[0]) == row]
  if OLD_T not in texts and len(direct) == 1:
    own = H.Flow(fn, passthrough=False)
    holder = [s_ for s_ in walk_no_nested(fn.node) if isinstance(s_, ast.Assign) and
              any(x is direct[0] for x in ast.walk(s_.value))]
    v = holder[0].value if len(holder) == 1 else direct[0]
    kinds = [_owner(own, r, fn.fi.module) for r in own.roots(v, own.node_of(direct[0]))]
    live = [k for k in kinds if k[0] in ("callee", "state", "param")]
    run.ob(R2, fn.qualname, "old_keys = <copy of the row's mapped keys>", "the old keys are a "
           "snapshot: the set stored in the two-way map changes under the remove/insert loops, "
           "and new ^ old computed from it would report no key the row keeps as affected",
           bool(kinds) and not live, witness="; ".join("%s: %r" % k for k in live) or None,
           fi=fn.fi, node=direct[0])
    OLD_T = inl(v)
  if NEW_T not in texts or (OLD_T not in texts and not direct):
    raise AnalysisError("ContainsLookupMapping.update_record: old/new keys not found")
  def loop_ok(meth, a, b):
    for s in walk_no_nested(fn.node):
      if isinstance(s, ast.For) and isinstance(s.target, ast.Name) and \
          inl(s.iter) == "%s - %s" % (a, b):
        g = [x for x in H.guards_of(fn.node, s)]
        inner = [x for c in calls_in(s.body) for x in
                 (H.guards_of(fn.node, c11_stmt_of(fn.node, c)) if
                  text(c.func) == "self._row_key_map." + meth else [])
                 if H._synth_within(x[0], s)]
        return not g and not inner and \
            any(_xname(fn, c.func) == "self._row_key_map." + meth and len(c.args) == 2 and
                inl(c.args[0]) == row and text(c.args[1]) == s.target.id
                for c in calls_in(s.body))
    if any(_xname(fn, c.func) == "self._row_key_map." + meth for c in calls_in(fn.node)):
      raise AnalysisError("ContainsLookupMapping.update_record: cannot read for which keys "
                          "%s is called" % meth)
    return False        # no such call at all: the keys are never %s-ed
  run.ob(R2, fn.qualname, "for k in old - new: remove(row, k); for k in new - old: insert(row, k)",
         "keys the row no longer has are dropped and keys it gained are "
         "added", loop_ok("remove", OLD_T, NEW_T) and loop_ok("insert", NEW_T, OLD_T), fi=fn.fi)
  cases = [c for c in H.return_cases(fn.node)]
  ok = len(cases) == 1 and cases[0].value is not None and not cases[0].atoms and \
      inl(cases[0].value) in ("%s ^ %s" % (NEW_T, OLD_T), "%s ^ %s" % (OLD_T, NEW_T))
  if not ok:
    rv = [H.inline(flow, c.value) for c in cases if c.value is not None]
    known = lambda e: text(e) in (NEW_T, OLD_T) or \
        (isinstance(e, ast.BinOp) and known(e.left) and known(e.right))
    if not rv or not all(known(e) for e in rv):
      raise AnalysisError("ContainsLookupMapping.update_record: cannot read the result %s"
                          % "; ".join(short(e) for e in rv))
  run.ob(R2, fn.qualname, "return new_keys ^ old_keys", "exactly the keys whose row set changed "
         "are reported as affected", ok, fi=fn.fi)


def r2_removal(run, w):
  R2 = run.rule("C13-R2", R2_DESC, floor=13)
  # removal drops every mapped key
  fn = w.fn("lookup.BaseLookupMapping.remove_row_id")
  flow = H.Flow(fn)
  p = fn.fi.params()[1]
  ok = False
  for s in walk_no_nested(fn.node):
    if isinstance(s, ast.For) and isinstance(s.target, ast.Name):
      src = flow.roots(s.iter, flow.node_of(s.iter))
      ok = ok or (
        bool(src) and all(r.kind == "call" and _xname(fn, r.node.func) == "self.get_mapped_keys"
                          and [text(a) for a in r.node.args] == [p] and not r.path
                          for r in src) and
        any(_xname(fn, c.func) == "self._row_key_map.remove" and
            [text(x) for x in c.args] == [p, s.target.id] for c in calls_in(s.body)) and
        not any(isinstance(x, (ast.If, ast.Break, ast.Continue, ast.IfExp)) for b in s.body
                for x in ast.walk(b)) and not H.guards_of(fn.node, s))
  if not ok and not any(isinstance(s, ast.For) for s in walk_no_nested(fn.node)) and \
      any(_xname(fn, c.func) == "self._row_key_map.remove" for c in calls_in(fn.node)):
    raise AnalysisError("remove_row_id: cannot read for which keys remove is called")
  run.ob(R2, fn.qualname, "for k in self.get_mapped_keys(%s): self._row_key_map.remove(%s, k)"
         % (p, p), "a removed row leaves the index under every key it was mapped to", ok,
         fi=fn.fi)
  # mapped keys are handed out as copies (remove_row_id iterates them while removing)
  base = w.repo.cls("lookup.BaseLookupMapping")
  for ci in w.repo.subclasses(base, strict=True):
    m = ci.methods.get("get_mapped_keys")
    if m is None:
      continue
    mfn = w.fn_of(m)
    mflow = H.Flow(mfn, passthrough=False)
    for n in [x for x in mfn.cfg.nodes if x.kind == "return"]:
      kinds = [_owner(mflow, r, m.module) for r in mflow.roots(n.stmt.value, n.id)]
      bad = [k for k in kinds if k[0] in ("state", "param", "callee")]
      unk = [k for k in kinds if k[0] == "unknown"]
      if unk and not bad:
        raise AnalysisError("%s: cannot decide whether %s is a copy" % (m.qualname,
                                                                        short(n.stmt.value)))
      run.ob(R2, m.qualname, "return <copy of the mapped keys>", "the set of mapped keys handed "
             "out is a copy, not the set stored in the two-way map (callers remove entries while "
             "iterating it)", bool(kinds) and not bad,
             witness="; ".join("%s: %r" % k for k in bad) or None, fi=m, node=n.stmt)


# --------------------------------------------------------------------------------------- R3

def r3_lookup_one(run, w):
  R3 = run.rule("C13-R3", "lookup_one_record = lookup_records(...).get_one(); get_one yields the "
                "first row or the empty record", floor=3)
  def sole_return(fn):
    flow = H.Flow(fn)
    cases = [c for c in H.return_cases(fn.node)]
    if len(cases) != 1 or cases[0].value is None or cases[0].atoms:
      return None
    return text(H.inline(flow, cases[0].value))
  fn = w.fn("table.Table.lookup_one_record")
  kw = fn.node.args.kwarg.arg if fn.node.args.kwarg else None
  du = H.Flow(fn).du
  ok = sole_return(fn) == "self.lookup_records(**%s).get_one()" % kw and \
      not du.defs.get(kw) and not du.muts.get(kw)
  run.ob(R3, fn.qualname, "return self.lookup_records(**%s).get_one()" % kw,
         "lookupOne sees exactly the rows and the order lookupRecords would return", ok,
         fi=fn.fi)
  ut = w.fn("table.UserTable.lookupOne")
  kw2 = ut.node.args.kwarg.arg if ut.node.args.kwarg else None
  ok = sole_return(ut) == "self.table.lookup_one_record(**%s)" % kw2
  ut2 = w.fn("table.UserTable.lookupRecords")
  kw3 = ut2.node.args.kwarg.arg if ut2.node.args.kwarg else None
  ok = ok and sole_return(ut2) == "self.table.lookup_records(**%s)" % kw3
  run.ob(R3, ut.qualname, "lookupOne -> lookup_one_record; lookupRecords -> lookup_records",
         "the formula-facing methods forward every keyword (key columns, order_by, sort_by) "
         "unchanged", ok, fi=ut.fi)
  go = w.fn("records.RecordSet.get_one")
  flow = H.Flow(go)
  cases = [c for c in H.return_cases(go.node) if c.value is not None]
  ok = bool(cases)
  def nonempty(atoms):
    """True/False when the atoms say the row list is non-empty / empty, else None."""
    out = set()
    for (t, p) in atoms:
      tt = text(H.inline(flow, t))
      if tt in ("self._row_ids", "len(self._row_ids)", "len(self._row_ids) > 0",
                "len(self._row_ids) != 0", "len(self._row_ids) >= 1"):
        out.add(p)
      elif tt in ("len(self._row_ids) == 0", "len(self._row_ids) < 1"):
        out.add(not p)
    return out.pop() if len(out) == 1 else None
  n_first = n_empty = 0
  for c in cases:
    rn = [x.id for x in go.cfg.nodes if x.stmt is c.stmt][0]
    v = H.resolve(flow, c.value, rn)
    if not (isinstance(v, ast.Call) and _xname(go, v.func) == "self._table.Record" and v.args):
      raise AnalysisError("RecordSet.get_one: cannot read the result %s" % short(v))
    for vc in H.value_cases(go, flow, v.args[0], flow.node_of(v)):
      ne = nonempty(list(c.atoms) + list(vc.atoms))
      tv = text(H.inline(flow, vc.value))
      if tv == "self._row_ids[0]" and ne is True:
        n_first += 1
      elif isinstance(vc.value, ast.Constant) and vc.value.value == 0 and \
          not isinstance(vc.value.value, bool) and ne is False:
        n_empty += 1
      else:
        if not (tv.startswith("self._row_ids[") or isinstance(vc.value, ast.Constant)) or \
            ne is None:
          raise AnalysisError("RecordSet.get_one: cannot read the choice of row %s" % tv)
        ok = False
  run.ob(R3, go.qualname, "self._table.Record(self._row_ids[0] if self._row_ids else 0, ...)",
         "the first row in the documented order, or the empty record (row id 0) when nothing "
         "matches", ok and n_first >= 1 and n_empty >= 1, fi=go.fi)


LK = "sandbox/grist/lookup.py"
TB = "sandbox/grist/table.py"
RC = "sandbox/grist/records.py"
VARIANTS = [
  ("sort-key-captures-column-objects", "sandbox/grist/sort_key.py", """    table.get_column(col_id)
    col_sort_spec.append((col_id, sign))
""", """    col_obj = table.get_column(col_id)
    col_sort_spec.append((col_obj, sign))
""", "C13-R4"),

  # known realistic breakage (seeded)
  ("unhashable-key-keeps-old-index-entry", LK,
   """    except TypeError:
      # If key is not hashable, ignore it, just remove the old_key then.
      self._row_key_map.remove(rec._row_id, old_key)
      new_key = None""",
   """    except TypeError:
      # If key is not hashable, ignore it; insert() leaves the map unchanged when it fails.
      new_key = None""", "C13-R2"),
  ("old-key-not-reported", LK,
   "    return {k for k in (old_key, new_key) if k is not None}",
   "    return {new_key} if new_key is not None else set()", "C13-R2"),
  ("contains-keeps-stale-keys", LK,
   """    for old_key in old_keys - new_keys:
      self._row_key_map.remove(row_id, old_key)

""", "", "C13-R2"),
  ("contains-old-keys-live-set", LK,
   "    row_id = rec._row_id\n    old_keys = self.get_mapped_keys(row_id)",
   "    row_id = rec._row_id\n    old_keys = self._row_key_map.lookup_left(row_id, set())",
   "C13-R2"),
  ("mapped-keys-live-set", LK,
   "    return set(self._row_key_map.lookup_left(row_id, ()))",
   "    return self._row_key_map.lookup_left(row_id, ())", "C13-R2"),
  ("cache-key-mismatch", LK,
   "      row_id_set.sorted_versions[sort_spec] = row_ids",
   "      row_id_set.sorted_versions[()] = row_ids", "C13-R2"),
  ("lookup-unset-no-invalidate", LK,
   """    affected_keys = self._mapping.remove_row_id(row_id)
    self._relation_tracker.invalidate_affected_keys(affected_keys)""",
   """    affected_keys = self._mapping.remove_row_id(row_id)""", "C13-R2"),
  ("probe-key-not-extracted", LK,
   """    key = tuple(_extract(val) for val in key)
    row_ids, rel = self._do_lookup_with_sort(key, (), None)""",
   """    key = tuple(key)
    row_ids, rel = self._do_lookup_with_sort(key, (), None)""", "C13-R1"),
  ("sorted-probe-key-not-extracted", LK,
   """    key = tuple(_extract(val) for val in key)
    self._relation_tracker.update_relation_from_current_node(key)""",
   """    self._relation_tracker.update_relation_from_current_node(key)""", "C13-R1"),
  ("index-key-not-extracted", LK,
   "    return [tuple(_extract(getattr(rec, _col_id)) for _col_id in self._col_ids_tuple)]",
   "    return [tuple(getattr(rec, _col_id) for _col_id in self._col_ids_tuple)]", "C13-R1"),
  ("contains-index-key-not-extracted", LK,
   "      new_keys_groups.append([_extract(v) for v in group])",
   "      new_keys_groups.append(list(group))", "C13-R1"),
  ("probe-value-not-converted", TB,
   "        value = col._convert_raw_value(col.convert(value))",
   "        value = col._convert_raw_value(value)", "C13-R1"),
  ("probe-ids-misaligned", TB,
   "      key.append(value)\n      col_ids.append(col_id)",
   "      key.append(value)\n      col_ids.insert(0, col_id)", "C13-R1"),
  ("lookup-one-takes-last", RC,
   "    row_id = self._row_ids[0] if self._row_ids else 0\n    return self._table.Record(row_id, self._source_relation)",
   "    row_id = self._row_ids[-1] if self._row_ids else 0\n    return self._table.Record(row_id, self._source_relation)",
   "C13-R3"),
  ("lookup-one-drops-order", TB,
   "    return self.lookup_records(**kwargs).get_one()",
   "    kwargs.pop('order_by', None)\n    return self.lookup_records(**kwargs).get_one()", "C13-R3"),
]
