"""C21 Generated identifiers are valid and unique -- string-shape abstract interpretation of
identifiers.py (DESIGN.md 4/C21).

Abstract values: strings as (may be empty, may be non-empty, set of possible first characters,
set of possible characters, "certainly not a keyword", exact value when constant); integers as a
lower bound; booleans as constants or unknown; everything else opaque. Regexes are read through
the standard library's `re._parser` and interpreted structurally (class-run substitution,
insert-at-start-if-first-in-class); `prefix`/`capitalize` are propagated from the call sites.
The interpreter covers the statement subset identifiers.py is written in and raises
AnalysisError outside it. Nothing of the repository is executed."""
import ast
import copy
import keyword
import re
from ..fn import World
from ..index import AnalysisError, dotted
from ..astutil import text, short, endswith, calls_in, walk_no_nested, enclosing_chain
from ..dataflow import DefUse
from .. import events as E
from . import _h_D as H
from ._h_D import CharSet, LOWER, UPPER, DIGIT, LETTERS, IDENT_CHARS, ASCII

EXPLANATION = (
  "Decides, by abstract interpretation of identifiers.py over a string-shape domain (regexes "
  "interpreted through re._parser, prefix/capitalize constant-propagated from the call sites), "
  "for every requested name (any object or None) and every avoid set: (R1) pick_table_ident and "
  "pick_col_ident never return an empty value, return only characters of [A-Za-z0-9_], start "
  "with [A-Z] resp. a letter, and never return a Python keyword; (R2) every candidate a helper "
  "returns is returned under a test that its upper-cased form is not in the avoid set, and every "
  "pick_* upper-cases the avoid set first; (R3) pick_col_ident_list adds each pick, upper-cased, "
  "to the avoid set before the next pick and returns exactly the picks; (R4) the call sites in "
  "the engine pass avoid sets that contain 'id', the table's and its sibling summary tables' "
  "columns, and record each pick of a batch before the next one; (R5) nothing is added to the batch of a "
  "new table (the picked ids, the column list they are zipped with) after pick_col_ident_list "
  "ran. The interpreter follows if/else in "
  "either polarity, and/or conditions, break/continue and early returns; guards of the "
  "returned candidates and the call-site clauses are read from the CFG and through the locals "
  "that name an operand. Assumption: the keyword list is "
  "the analysing interpreter's keyword.kwlist. Not decided: that an already valid and unused "
  "name is kept as it is; termination of the suffix search.")

M = "identifiers"
KWLIST = tuple(keyword.kwlist)
KWCHARS = CharSet.of("".join(KWLIST))
ANY = CharSet.all()


# ============================================================================ abstract values

class Str(object):
  __slots__ = ("empty", "nonempty", "first", "alpha", "nonkw", "const", "one")

  def __init__(self, empty, nonempty, first, alpha, nonkw=False, const=None, one=False):
    self.empty = empty
    self.nonempty = nonempty
    self.first = first if nonempty else CharSet()
    self.alpha = alpha if nonempty else CharSet()
    self.const = const
    self.one = one            # exactly one character when non-empty
    nk = nonkw
    if nonempty and not empty and not self.alpha.empty() and self.alpha.disjoint(KWCHARS):
      nk = True
    if not any(self.fits(k) for k in KWLIST):
      nk = True
    self.nonkw = nk

  @classmethod
  def of(cls, s):
    if s == "":
      return cls(True, False, CharSet(), CharSet(), const="")
    return cls(False, True, CharSet.of(s[0]), CharSet.of(s), const=s, one=len(s) == 1)

  @classmethod
  def top(cls, empty=True):
    return cls(empty, True, ANY, ANY)

  def fits(self, word):
    if word == "":
      return self.empty
    if self.const is not None:
      return self.const == word
    return self.nonempty and self.first.contains(word[0]) and \
        all(self.alpha.contains(c) for c in word) and (not self.one or len(word) == 1)

  def join(self, o):
    return Str(self.empty or o.empty, self.nonempty or o.nonempty, self.first.union(o.first),
               self.alpha.union(o.alpha), self.nonkw and o.nonkw,
               self.const if self.const == o.const else None, self.one and o.one)

  def key(self):
    return ("str", self.empty, self.nonempty, self.first, self.alpha, self.nonkw, self.const,
            self.one)

  def __repr__(self):
    if self.const is not None:
      return "Str(%r)" % self.const
    return "Str(%s%s first=%r alpha=%r%s)" % (
      "empty|" if self.empty else "", "nonempty" if self.nonempty else "", self.first,
      self.alpha, " nonkw" if self.nonkw else "")


class Val(object):
  """kind: 'str' (s: Str) | 'int' (lo) | 'bool' (b: True/False/None) | 'none' | 'any' |
  'opaque' | 'chars' (tuple of characters: charset cs, min length n) | 'gen' (yields: Val)"""
  __slots__ = ("kind", "s", "lo", "b", "cs", "n", "y")

  def __init__(self, kind, s=None, lo=None, b=None, cs=None, n=None, y=None):
    self.kind, self.s, self.lo, self.b, self.cs, self.n, self.y = kind, s, lo, b, cs, n, y

  def key(self):
    return (self.kind, self.s.key() if self.s else None, self.lo, self.b, self.cs, self.n,
            self.y.key() if self.y else None)

  def __repr__(self):
    if self.kind == "str":
      return repr(self.s)
    if self.kind == "int":
      return "Int(>=%s)" % self.lo
    if self.kind == "bool":
      return "Bool(%s)" % self.b
    return self.kind


def vstr(s):
  return Val("str", s=s)


OPAQUE = Val("opaque")
NONE = Val("none")
ANYV = Val("any")


def join(a, b):
  if a is None:
    return b
  if b is None:
    return a
  if a.kind == b.kind:
    if a.kind == "str":
      return vstr(a.s.join(b.s))
    if a.kind == "int":
      return Val("int", lo=min(a.lo, b.lo))
    if a.kind == "bool":
      return Val("bool", b=a.b if a.b == b.b else None)
    if a.kind == "chars":
      return Val("chars", cs=a.cs.union(b.cs), n=min(a.n, b.n))
    return a
  if {a.kind, b.kind} <= {"str", "none", "any"}:
    return ANYV
  raise AnalysisError("identifiers: a variable holds values of different kinds (%s / %s)"
                      % (a.kind, b.kind))


def concat(a, b):
  if a.const is not None and b.const is not None:
    return Str.of(a.const + b.const)
  first = a.first
  if a.empty:
    first = first.union(b.first)
  nonkw = False
  # a part that certainly contributes a character no keyword contains
  for part in (a, b):
    if part.nonempty and not part.empty and part.alpha.disjoint(KWCHARS):
      nonkw = True
  return Str(a.empty and b.empty, a.nonempty or b.nonempty, first, a.alpha.union(b.alpha), nonkw)


def ascii_upper(cs):
  low = cs.intersect(LOWER)
  return cs.minus(LOWER).union(CharSet([(lo - 32, hi - 32) for lo, hi in low.iv]))


def ascii_lower(cs):
  up = cs.intersect(UPPER)
  return cs.minus(UPPER).union(CharSet([(lo + 32, hi + 32) for lo, hi in up.iv]))


# ============================================================================ the interpreter

class Env(dict):
  def copy(self):
    return Env(self)


def env_join(a, b):
  if a is None:
    return b
  if b is None:
    return a
  out = Env()
  for k in set(a) | set(b):
    if k in a and k in b:
      out[k] = join(a[k], b[k])
    # a name bound on one side only is unbound after the merge (using it is an error)
  return out


def env_key(e):
  return tuple(sorted((k, v.key()) for k, v in e.items()))


class Interp(object):
  def __init__(self, world):
    self.w = world
    self.mod = world.repo.module(M)
    self.ce = H.ConstEval(self.mod)
    self.memo = {}
    self.stack = []
    self.return_shapes = {}      # id(Return node) -> joined Val, over all contexts
    self.regex_uses = []         # (regex name, form) for the evidence
    self._loops = []

  # ---------------------------------------------------------------- calls
  def call(self, name, args):
    """Abstract result of module function `name` applied to {param: Val}."""
    fi = self.mod.functions.get(name)
    if fi is None:
      raise AnalysisError("identifiers.%s not found" % name)
    key = (name, tuple(sorted((k, v.key()) for k, v in args.items())))
    if key in self.memo:
      return self.memo[key]
    if name in self.stack:
      raise AnalysisError("identifiers.%s is recursive (outside the supported subset)" % name)
    self.stack.append(name)
    try:
      env = Env(args)
      out, rets, yields = self.block(fi.node.body, env, fi)
      if yields is not None:
        res = Val("gen", y=yields, b=self._infinite_generator(fi))
      else:
        res = None
        for r in rets:
          res = join(res, r)
        if out is not None:
          res = join(res, NONE)       # falling off the end returns None
        if res is None:
          raise AnalysisError("identifiers.%s never returns" % name)
    finally:
      self.stack.pop()
    self.memo[key] = res
    return res

  def bind(self, fi, call, env):
    """{param: Val} for a call of module function fi with the given argument expressions."""
    a = fi.node.args
    params = [x.arg for x in a.args]
    defaults = dict(zip(params[len(params) - len(a.defaults):], a.defaults))
    if a.vararg or a.kwarg or a.kwonlyargs or any(isinstance(x, ast.Starred) for x in call.args):
      raise AnalysisError("identifiers.%s: signature outside the supported subset" % fi.name)
    out = {}
    for p, e in zip(params, call.args):
      out[p] = self.ev(e, env)
    for kw in call.keywords:
      if kw.arg is None or kw.arg not in params or kw.arg in out:
        raise AnalysisError("identifiers.%s: bad keyword in %s" % (fi.name, short(call)))
      out[kw.arg] = self.ev(kw.value, env)
    for p in params:
      if p not in out:
        if p not in defaults:
          raise AnalysisError("identifiers.%s: argument %s missing in %s"
                              % (fi.name, p, short(call)))
        d = defaults[p]
        out[p] = self.ev(d, Env()) if isinstance(d, ast.Constant) else OPAQUE
    return out

  @staticmethod
  def _infinite_generator(fi):
    body = [s for s in fi.node.body if not (isinstance(s, ast.Expr) and
                                            isinstance(s.value, ast.Constant))]
    if not body or not isinstance(body[-1], ast.While):
      return False
    wl = body[-1]
    if not (isinstance(wl.test, ast.Constant) and wl.test.value is True) or wl.orelse:
      return False
    def has_exit(stmts, in_inner_loop):
      for s in stmts:
        if isinstance(s, ast.Return):
          return True
        if isinstance(s, ast.Break) and not in_inner_loop:
          return True
        for fld in ("body", "orelse", "finalbody"):
          b = getattr(s, fld, None)
          if isinstance(b, list) and b and isinstance(b[0], ast.stmt):
            if has_exit(b, in_inner_loop or isinstance(s, (ast.For, ast.While))):
              return True
      return False
    return not has_exit(wl.body, False) and \
        not any(isinstance(s, ast.Return) for s in body[:-1])

  # ---------------------------------------------------------------- statements
  # block/stmt return (env at fall-through or None, [returned Val], yielded Val or None); envs
  # leaving through `break` / `continue` are collected in self._brk / self._cont of the innermost
  # loop being interpreted.
  def block(self, stmts, env, fi):
    rets, yields = [], None
    for s in stmts:
      if env is None:
        break
      env, r, y = self.stmt(s, env, fi)
      rets.extend(r)
      yields = join(yields, y) if y is not None else yields
    return env, rets, yields

  def _loop_body(self, body, env, fi):
    """One abstract iteration: (env at the end of the body incl. `continue`, env leaving through
    `break`, rets, yields)."""
    self._loops.append({"brk": None, "cont": None})
    try:
      o, r, y = self.block(body, env, fi)
      fr = self._loops[-1]
    finally:
      self._loops.pop()
    return env_join(o, fr["cont"]), fr["brk"], r, y

  def stmt(self, s, env, fi):
    if isinstance(s, ast.Expr) and isinstance(s.value, ast.Constant):
      return env, [], None
    if isinstance(s, ast.Pass):
      return env, [], None
    if isinstance(s, ast.Break):
      if not self._loops:
        raise AnalysisError("identifiers: break outside a loop")
      self._loops[-1]["brk"] = env_join(self._loops[-1]["brk"], env)
      return None, [], None
    if isinstance(s, ast.Continue):
      if not self._loops:
        raise AnalysisError("identifiers: continue outside a loop")
      self._loops[-1]["cont"] = env_join(self._loops[-1]["cont"], env)
      return None, [], None
    if isinstance(s, ast.Expr) and isinstance(s.value, ast.Yield):
      return env, [], self.ev(s.value.value, env)
    if isinstance(s, ast.Assign) and len(s.targets) == 1 and isinstance(s.targets[0], ast.Name):
      env = env.copy()
      env[s.targets[0].id] = self.ev(s.value, env)
      return env, [], None
    if isinstance(s, ast.AugAssign) and isinstance(s.target, ast.Name) and \
        isinstance(s.op, ast.Add):
      cur = self.lookup(s.target.id, env)
      v = self.ev(s.value, env)
      env = env.copy()
      if cur.kind == "str" and v.kind == "str":
        env[s.target.id] = vstr(concat(cur.s, v.s))
      elif cur.kind == "int" and v.kind == "int" and v.lo >= 0:
        env[s.target.id] = Val("int", lo=cur.lo + v.lo)
      else:
        raise AnalysisError("identifiers: += outside the supported subset: %s" % short(s))
      return env, [], None
    if isinstance(s, ast.Return):
      v = self.ev(s.value, env) if s.value is not None else NONE
      self.return_shapes[id(s)] = join(self.return_shapes.get(id(s)), v) \
          if v.kind == self.return_shapes.get(id(s), v).kind else v
      return None, [v], None
    if isinstance(s, ast.If):
      et, ef = self.cond(s.test, env)
      rets, yields = [], None
      out = None
      for (e, body) in ((et, s.body), (ef, s.orelse)):
        if e is None:
          continue
        o, r, y = self.block(body, e, fi)
        rets.extend(r)
        yields = join(yields, y) if y is not None else yields
        out = env_join(out, o)
      return out, rets, yields
    if isinstance(s, ast.While):
      if s.orelse:
        raise AnalysisError("identifiers: while/else is outside the supported subset")
      head = env
      rets, yields = [], None
      seen = set()
      exit_env = None
      for _ in range(12):
        k = env_key(head)
        if k in seen:
          break
        seen.add(k)
        et, ef = self.cond(s.test, head)
        exit_env = env_join(exit_env, ef)
        if et is None:
          break
        o, brk, r, y = self._loop_body(s.body, et, fi)
        rets.extend(r)
        yields = join(yields, y) if y is not None else yields
        exit_env = env_join(exit_env, brk)
        if o is None:
          break
        head = env_join(head, o)
      else:
        raise AnalysisError("identifiers: while loop did not stabilise")
      return exit_env, rets, yields
    if isinstance(s, ast.For) and isinstance(s.target, ast.Name) and not s.orelse:
      if isinstance(s.iter, ast.Call) and text(s.iter.func) == "itertools.product" and \
          self.mod.imports.get("itertools") == ("module", "itertools"):
        it = Val("gen", y=self._product_elem(s.iter, env), b=False)
      else:
        it = self.ev(s.iter, env)
      if it.kind == "gen":
        elem, infinite = it.y, bool(it.b)
      elif it.kind == "chars":
        raise AnalysisError("identifiers: loop over a character tuple is outside the subset")
      elif it.kind in ("opaque", "any"):
        elem, infinite = ANYV, False
      else:
        raise AnalysisError("identifiers: loop over %s is outside the supported subset"
                            % it.kind)
      head = env
      rets, yields = [], None
      seen = set()
      exit_env = None
      for _ in range(12):
        k = env_key(head)
        if k in seen:
          break
        seen.add(k)
        e = head.copy()
        e[s.target.id] = elem
        o, brk, r, y = self._loop_body(s.body, e, fi)
        rets.extend(r)
        yields = join(yields, y) if y is not None else yields
        exit_env = env_join(exit_env, brk)
        if o is None:
          break
        head = env_join(head, o)
      else:
        raise AnalysisError("identifiers: for loop did not stabilise")
      return env_join(None if infinite else head, exit_env), rets, yields
    if isinstance(s, ast.Expr) and isinstance(s.value, ast.Call) and \
        isinstance(s.value.func, ast.Attribute) and \
        s.value.func.attr in ("add", "append", "update", "discard", "extend"):
      recv = self.ev(s.value.func.value, env)
      if recv.kind != "opaque":
        raise AnalysisError("identifiers: %s on a non-container" % short(s))
      for a in s.value.args:
        self.ev(a, env)
      return env, [], None
    raise AnalysisError("identifiers: statement outside the supported subset: %s" % short(s))

  def _product_elem(self, call, env):
    kw = {k.arg: k.value for k in call.keywords}
    if len(call.args) != 1 or set(kw) != {"repeat"}:
      raise AnalysisError("identifiers: itertools.product form outside the subset: %s"
                          % short(call))
    base = self.ev(call.args[0], env)
    rep = self.ev(kw["repeat"], env)
    if base.kind != "str" or base.s.const is None or rep.kind != "int":
      raise AnalysisError("identifiers: itertools.product arguments not understood")
    return Val("chars", cs=CharSet.of(base.s.const), n=rep.lo)

  # ---------------------------------------------------------------- conditions
  def cond(self, t, env):
    """(env if the test may be true else None, env if it may be false else None), refined."""
    if isinstance(t, ast.Constant):
      return (env, None) if t.value else (None, env)
    if isinstance(t, ast.UnaryOp) and isinstance(t.op, ast.Not):
      a, b = self.cond(t.operand, env)
      return b, a
    if isinstance(t, ast.BoolOp):
      # short-circuit evaluation, left to right
      is_and = isinstance(t.op, ast.And)
      cur, other = env, None
      for v in t.values:
        if cur is None:
          break
        et, ef = self.cond(v, cur)
        if is_and:
          other = env_join(other, ef)
          cur = et
        else:
          other = env_join(other, et)
          cur = ef
      return (cur, other) if is_and else (other, cur)
    if isinstance(t, ast.Name):
      v = self.lookup(t.id, env)
      if v.kind == "bool":
        if v.b is True:
          return env, None
        if v.b is False:
          return None, env
        return env, env
      if v.kind == "str":
        et = ef = None
        if v.s.nonempty:
          et = env.copy()
          et[t.id] = vstr(Str(False, True, v.s.first, v.s.alpha, v.s.nonkw, v.s.const
                              if v.s.const else None, v.s.one))
        if v.s.empty:
          ef = env.copy()
          ef[t.id] = vstr(Str.of(""))
        return et, ef
      if v.kind in ("any", "opaque"):
        return env, env
      if v.kind == "none":
        return None, env
    if isinstance(t, ast.Call):
      d = dotted(t.func)
      if d == "iskeyword" and len(t.args) == 1 and isinstance(t.args[0], ast.Name) and \
          self.mod.imports.get("iskeyword") == ("name", "keyword", "iskeyword"):
        nm = t.args[0].id
        v = self.lookup(nm, env)
        if v.kind != "str":
          raise AnalysisError("identifiers: iskeyword of a non-string")
        et = None if v.s.nonkw else env
        ef = env.copy()
        ef[nm] = vstr(Str(v.s.empty, v.s.nonempty, v.s.first, v.s.alpha, True, v.s.const,
                          v.s.one))
        return et, ef
      if isinstance(t.func, ast.Attribute) and t.func.attr in ("search", "match") and \
          isinstance(t.func.value, ast.Name):
        rx = self.ce.name(t.func.value.id)
        if isinstance(rx, H.Regex):
          for a in t.args:
            self.ev(a, env)
          self.regex_uses.append((t.func.value.id, "test"))
          return env, env
    if isinstance(t, ast.Compare) and len(t.ops) == 1:
      op = t.ops[0]
      if isinstance(op, (ast.In, ast.NotIn)):
        self.ev(t.left, env)
        c = self.ev(t.comparators[0], env)
        if c.kind not in ("opaque", "any"):
          raise AnalysisError("identifiers: membership in a non-container: %s" % short(t))
        return env, env
      if isinstance(op, (ast.Is, ast.IsNot)) and isinstance(t.comparators[0], ast.Constant) and \
          t.comparators[0].value is None and isinstance(t.left, ast.Name):
        v = self.lookup(t.left.id, env)
        is_none = (env, None) if v.kind == "none" else \
            ((env, env) if v.kind == "any" else (None, env))
        return is_none if isinstance(op, ast.Is) else (is_none[1], is_none[0])
    raise AnalysisError("identifiers: condition outside the supported subset: %s" % short(t))

  # ---------------------------------------------------------------- expressions
  def lookup(self, name, env):
    if name in env:
      return env[name]
    imp = self.mod.imports.get(name)
    if imp is not None or name in self.mod.assigns:
      try:
        v = self.ce.name(name)
      except AnalysisError:
        return OPAQUE
      if isinstance(v, str):
        return vstr(Str.of(v))
      return OPAQUE
    raise AnalysisError("identifiers: %s is used before it is bound on some path" % name)

  def ev(self, e, env):
    if isinstance(e, ast.Constant):
      if isinstance(e.value, bool):
        return Val("bool", b=e.value)
      if isinstance(e.value, str):
        return vstr(Str.of(e.value))
      if isinstance(e.value, int):
        return Val("int", lo=e.value)
      if e.value is None:
        return NONE
    if isinstance(e, ast.UnaryOp) and isinstance(e.op, ast.USub) and \
        isinstance(e.operand, ast.Constant) and isinstance(e.operand.value, int):
      return Val("int", lo=-e.operand.value)
    if isinstance(e, ast.Name):
      return self.lookup(e.id, env)
    if isinstance(e, ast.IfExp):
      et, ef = self.cond(e.test, env)
      out = None
      if et is not None:
        out = join(out, self.ev(e.body, et))
      if ef is not None:
        out = join(out, self.ev(e.orelse, ef))
      return out
    if isinstance(e, (ast.SetComp, ast.Set, ast.ListComp, ast.List, ast.Dict, ast.Tuple)):
      return OPAQUE
    if isinstance(e, ast.BinOp) and isinstance(e.op, ast.Add):
      a, b = self.ev(e.left, env), self.ev(e.right, env)
      if a.kind == "str" and b.kind == "str":
        return vstr(concat(a.s, b.s))
      if a.kind == "int" and b.kind == "int":
        return Val("int", lo=a.lo + b.lo)
    if isinstance(e, ast.BinOp) and isinstance(e.op, ast.Mod):
      return self._format(e, env)
    if isinstance(e, ast.Subscript):
      v = self.ev(e.value, env)
      if v.kind == "str":
        if isinstance(e.slice, ast.Constant) and e.slice.value == 0:
          if v.s.empty:
            raise AnalysisError("identifiers: %s may index an empty string" % short(e))
          return vstr(Str(False, True, v.s.first, v.s.first, one=True))
        if isinstance(e.slice, ast.Slice) and e.slice.upper is None and e.slice.step is None \
            and isinstance(e.slice.lower, ast.Constant) and e.slice.lower.value == 1:
          if v.s.one:
            return vstr(Str.of(""))
          return vstr(Str(True, v.s.nonempty, v.s.alpha, v.s.alpha))
    if isinstance(e, ast.Call):
      return self._call_expr(e, env)
    raise AnalysisError("identifiers: expression outside the supported subset: %s" % short(e))

  def _format(self, e, env):
    fmt = self.ev(e.left, env)
    if fmt.kind != "str" or fmt.s.const is None:
      raise AnalysisError("identifiers: non-constant format string: %s" % short(e))
    args = e.right.elts if isinstance(e.right, ast.Tuple) else [e.right]
    parts = re.split(r"(%[sd%])", fmt.s.const)
    out = Str.of("")
    i = 0
    for p in parts:
      if p == "%%":
        out = concat(out, Str.of("%"))
      elif p in ("%s", "%d"):
        if i >= len(args):
          raise AnalysisError("identifiers: too few format arguments: %s" % short(e))
        v = self.ev(args[i], env)
        i += 1
        if p == "%s" and v.kind == "str":
          out = concat(out, v.s)
        elif p == "%d" and v.kind == "int":
          digits = Str(False, True, DIGIT, DIGIT)
          if v.lo < 0:
            digits = Str(False, True, DIGIT.union(CharSet.of("-")), DIGIT.union(CharSet.of("-")))
          out = concat(out, digits)
        else:
          raise AnalysisError("identifiers: format argument of unexpected kind: %s" % short(e))
      elif "%" in p:
        raise AnalysisError("identifiers: format directive outside the subset: %r" % p)
      elif p:
        out = concat(out, Str.of(p))
    if i != len(args):
      raise AnalysisError("identifiers: too many format arguments: %s" % short(e))
    return vstr(out)

  def _call_expr(self, e, env):
    d = dotted(e.func)
    # module functions
    if d in self.mod.functions:
      fi = self.mod.functions[d]
      return self.call(d, self.bind(fi, e, env))
    if d == "str" and len(e.args) == 1:
      self.ev(e.args[0], env)
      return vstr(Str.top())
    if d in ("set", "frozenset", "list", "tuple", "sorted", "dict") and len(e.args) <= 1 and \
        not e.keywords:
      # a container of whatever the argument yields: opaque, like the comprehension displays
      if e.args and not isinstance(e.args[0], (ast.GeneratorExp, ast.ListComp, ast.SetComp,
                                               ast.DictComp)):
        self.ev(e.args[0], env)
      return OPAQUE
    if d == "unicodedata.normalize" and len(e.args) == 2 and \
        self.mod.imports.get("unicodedata") == ("module", "unicodedata"):
      v = self.ev(e.args[1], env)
      if v.kind != "str":
        raise AnalysisError("identifiers: normalize of a non-string")
      # normalisation can turn any character into any other (e.g. full-width forms into ASCII)
      return vstr(Str(v.s.empty, v.s.nonempty, ANY, ANY))
    if isinstance(e.func, ast.Attribute):
      m = e.func.attr
      # "".join(<generator>)
      if m == "join" and len(e.args) == 1:
        sep = self.ev(e.func.value, env)
        if sep.kind != "str" or sep.s.const != "":
          raise AnalysisError("identifiers: join with a non-empty separator: %s" % short(e))
        a = e.args[0]
        if isinstance(a, ast.GeneratorExp) and len(a.generators) == 1 and \
            isinstance(a.elt, ast.Name) and isinstance(a.generators[0].target, ast.Name) and \
            a.elt.id == a.generators[0].target.id:
          src = self.ev(a.generators[0].iter, env)
          if src.kind != "str":
            raise AnalysisError("identifiers: join over a non-string: %s" % short(e))
          filtered = bool(a.generators[0].ifs)
          return vstr(Str(src.s.empty or filtered, src.s.nonempty,
                          src.s.alpha if filtered else src.s.first, src.s.alpha))
        v = self.ev(a, env)
        if v.kind == "chars":
          return vstr(Str(v.n < 1, True, v.cs, v.cs))
        raise AnalysisError("identifiers: join argument outside the subset: %s" % short(e))
      recv_e = e.func.value
      # REGEX.sub(repl, s)
      if m == "sub" and isinstance(recv_e, ast.Name) and len(e.args) == 2:
        rx = None
        try:
          rx = self.ce.name(recv_e.id)
        except AnalysisError:
          pass
        if isinstance(rx, H.Regex):
          repl = self.ev(e.args[0], env)
          s = self.ev(e.args[1], env)
          if repl.kind != "str" or s.kind != "str" or repl.s.const is None:
            raise AnalysisError("identifiers: regex substitution with non-constant "
                                "replacement: %s" % short(e))
          return vstr(self._regex_sub(recv_e.id, rx, repl.s, s.s))
      recv = self.ev(recv_e, env)
      if recv.kind == "str":
        s = recv.s
        if m == "lstrip" and len(e.args) == 1:
          a = self.ev(e.args[0], env)
          if a.kind != "str" or a.s.const is None:
            raise AnalysisError("identifiers: lstrip with a non-constant argument")
          strip = CharSet.of(a.s.const)
          rest = s.alpha.minus(strip)
          return vstr(Str(s.empty or not s.alpha.disjoint(strip), not rest.empty(), rest,
                          s.alpha))
        if m == "capitalize" and not e.args:
          if not s.alpha.subset_of(ASCII):
            return vstr(Str(s.empty, s.nonempty, ANY, ANY))
          if s.one:
            f = ascii_upper(s.first)
            return vstr(Str(s.empty, s.nonempty, f, f, one=True))
          return vstr(Str(s.empty, s.nonempty, ascii_upper(s.first),
                          ascii_upper(s.first).union(ascii_lower(s.alpha))))
        if m == "lower" and not e.args:
          if not s.alpha.subset_of(ASCII):
            return vstr(Str(s.empty, s.nonempty, ANY, ANY))
          return vstr(Str(s.empty, s.nonempty, ascii_lower(s.first), ascii_lower(s.alpha),
                          const=s.const.lower() if s.const is not None else None, one=s.one))
        if m == "upper" and not e.args:
          if not s.alpha.subset_of(ASCII):
            return vstr(Str(s.empty, s.nonempty, ANY, ANY))
          return vstr(Str(s.empty, s.nonempty, ascii_upper(s.first), ascii_upper(s.alpha),
                          const=s.const.upper() if s.const is not None else None, one=s.one))
      if recv.kind in ("opaque", "any") and m in ("upper", "keys", "copy"):
        return OPAQUE
    raise AnalysisError("identifiers: call outside the supported subset: %s" % short(e))

  # ---------------------------------------------------------------- regex substitution
  def _regex_sub(self, name, rx, repl, s):
    tree = H.parse_regex(rx)
    items = list(tree)
    c = H.sre_c
    # form (a): one class, possibly repeated 1..n  ->  runs of class characters are replaced
    if len(items) == 1:
      it = items[0]
      body = it
      if it[0] in (c.MAX_REPEAT, c.MIN_REPEAT) and it[1][0] >= 1 and len(it[1][2]) == 1:
        body = it[1][2][0]
      cs = H.item_charset(body, rx.flags)
      if cs is not None:
        self.regex_uses.append((name, "replace runs of %r" % cs))
        hit = not s.alpha.disjoint(cs)
        if not hit:
          return s
        if repl.const == "":
          rest = s.alpha.minus(cs)
          return Str(True, not rest.empty(), rest, rest)
        alpha = s.alpha.minus(cs).union(repl.alpha)
        first = s.first.minus(cs)
        if not s.first.disjoint(cs):
          first = first.union(repl.first)
        return Str(s.empty, s.nonempty, first, alpha)
    # form (b): ^(?=[class])  ->  the replacement is inserted in front when the first char is in
    # the class
    if len(items) == 2 and items[0][0] is c.AT and items[0][1] is c.AT_BEGINNING and \
        items[1][0] is c.ASSERT and items[1][1][0] == 1 and len(items[1][1][1]) == 1:
      cs = H.item_charset(items[1][1][1][0], rx.flags)
      if cs is not None:
        if rx.flags & re.M and s.alpha.contains("\n"):
          raise AnalysisError("identifiers: %s is MULTILINE and the text may contain newlines"
                              % name)
        self.regex_uses.append((name, "insert in front when first char in %r" % cs))
        if s.first.disjoint(cs):
          return s
        keep = s.first.minus(cs)
        untouched = Str(s.empty, not keep.empty(), keep, s.alpha, s.nonkw)
        pre = Str(False, True, s.first.intersect(cs), s.alpha)
        return untouched.join(concat(repl, pre))
    raise AnalysisError("identifiers: regex %s (%r) has a form the string domain does not "
                        "interpret" % (name, rx.pattern))


# ============================================================================ rules

def check(run, repo, tier):
  w = World(repo)
  ip = Interp(w)
  if ip is None:
    return          # (reported as an analysis error)
  run.assume("the keyword list of the interpreter that runs the engine equals this analyser's "
             "keyword.kwlist (%d words)" % len(KWLIST))
  r1_shape(run, w, ip)
  r2_avoid(run, w, ip)
  r3_batch(run, w, ip)
  r4_call_sites(run, w)
  r5_whole_batch(run, w)
  run.extra["regexes_interpreted"] = sorted({"%s: %s" % u for u in ip.regex_uses})


def r1_shape(run, w, ip):
  R1 = run.rule("C21-R1", "pick_table_ident / pick_col_ident return a non-empty [A-Za-z0-9_]* "
                "string starting with [A-Z] / a letter that is not a keyword", floor=8)
  for name, first_ok, label in (("pick_table_ident", UPPER, "[A-Z]"),
                                ("pick_col_ident", LETTERS, "[A-Za-z]")):
    fi = w.repo.func("%s.%s" % (M, name))
    ps = fi.params()
    res = ip.call(name, {ps[0]: ANYV, ps[1]: OPAQUE})
    q = fi.qualname
    is_str = res.kind == "str"
    run.ob(R1, q, "result is always a string", "for any requested name (any object, None) and "
           "any avoid set the function returns a str (never None): abstract result %r" % (res,),
           is_str, fi=fi)
    if not is_str:
      continue
    s = res.s
    run.ob(R1, q, "result is never empty", "an identifier is produced even when nothing of the "
           "requested name survives sanitising", not s.empty and s.nonempty, fi=fi)
    run.ob(R1, q, "alphabet within [A-Za-z0-9_]: %r" % s.alpha, "only characters valid in a "
           "Python identifier (and in SQLite column names) are returned",
           s.alpha.subset_of(IDENT_CHARS), fi=fi)
    run.ob(R1, q, "first character within %s: %r" % (label, s.first), "the id does not start "
           "with a digit or an underscore%s" % (" and table ids are capitalised"
                                                 if first_ok is UPPER else ""),
           s.first.subset_of(first_ok), fi=fi)
    run.ob(R1, q, "result is not a keyword", "the id can be assigned to in generated code",
           s.nonkw, witness=None if s.nonkw else "could be: %s"
           % [k for k in KWLIST if s.fits(k)][:5], fi=fi)


def _helpers_with_avoid(w, ip):
  """Module functions that receive the (upper-cased) avoid set: reached from pick_* through
  calls that pass a local named like their avoid parameter. {name: avoid param}"""
  mod = w.repo.module(M)
  out = {}
  work = []
  for name, fi in mod.functions.items():
    if name.startswith("pick_"):
      ps = fi.params()
      if len(ps) >= 2:
        out[name] = ps[1]
        work.append(name)
  while work:
    name = work.pop()
    fi = mod.functions[name]
    av = out[name]
    normalisers = {id(s.value) for s in walk_no_nested(fi.node) if isinstance(s, ast.Assign) and
                   text(s.targets[0]) == av and isinstance(s.value, ast.Call)}
    for c in calls_in(fi.node.body):
      d = dotted(c.func)
      if id(c) in normalisers:
        continue          # avoid = _uppercase(avoid): produces the avoid set, not a candidate
      if d in mod.functions:
        callee = mod.functions[d]
        cps = callee.params()
        for i, a in enumerate(c.args):
          if isinstance(a, ast.Name) and a.id == av and i < len(cps) and d not in out:
            out[d] = cps[i]
            work.append(d)
        for kw in c.keywords:
          if isinstance(kw.value, ast.Name) and kw.value.id == av and d not in out:
            out[d] = kw.arg
            work.append(d)
  return out


def _not_in_avoid(v, cand, avoid, at, shape, facts):
  """The facts known where the candidate is returned include `<cand>.upper() not in <avoid>` or,
  for a candidate without lower-case letters, `<cand> not in <avoid>`."""
  def cmp_(left):
    return v.atom(ast.Compare(left=left, ops=[ast.In()],
                              comparators=[ast.Name(id=avoid, ctx=ast.Load())]), True, at=at)
  up = ast.Call(func=ast.Attribute(value=cand, attr="upper", ctx=ast.Load()), args=[], keywords=[])
  if (cmp_(up)[0], False) in facts:
    return True
  if (cmp_(cand)[0], False) in facts and shape is not None and shape.kind == "str":
    s = shape.s
    return s.alpha.subset_of(ASCII) and s.alpha.disjoint(LOWER)
  return False


def _arms_of(v, value, at, facts):
  """[(candidate expr, node, facts)] of a returned value: conditional expressions are split,
  locals that merely name the value are followed, also when they are bound on several paths."""
  return v.alternatives(value, at=at, facts=facts)


def _uppercaser(w):
  """The function that upper-cases an avoid set: the module function every pick_* applies to its
  avoid parameter first (today: _uppercase)."""
  mod = w.repo.module(M)
  cands = []
  for name, fi in mod.functions.items():
    if not name.startswith("pick_") or len(fi.params()) < 2:
      continue
    av = fi.params()[1]
    for s in walk_no_nested(fi.node):
      if isinstance(s, ast.Assign) and text(s.targets[0]) == av and \
          isinstance(s.value, ast.Call) and dotted(s.value.func) in mod.functions and \
          len(s.value.args) + len(s.value.keywords) == 1:
        cands.append(mod.functions[dotted(s.value.func)])
  return H._pick(cands, "_uppercase", "identifiers: the function that upper-cases the avoid set")


def r2_avoid(run, w, ip):
  R2 = run.rule("C21-R2", "every returned candidate is tested, upper-cased, against the "
                "upper-cased avoid set", floor=8)
  mod = w.repo.module(M)
  helpers = _helpers_with_avoid(w, ip)
  up = _uppercaser(w)
  UP = up.name
  uv = H.View(w.fn_of(up))
  rets = [s for s in walk_no_nested(up.node) if isinstance(s, ast.Return)]
  p = up.params()[0]
  ok = len(rets) == 1
  if ok:
    try:
      c = uv.collection(rets[0].value)
    except AnalysisError:
      c = None
    ok = c is not None and c.kind == "set" and not c.conds and c.iter_text == p and \
        c.value == "_v0.upper()" and \
        not [d for d, names in uv._gens().items() if p in names]
  run.ob(R2, up.qualname, "return {name.upper() for name in %s}" % p, "the avoid set is compared "
         "case-insensitively: every name in it is upper-cased, none is dropped", ok, fi=up)
  for name in sorted(helpers):
    fi = mod.functions[name]
    av = helpers[name]
    fn = w.fn_of(fi)
    v = H.View(fn)
    cfg = fn.cfg
    if name.startswith("pick_") or name == "_gen_ident":
      # the avoid set is upper-cased before anything uses it
      ups = {n.id for n in cfg.nodes if n.kind == "stmt" and isinstance(n.stmt, ast.Assign) and
             text(n.stmt.targets[0]) == av and
             text(v.positional(copy.deepcopy(n.stmt.value))) == "%s(%s)" % (UP, av)}
      uses = {n.id for n in cfg.nodes if n.stmt is not None and n.id not in ups and
              any(isinstance(x, ast.Name) and x.id == av and isinstance(x.ctx, ast.Load)
                  for e in n.exprs for x in ast.walk(e))}
      if name.startswith("pick_"):
        run.ob(R2, fi.qualname, "%s = _uppercase(%s) before any use" % (av, av),
               "existing names are compared without regard to case", bool(ups) and
               all(cfg.dominated_by(u, ups) for u in uses), fi=fi)
    if name == "pick_col_ident_list":
      continue        # returns the list of picks (R3)
    for n in cfg.nodes:
      s = n.stmt
      if n.kind != "return" or s.value is None:
        continue
      here = v.cfg_facts(n.id)
      # the value as written, tested as written (`while x.upper() in avoid: ...` / `return x`)
      if isinstance(s.value, ast.Name) and v.value_at(s.value.id, n.id) is None and \
          _not_in_avoid(v, s.value, av, n.id, ip.return_shapes.get(id(s)), here):
        run.ob(R2, fi.qualname, "return %s" % s.value.id, "the candidate is returned only when "
               "its upper-cased form is not in the avoid set", True, fi=fi, node=s)
        continue
      for (e, at, facts) in _arms_of(v, s.value, n.id, here):
        if isinstance(e, ast.Call) and dotted(e.func) in helpers:
          # delegated to a helper that receives the same avoid set
          callee = dotted(e.func)
          b = H.bind_args(e, mod.functions[callee].params()) or {}
          passed = b.get(helpers[callee])
          run.ob(R2, fi.qualname, short(e), "the helper that picks the name receives this "
                 "function's avoid set", isinstance(passed, ast.Name) and passed.id == av,
                 fi=fi, node=e)
          continue
        if not isinstance(e, ast.Name) and not (isinstance(e, ast.BinOp) or
                                                isinstance(e, ast.Call)):
          raise AnalysisError("%s: return value outside the supported idioms: %s"
                              % (fi.qualname, short(e)))
        shape = ip.return_shapes.get(id(s))
        ok = _not_in_avoid(v, e, av, at, shape, facts)
        run.ob(R2, fi.qualname, "return %s" % short(e, 40), "the candidate is returned only when "
               "its upper-cased form is not in the avoid set", ok, fi=fi, node=s)


def r3_batch(run, w, ip):
  R3 = run.rule("C21-R3", "pick_col_ident_list records each pick, upper-cased, in the avoid set "
                "before the next pick and returns exactly the picks", floor=4)
  fi = w.repo.func(M + ".pick_col_ident_list")
  fn = w.fn_of(fi)
  v = H.View(fn)
  ps = fi.params()
  cfg = fn.cfg
  picks = [(n, c) for (n, c, nm) in fn.calls() if nm == "pick_col_ident"]
  ok = len(picks) == 1
  lp = None
  if ok:
    pn, pc = picks[0]
    loops = [l for l in v.enclosing_loops(pn.stmt) if isinstance(l, ast.For)]
    ok = len(loops) == 1 and isinstance(loops[0].target, ast.Name) and \
        v.t(loops[0].iter) == ps[0] and not loops[0].orelse
    if ok:
      lp = loops[0]
      tm = v.loop_map(lp)
      b = H.bind_args(pc, w.repo.func(M + ".pick_col_ident").params()) or {}
      ok = v.t(b.get("ident"), tm) == "_v0" and isinstance(b.get("avoid"), ast.Name) and \
          b["avoid"].id == ps[1] and v.runs_for_all(lp, pc)
  run.ob(R3, fi.qualname, "ident = pick_col_ident(<requested>, avoid=%s)" % ps[1],
         "each requested name is picked against the growing avoid set", ok, fi=fi)
  if not ok:
    return
  heads = {tm.head}
  is_pick = lambda e: e is pc
  adds = set()
  for (n, c, nm) in fn.calls():
    if nm == "%s.add" % ps[1] and len(c.args) == 1:
      a = v.res(c.args[0])
      if isinstance(a, ast.Call) and isinstance(a.func, ast.Attribute) and a.func.attr == "upper" \
          and not a.args and v.denotes(a.func.value, is_pick, at=v.point_of(c)):
        adds.add(n.id)
  esc = cfg.path(pn.id, heads | {cfg.exit.id}, removed=adds, after=True)
  run.ob(R3, fi.qualname, "%s.add(<pick>.upper()) after every pick" % ps[1],
         "two ids chosen in the same batch differ case-insensitively", bool(adds) and esc is None,
         witness=cfg.describe_path(esc) if esc else None, fi=fi)
  apps = [(n, c) for (n, c, nm) in fn.calls() if isinstance(c.func, ast.Attribute) and
          c.func.attr == "append" and len(c.args) == 1 and isinstance(c.func.value, ast.Name) and
          v.denotes(c.args[0], is_pick)]
  rets = [s for s in walk_no_nested(fi.node) if isinstance(s, ast.Return)]
  ok = len(apps) == 1 and len(rets) == 1 and v.t(rets[0].value) == apps[0][1].func.value.id \
      and cfg.path(pn.id, heads | {cfg.exit.id}, removed={apps[0][0].id}, after=True) is None
  run.ob(R3, fi.qualname, "result.append(<pick>); return result", "one id per requested name, "
         "in order, each a result of pick_col_ident (R1 applies to each)", ok, fi=fi)
  rv = apps[0][1].func.value.id if apps else None
  sites = [d for d, names in v._gens().items() if rv in names] if rv else []
  init = v._plain_value(rv, sites[0]) if len(sites) == 1 else None
  run.ob(R3, fi.qualname, "%s starts empty and is only appended to" % rv,
         "nothing but picks is returned", init is not None and H._empty_container(init) == "list"
         and v.du.muts.get(rv, set()) == {apps[0][0].id} if apps else False, fi=fi)


def _kw_or_pos(call, params, name):
  b = H.bind_args(call, params)
  return (b or {}).get(name)


def _adds_all(v, fn, sv, over, value, outer_map=None):
  """CFG nodes that put `value` (placeholder text) of every element of `over` into the set `sv`:
  the initial value of sv, sv.update(<collection>), sv |= <collection>, or a loop sv.add(..)."""
  out = set()
  cfg = fn.cfg

  def matches(c):
    if c is None or c.conds or c.kind not in ("set", "list"):
      return False
    it = c.iter_text
    if outer_map:
      it = text(H._Renamer(H._versioned(outer_map)).visit(ast.parse(it, mode="eval").body)) \
          if "@" not in it else it
    return it == over and c.value == value

  for n in cfg.nodes:
    s = n.stmt
    if n.kind != "stmt":
      continue
    src = None
    if isinstance(s, ast.Assign) and len(s.targets) == 1 and isinstance(s.targets[0], ast.Name) \
        and s.targets[0].id == sv:
      src = s.value
    elif isinstance(s, ast.AugAssign) and isinstance(s.target, ast.Name) and s.target.id == sv \
        and isinstance(s.op, ast.BitOr):
      src = s.value
    elif isinstance(s, ast.Expr) and isinstance(s.value, ast.Call) and \
        isinstance(s.value.func, ast.Attribute) and isinstance(s.value.func.value, ast.Name) and \
        s.value.func.value.id == sv and len(s.value.args) == 1:
      if s.value.func.attr == "update":
        src = s.value.args[0]
      elif s.value.func.attr == "add":
        loops = [l for l in v.enclosing_loops(s) if isinstance(l, ast.For)]
        if loops:
          l = loops[-1]
          tm = v.loop_map(l)
          it = v.t(l.iter, outer_map) if outer_map else v.t(l.iter)
          m2 = dict(tm)
          if outer_map:
            m2.update(H._versioned(outer_map))
          if it == over and v.t(s.value.args[0], H.LoopMap(m2, tm.head)) == value and \
              v.runs_for_all(l, s):
            out.add(v.loop_head(l))
        continue
    if src is not None:
      try:
        c = v.collection(src)
      except AnalysisError:
        c = None
      if c is not None and outer_map:
        c2 = c
        it = v.t(c.iter, outer_map, at=n.id)
        ok = not c2.conds and c2.kind in ("set", "list") and it == over and c2.value == value
      else:
        ok = matches(c)
      if ok:
        out.add(n.id)
  return out


def r4_call_sites(run, w):
  R4 = run.rule("C21-R4", "engine call sites pass complete avoid sets and record each pick of a "
                "batch", floor=8)
  idmod = w.repo.module(M)
  # (a) every pick_col_ident_list call avoids 'id'
  n = 0
  for fi in w.repo.all_functions():
    if fi.module.name == M:
      continue
    fn = w.fn_of(fi)
    hits = [(nd, c) for (nd, c, nm) in fn.calls()
            if endswith(nm, "identifiers.pick_col_ident_list")]
    if not hits:
      continue
    v = H.View(fn)
    for (nd, c) in hits:
      n += 1
      av = _kw_or_pos(c, idmod.functions["pick_col_ident_list"].params(), "avoid")
      av = v.res(av) if av is not None else None
      ok = isinstance(av, ast.Set) and \
          any(isinstance(x, ast.Constant) and x.value == "id" for x in av.elts)
      run.ob(R4, fi.qualname, short(c), "'id' is taken in every table although it is not "
             "among the column records", ok, fi=fi, node=c)
  if n < 2:
    raise AnalysisError("fewer than 2 call sites of pick_col_ident_list found")
  # (b) _pick_col_name builds the avoid set from the table, 'id', sibling summary tables
  roles = H.role_anchors(w)
  PCN = roles["pick_col_name"].name
  run0 = run
  fn = H.xfn(w, roles["pick_col_name"].qualname, keep=KEEP)
  fi = fn.fi
  v = H.View(fn)
  run = H.Guarded(run0, v, keep=KEEP)
  cfg = fn.cfg
  ps = fi.params()       # cls, table_rec, col_id, old_col_id, avoid_extra
  picks = [(nd, c) for (nd, c, nm) in fn.calls() if endswith(nm, "identifiers.pick_col_ident")]
  if len(picks) != 1:
    raise AnalysisError("%s: one pick_col_ident call expected" % PCN)
  pn, pc = picks[0]
  av = _kw_or_pos(pc, idmod.functions["pick_col_ident"].params(), "avoid")
  if not isinstance(av, ast.Name) or v.value_at(av.id, pn.id) is not None:
    raise AnalysisError("_pick_col_name: avoid argument is not a local set")
  sv = av.id
  init = _adds_all(v, fn, sv, "%s.columns" % ps[1], "_v0.colId")
  run.ob(R4, fi.qualname, "%s = set(c.colId for c in %s.columns)" % (sv, ps[1]),
         "all existing columns of the table are avoided", bool(init) and
         cfg.dominated_by(pn.id, init), fi=fi)
  addid = {nd.id for (nd, c, nm) in fn.calls() if nm == "%s.add" % sv and len(c.args) == 1 and
           isinstance(v.res(c.args[0]), ast.Constant) and v.res(c.args[0]).value == "id"}
  addid |= {d for d in ({x for x, names in v._gens().items() if sv in names})
            if isinstance(v._plain_value(sv, d), (ast.Set, ast.Call)) and
            any(isinstance(x, ast.Constant) and x.value == "id"
                for x in ast.walk(v._plain_value(sv, d)))}
  run.ob(R4, fi.qualname, "%s.add('id')" % sv, "'id' is avoided", bool(addid) and
         cfg.dominated_by(pn.id, addid), fi=fi)
  sibn = set()
  for l in [x for x in walk_no_nested(fn.node) if isinstance(x, ast.For)]:
    if not isinstance(l.target, ast.Name) or v.t(l.iter) != "%s.summaryTables" % ps[1]:
      continue
    tm = v.loop_map(l, prefix="_t")
    inner = _adds_all(v, fn, sv, "_t0.columns", "_v0.colId", outer_map=tm)
    inner = {i for i in inner if any(z is cfg.nodes[i].stmt for b in l.body for z in ast.walk(b))}
    if inner and all(v.runs_for_all(l, cfg.nodes[i].stmt) for i in inner):
      sibn.add(tm.head)
  run.ob(R4, fi.qualname, "for t in %s.summaryTables: %s.update(c.colId for c in t.columns)"
         % (ps[1], sv), "a formula column shared by sibling summary tables cannot take a name "
         "one of them already uses", bool(sibn) and cfg.dominated_by(pn.id, sibn), fi=fi)
  removers = []
  for nid in v.du.muts.get(sv, set()):
    for c in calls_in(cfg.nodes[nid].exprs):
      if isinstance(c.func, ast.Attribute) and text(c.func.value) == sv and \
          c.func.attr in ("discard", "remove", "pop", "clear", "difference_update",
                          "intersection_update"):
        removers.append(c)
  ok = all(c.func.attr == "discard" and len(c.args) == 1 and len(ps) > 3 and
           v.t(c.args[0]) == ps[3] for c in removers) and \
      len([d for d, names in v._gens().items() if sv in names]) == 1
  run.ob(R4, fi.qualname, "only %s is ever removed from %s" % (ps[3] if len(ps) > 3 else "?", sv),
         "nothing but the column's own current name is exempt from avoidance", ok, fi=fi)
  ext = {nd.id for (nd, c, nm) in fn.calls() if nm == "%s.update" % sv and len(c.args) == 1 and
         len(ps) > 4 and v.t(c.args[0]) == ps[4]}
  run.ob(R4, fi.qualname, "%s.update(%s)" % (sv, ps[4] if len(ps) > 4 else "?"),
         "names picked earlier in the same bundle are avoided", bool(ext) and
         bool(cfg.reach_after(ext) & {pn.id}), fi=fi)
  # (c) batches: picks are recorded before the next pick
  a1 = H.xfn(w, roles["adjust_one"].qualname, keep=KEEP)
  v1 = H.View(a1)
  aps = a1.fi.params()
  run = H.Guarded(run0, v1, involved=tuple(aps[3:4]), keep=KEEP)
  calls = [(nd, c) for (nd, c, nm) in a1.calls() if endswith(nm, "self." + PCN, "cls." + PCN)]
  ok = False
  if len(calls) == 1:
    nd, c = calls[0]
    b = H.bind_args(c, ps[1:]) or {}
    extra = v1.alias_root(b["avoid_extra"]) if "avoid_extra" in b else None
    tgt = text(nd.stmt.targets[0]) if isinstance(nd.stmt, ast.Assign) and \
        nd.stmt.value is c else None
    adds = set()
    for (m, c2, nm) in a1.calls():
      if isinstance(extra, ast.Name) and isinstance(c2.func, ast.Attribute) and \
          c2.func.attr == "add" and len(c2.args) == 1 and \
          isinstance(v1.alias_root(c2.func.value), ast.Name) and \
          v1.alias_root(c2.func.value).id == extra.id and \
          (v1.denotes(c2.args[0], lambda e: e is c) or
           (tgt is not None and text(c2.args[0]) == tgt)):
        adds.add(m.id)
    ok = isinstance(extra, ast.Name) and extra.id in aps and bool(adds) and \
        a1.cfg.postdominated_by(nd.id, adds)
  run.ob(R4, a1.qualname, "avoid_extra=<set>; <set>.add(<picked colId>)", "a column id picked "
         "for one update of a bundle is avoided by the following ones", ok, fi=a1.fi)
  ucr = H.xfn(w, "useractions.UserActions._updateColumnRecords", keep=KEEP)
  vu = H.View(ucr)
  run = H.Guarded(run0, vu, keep=KEEP)
  calls = [(nd, c) for (nd, c, nm) in ucr.calls()
           if endswith(nm, "self." + roles["adjust_one"].name)]
  ok = False
  if len(calls) == 1:
    nd, c = calls[0]
    b = H.bind_args(c, aps[1:]) or {}
    sarg = vu.alias_root(b[aps[3]]) if aps[3] in b else None
    if isinstance(sarg, ast.Name):
      defs = vu.reaching(sarg.id, nd.id)
      lps = vu.enclosing_loops(nd.stmt)
      inside = {x.id for x in ucr.cfg.nodes if x.stmt is not None and lps and
                any(y is x.stmt for bb in lps[0].body for y in ast.walk(bb))}
      ok = len(defs) == 1 and bool(lps) and not (set(defs) & inside) and \
          next(iter(defs)) != vu.ENTRY and \
          H._empty_container(vu._plain_value(sarg.id, next(iter(defs)))) == "set"
  run.ob(R4, ucr.qualname, "one avoid_colid_set shared by all _adjust_one_column_update calls",
         "the set of ids picked in the bundle is created once, outside the loop", ok, fi=ucr.fi)
  utr = H.xfn(w, "useractions.UserActions._updateTableRecords", keep=KEEP)
  vt = H.View(utr)
  run = H.Guarded(run0, vt, keep=KEEP)
  cfg = utr.cfg
  picks = [(nd, c) for (nd, c, nm) in utr.calls()
           if endswith(nm, "identifiers.pick_table_ident")]
  if len(picks) < 2:
    raise AnalysisError("_updateTableRecords: two pick_table_ident calls expected")
  pick_nodes = {nd.id for nd, c in picks}
  bases = set()
  for (nd, c) in picks:
    av = _kw_or_pos(c, idmod.functions["pick_table_ident"].params(), "avoid")
    base = None
    if av is not None:
      e = vt.alias_root(av)
      r = vt.res(e)
      # avoid = avoid_tableid_set - {rec.tableId}
      if isinstance(r, ast.BinOp) and isinstance(r.op, ast.Sub) and \
          isinstance(vt.alias_root(r.left, at=vt.resolve(e)[1]), ast.Name) and \
          isinstance(r.right, ast.Set) and len(r.right.elts) == 1:
        base = vt.alias_root(r.left, at=vt.resolve(e)[1]).id
      elif isinstance(e, ast.Name):
        base = e.id
    if base:
      bases.add(base)
    adds = {m.id for (m, c2, nm) in utr.calls() if base and isinstance(c2.func, ast.Attribute) and
            c2.func.attr == "add" and len(c2.args) == 1 and
            isinstance(vt.alias_root(c2.func.value), ast.Name) and
            vt.alias_root(c2.func.value).id == base and
            vt.denotes(c2.args[0], lambda e, c=c: e is c)}
    esc = cfg.path(nd.id, (pick_nodes - {nd.id}) | {cfg.exit.id}, removed=adds, after=True) \
        if adds else [nd.id]
    # the same node may be re-reached in the next iteration: that also needs the add
    again = nd.id in cfg.reach_after({nd.id}, removed=adds) if adds else True
    run.ob(R4, utr.qualname, "<id> = pick_table_ident(.., avoid=%s); %s.add(<id>)"
           % (short(av, 40) if av is not None else "?", base), "a table id picked in this "
           "bundle (for a table or for a summary table renamed with it) is avoided by every "
           "later pick", esc is None and not again,
           witness=cfg.describe_path(esc) if esc else None, fi=utr.fi, node=c)
  ok = len(bases) == 1
  if ok:
    base = next(iter(bases))
    sites = [d for d, names in vt._gens().items() if base in names]
    ok = len(sites) == 1 and vt._plain_value(base, sites[0]) is not None and \
        vt.t(vt._plain_value(base, sites[0]), at=sites[0]) in ("set(self._engine.tables)",
                                                             "set(self._engine.tables.keys())")
  run.ob(R4, utr.qualname, "avoid_tableid_set = set(self._engine.tables)", "all existing table "
         "ids are avoided", ok, fi=utr.fi)
  dat = H.xfn(w, "useractions.UserActions.doAddTable", keep=KEEP)
  vd = H.View(dat)
  run = run0
  ok = False
  for (nd, c, nm) in dat.calls():
    if endswith(nm, "identifiers.pick_table_ident"):
      av = _kw_or_pos(c, idmod.functions["pick_table_ident"].params(), "avoid")
      ok = ok or (av is not None and vd.t(av) in ("self._engine.tables.keys()",
                                                   "set(self._engine.tables)",
                                                   "self._engine.tables"))
  run.ob(R4, dat.qualname, "pick_table_ident(table_id, avoid=self._engine.tables.keys())",
         "a new table avoids every existing table id (built-in tables included)", ok, fi=dat.fi)


KEEP = ("_pick_col_name", "_adjust_one_column_update", "_prepare_formula_renames",
        "_do_doc_action", "_do_extra_doc_action", "_bulk_action_iter")

def r5_whole_batch(run, w):
  """The ids of a new table are unique only among the names the picker saw: nothing may join
  the batch (the picked id list, or the column list it is zipped with) after the pick."""
  R5 = run.rule("C21-R5", "every column id of a new table went through the picker together "
                "with the others: the batch is not extended after pick_col_ident_list", floor=1)
  n_sites = 0
  for fi in w.repo.all_functions():
    if fi.module.name == M:
      continue
    fn0 = w.fn_of(fi)
    if not any(endswith(nm, "identifiers.pick_col_ident_list") for (nd, c, nm) in fn0.calls()):
      continue
    fn = H.xfn(w, fi.qualname, keep=KEEP) if fi.parent is None else fn0
    v = H.View(fn)
    cfg = fn.cfg
    for (nd, c, nm) in fn.calls():
      if not endswith(nm, "identifiers.pick_col_ident_list"):
        continue
      n_sites += 1
      st = nd.stmt
      batch = set()
      if isinstance(st, ast.Assign) and st.value is c:
        batch |= {t.id for t in st.targets if isinstance(t, ast.Name)}
      # the list the requested ids were read from (zipped with the picked ids later)
      a0 = v.arg(c, 0)
      try:
        coll = v.collection(a0) if a0 is not None else None
      except AnalysisError:
        coll = None
      if coll is not None:
        src = v.alias_root(coll.iter, at=nd.id)
        if isinstance(src, ast.Name):
          batch.add(src.id)
      after = cfg.reach_after({nd.id})
      grows = []
      for (m, c2, nm2) in fn.calls():
        f = c2.func
        if m.id in after and isinstance(f, ast.Attribute) and \
            f.attr in ("insert", "append", "extend") and \
            isinstance(v.alias_root(f.value), ast.Name) and v.alias_root(f.value).id in batch:
          grows.append(c2)
      for m in cfg.nodes:
        s2 = m.stmt
        if m.id in after and m.kind == "stmt" and isinstance(s2, ast.AugAssign) and \
            isinstance(s2.target, ast.Name) and s2.target.id in batch:
          grows.append(s2)
      run.ob(R5, fi.qualname, "nothing joins %s after %s" % (sorted(batch), short(c, 60)),
             "an id added to the batch afterwards (e.g. the automatic manualSort column) was "
             "neither picked with the others nor avoided by them, so a requested name that "
             "sanitises to it collides", not grows,
             witness=short(grows[0]) if grows else None, fi=fi,
             node=grows[0] if grows else c)
  if n_sites < 1:
    raise AnalysisError("no call site of pick_col_ident_list found")


I = "sandbox/grist/identifiers.py"
U = "sandbox/grist/useractions.py"
VARIANTS = [
  ("dot-allowed-in-identifiers", I, "re.compile(r'[^a-zA-Z0-9_]+')", "re.compile(r'[^a-zA-Z0-9_.]+')",
   "C21-R1"),
  ("start-prefix-step-dropped", I,
   "  ident = _invalid_ident_start_re.sub(prefix, ident)\n", "", "C21-R1"),
  ("digit-start-not-prefixed", I, "re.compile(r'^(?=[0-9_])')", "re.compile(r'^(?=[_])')", "C21-R1"),
  ("keyword-check-dropped", I, "  while iskeyword(ident):\n    ident = prefix + ident\n", "",
   "C21-R1"),
  ("table-prefix-lowercase", I, "_sanitize_ident(ident, prefix=\"T\", capitalize=True)",
   "_sanitize_ident(ident, prefix=\"t\", capitalize=True)", "C21-R1"),
  ("table-not-capitalised", I, "_sanitize_ident(ident, prefix=\"T\", capitalize=True)",
   "_sanitize_ident(ident, prefix=\"T\")", "C21-R1"),
  ("empty-name-returned", I,
   "  return _maybe_add_suffix(ident, avoid) if ident else _gen_ident(avoid)",
   "  return _maybe_add_suffix(ident, avoid)", "C21-R1"),
  ("capitalize-whole-word", I, "    ident = ident[0].capitalize() + ident[1:]",
   "    ident = ident[0].lower() + ident[1:]", "C21-R1"),
  ("suffix-separator-dash", I, "    ident_base += \"_\"", "    ident_base += \"-\"", "C21-R1"),
  ("suffix-may-be-negative", I, "_add_suffix(\"Table\", avoid, 1)", "_add_suffix(\"Table\", avoid, -1)",
   "C21-R1"),
  ("letters-include-lowercase-keywords", I, "itertools.product(ascii_uppercase, repeat=length)",
   "itertools.product('adins', repeat=length)", "C21-R1"),
  ("avoid-compared-case-sensitively", I, "  return ident if (ident.upper() not in avoid) else",
   "  return ident if (ident not in avoid) else", "C21-R2"),
  ("suffixed-name-not-checked", I, "    if ident.upper() not in avoid:\n      return ident\n",
   "    if ident not in avoid:\n      return ident\n", "C21-R2"),
  ("table-avoid-not-uppercased", I,
   "  avoid = _uppercase(avoid)\n  ident = _sanitize_ident(ident, prefix=\"T\", capitalize=True)",
   "  ident = _sanitize_ident(ident, prefix=\"T\", capitalize=True)", "C21-R2"),
  ("uppercase-drops-short-names", I, "  return {name.upper() for name in avoid}",
   "  return {name.upper() for name in avoid if len(name) > 1}", "C21-R2"),
  ("generated-letter-not-checked", I, "    if letter not in avoid:\n      return letter",
   "    if letter:\n      return letter", "C21-R2"),
  ("batch-pick-not-recorded", I, "    avoid.add(ident.upper())\n", "", "C21-R3"),
  ("batch-pick-recorded-as-is", I, "    avoid.add(ident.upper())\n", "    avoid.add(ident)\n",
   "C21-R3"),
  ("batch-returns-requested-names", I, "    result.append(ident)\n  return result",
   "    result.append(ident)\n  return ident_list", "C21-R3"),
  ("seeded-manualsort-added-after-the-pick", U,
   "    # Add a manualSort column.\n    if manual_sort:\n      columns.insert(0, column.MANUAL_SORT_COL_INFO.copy())\n\n    # If needed, transform table_id into a valid identifier, and add a suffix to make it unique.\n    table_title = table_id\n    table_id = identifiers.pick_table_ident(table_id, avoid=self._engine.tables.keys())\n    if not table_title:\n      table_title = table_id\n    # Sanitize and de-duplicate column identifiers.\n    col_ids = [c['id'] for c in columns]\n    col_ids = identifiers.pick_col_ident_list(col_ids, avoid={'id'})\n",
   "    # If needed, transform table_id into a valid identifier, and add a suffix to make it unique.\n    table_title = table_id\n    table_id = identifiers.pick_table_ident(table_id, avoid=self._engine.tables.keys())\n    if not table_title:\n      table_title = table_id\n    # Sanitize and de-duplicate column identifiers.\n    col_ids = [c['id'] for c in columns]\n    col_ids = identifiers.pick_col_ident_list(col_ids, avoid={'id'})\n\n    if manual_sort:\n      columns.insert(0, column.MANUAL_SORT_COL_INFO.copy())\n      col_ids.insert(0, column.MANUAL_SORT)\n", "C21-R5"),
  ("id-not-avoided-on-add-table", U, "identifiers.pick_col_ident_list(col_ids, avoid={'id'})",
   "identifiers.pick_col_ident_list(col_ids, avoid=set())", "C21-R4"),
  ("id-not-avoided-in-pick-col-name", U,
   "    avoid_set.add('id')     # 'id' is already taken although not included among column objects.\n",
   "", "C21-R4"),
  ("sibling-summary-columns-not-avoided", U,
   "    for t in table_rec.summaryTables:\n      avoid_set.update(c.colId for c in t.columns)\n",
   "", "C21-R4"),
  ("summary-table-id-not-recorded", U, "            avoid_tableid_set.add(st_table_id)\n", "",
   "C21-R4"),
  ("picked-colid-not-recorded", U, "      avoid_colid_set.add(col_values['colId'])\n", "", "C21-R4"),
]
