"""C23 Changing a column's type converts each stored value -- structural clauses (DESIGN.md
section 4, C23)."""
import ast
from ..fn import World
from ..index import AnalysisError, dotted
from ..astutil import text, short, endswith, calls_in, walk_no_nested
from ..dataflow import DefUse
from .. import events as E
from .. import types as T
from . import _h_B as H

EXPLANATION = (
  "Decides the data path of a type change. In UserActions.doModifyColumn (R1): the old values of "
  "every row are captured from the old column object before the ModifyColumn doc action and never "
  "re-read after it; the conversion loop runs over the same rows, converts the captured value "
  "with the *new* column's convert(), compares with strict_equal, and for every differing row both "
  "sets the new column and records (row, old, stored new) in a change list that is handed to "
  "summary.add_changes whenever it is non-empty; when the result is a data column the recorded "
  "changes are flushed into stored/undo actions. In DocActions.ModifyColumn (R2): the old column "
  "object is obtained before the schema is touched, the new one after the last rebuild, and the "
  "raw value of every row id of the table is copied across on every normal path, so alt-text and "
  "errors survive until the conversion above. R3: a column's convert() hands the value it "
  "was given to the type's conversion unmodified, apart from shapes it singles out with an "
  "isinstance test of that value (lookups, lists, records): a value of any other shape is not "
  "normalised first, so what the type would turn into alt-text stays alt-text. Not decided: the converted values themselves "
  "(usertypes.*.do_convert is C22).")


def check(run, repo, tier):
  w = World(repo)
  r1_user_level(run, w)
  r2_doc_level(run, w)
  r3_convert_unmodified(run, w)


def _name_of_assign(n):
  if n.kind == "stmt" and isinstance(n.stmt, ast.Assign) and len(n.stmt.targets) == 1 and \
      isinstance(n.stmt.targets[0], ast.Name):
    return n.stmt.targets[0].id
  return None


def _get_column_defs(fn, cfg, col_param):
  """[(node, var)] for `<var> = <table>.get_column(<col_id param>)` assignments."""
  out = []
  for n in cfg.nodes:
    v = _name_of_assign(n)
    if v and isinstance(n.stmt.value, ast.Call) and isinstance(n.stmt.value.func, ast.Attribute) \
        and n.stmt.value.func.attr == "get_column" and len(n.stmt.value.args) == 1 and \
        text(n.stmt.value.args[0]) == col_param and \
        fn.type_of(n.stmt.value.func.value) == T.TABLE:
      out.append((n, v))
  return out


# ------------------------------------------------------------------------------------------ R1
def _reads_of(fn, rd, cfg, attr, defs):
  """[(node, Call)] for calls <x>.<attr>(...) whose receiver is a local bound at one of `defs`."""
  out = []
  for (n, c, nm) in fn.calls():
    if isinstance(c.func, ast.Attribute) and c.func.attr == attr and \
        isinstance(c.func.value, ast.Name) and \
        H.origin_defs(rd, c.func.value.id, n.id) and \
        H.origin_defs(rd, c.func.value.id, n.id) <= set(defs):
      out.append((n, c))
  return out


def r1_user_level(run, w):
  R1 = run.rule("C23-R1", "doModifyColumn: capture old values before the doc action, convert the "
                "captured value with the new column, set + record every differing row, hand the "
                "record to summary.add_changes, flush when the result is a data column", floor=9)
  fn = H.inlined_fn(w, "useractions.UserActions.doModifyColumn")
  cfg = fn.cfg
  du = DefUse(fn)
  rd = H.ReachDefs(fn, du)
  keep = set()
  CF = lambda e: H.canon(fn, e, pure_only=False, stop=keep)
  names = w.action_types()
  ps = fn.fi.params()
  p_table, p_col, p_info = ps[1], ps[2], ps[3]
  gws = [(n, E.action_ctor(H.deref(fn, c.args[0]), names)) for (n, c) in H.gateway_sites(fn)]
  gws = [(n, r[1]) for (n, r) in gws if r and r[0] == "ModifyColumn"]
  if len(gws) != 1:
    raise AnalysisError("doModifyColumn: expected exactly one gateway(ModifyColumn) call")
  g, gctor = gws[0]
  after_g = cfg.reach_after({g.id})
  cols = _get_column_defs(fn, cfg, p_col)
  olds = [(n, v) for (n, v) in cols if n.id not in after_g]
  news = [(n, v) for (n, v) in cols if n.id in after_g]
  if len(olds) != 1 or len(news) != 1:
    raise AnalysisError("doModifyColumn: old/new column objects not recognised")
  (on, oldv), (nn, newv) = olds[0], news[0]
  keep |= {oldv, newv}
  run.ob(R1, fn.qualname, "%s = table.get_column(col_id) ... gateway(ModifyColumn) ... %s = "
         "table.get_column(col_id)" % (oldv, newv), "the old column object is taken before the "
         "schema change and the new one after it", cfg.dominated_by(g.id, {on.id}) and
         cfg.dominated_by(nn.id, {g.id}), fi=fn.fi)
  # capture: <cap> = {r: old.raw_get(r) for r in <rows>} (or the same written as a loop)
  caps = []
  for (n, read) in _reads_of(fn, rd, cfg, "raw_get", {on.id}):
    v = _name_of_assign(n)
    comp = None
    if v and isinstance(n.stmt.value, (ast.DictComp, ast.ListComp)) and \
        any(x is read for x in ast.walk(n.stmt.value)):
      comp, capdefs, at = n.stmt.value, {n.id}, n.id
    else:
      for nm_, ms in du.muts.items():
        if n.id in ms:
          comp = H.loop_as_comprehension(fn, du, rd, nm_, g.id)
          if comp is not None:
            v, capdefs, at = nm_, rd.reaching(nm_, g.id), comp._loop_node
    if comp is not None and len(comp.generators) == 1 and \
        not any(x[1] == v and x[0].id == n.id for x in caps):
      # (a second read at the same node, e.g. in a filter, belongs to the same capture)
      val = comp.value if isinstance(comp, ast.DictComp) else comp.elt
      first_read = [x for x in ast.walk(val) if isinstance(x, ast.Call) and
                    isinstance(x.func, ast.Attribute) and x.func.attr == "raw_get"]
      caps.append((n, v, comp, first_read[0] if first_read else read, capdefs, at))
  if len(caps) != 1:
    raise AnalysisError("doModifyColumn: capture of the old values not recognised")
  cn, capv, comp, read, capdefs, cap_at = caps[0]
  keep.add(capv)
  gen = comp.generators[0]
  same_read = lambda x: x is read or text(x) == text(read)
  ok = isinstance(comp, ast.DictComp) and not gen.ifs and text(comp.key) == text(gen.target) and \
      same_read(comp.value) and [text(a) for a in read.args] == [text(gen.target)] and \
      isinstance(gen.iter, ast.Name)
  run.ob(R1, fn.qualname, short(comp), "the raw old value of every row is captured, keyed by "
         "row id, nothing filtered", ok, fi=fn.fi, node=cn.stmt)
  rowsv = gen.iter.id if isinstance(gen.iter, ast.Name) else None
  # later plain copies of the captured dict (`x = all_old_values`) are no rewrites; in-place
  # writes through the dict or any copy of it, and rebindings of the name itself, are
  cap_writers = set(du.defs.get(capv, set()))
  for nm_ in du.group(capv):
    cap_writers |= du.muts.get(nm_, set())
  ok = all(cfg.dominated_by(g.id, {d}) for d in capdefs) and not (cap_writers & after_g) and \
      cn.id not in after_g
  run.ob(R1, fn.qualname, "%s captured before gateway(ModifyColumn), never rewritten" % capv,
         "the values converted are the ones the column held before its type changed", ok,
         fi=fn.fi, node=cn.stmt)
  rows_defs = rd.reaching(rowsv, cap_at) if rowsv else set()
  rvals = [H.def_value(cfg, d) for d in rows_defs]
  def all_rows(v):
    v = H.strip_wrappers(v) if v is not None else None
    return isinstance(v, ast.Attribute) and v.attr == "row_ids" and fn.type_of(v.value) == T.TABLE
  ok = bool(rvals) and all(all_rows(v) for v in rvals) and \
      all(r not in after_g for r in rows_defs if r != H.ReachDefs.ENTRY) and \
      not (du.muts.get(rowsv, set()))
  run.ob(R1, fn.qualname, "%s = list(table.row_ids)" % rowsv, "the rows considered are all rows "
         "of the table, listed before the change", ok, fi=fn.fi)
  # no state read of the old column after the doc action
  late = [c for (n, c, nm) in fn.calls() if n.id in after_g and isinstance(c.func, ast.Attribute)
          and isinstance(c.func.value, ast.Name) and
          on.id in H.origin_defs(rd, c.func.value.id, n.id)]
  run.ob(R1, fn.qualname, "%s not used after gateway(ModifyColumn)" % oldv,
         "the destroyed column object is not consulted again", not late, fi=fn.fi,
         node=late[0] if late else None)
  # conversion loop
  loops = [n for n in cfg.nodes if n.kind == "for" and n.id in after_g and
           any(isinstance(c.func, ast.Attribute) and c.func.attr == "convert"
               for c in calls_in(n.stmt.body))]
  if len(loops) != 1:
    raise AnalysisError("doModifyColumn: conversion loop not recognised")
  lp = loops[0]
  rowvar = text(lp.stmt.target)
  run.ob(R1, fn.qualname, "for %s in %s" % (rowvar, text(lp.stmt.iter)),
         "the conversion loop covers the same rows the capture did",
         isinstance(lp.stmt.iter, ast.Name) and
         H.origin_defs(rd, lp.stmt.iter.id, lp.id) == H.origin_defs(rd, rowsv, cap_at) and
         cfg.postdominated_by(g.id, {lp.id}), fi=fn.fi, node=lp.stmt)
  body_stmts = H.stmts_under(lp.stmt.body)
  body = H.nodes_of_stmts(cfg, body_stmts)
  convs = [(n, c) for (n, c, nm) in fn.calls() if n.id in body and
           isinstance(c.func, ast.Attribute) and c.func.attr == "convert"]
  ok = len(convs) == 1
  conv = convs[0][1] if convs else None
  if ok:
    recv = conv.func.value
    ok = isinstance(recv, ast.Name) and \
        H.origin_defs(rd, recv.id, convs[0][0].id) == {nn.id} and \
        len(conv.args) == 1 and not conv.keywords
  src = None
  if ok:
    src = H.expand(fn, conv.args[0], pure_only=False, stop=keep)
    ok = isinstance(src, ast.Subscript) and isinstance(src.value, ast.Name) and \
        src.value.id == capv and text(src.slice) == rowvar
  run.ob(R1, fn.qualname, short(conv) if conv is not None else "new_column.convert(...)",
         "each new value is the new column's conversion of that row's captured old value", ok,
         fi=fn.fi, node=conv)
  if not ok:
    return      # the violation above is the report; the rest of the rule needs this shape
  c_new, c_old = CF(conv), CF(conv.args[0])
  # differing rows: with strict_equal(old, new) false, no way round the loop avoids the set and
  # the record (any other test on the way leaves both branches open)
  def differs(e):
    if isinstance(e, ast.Call) and dotted(e.func) == "strict_equal" and len(e.args) == 2 and \
        not e.keywords and {CF(a) for a in e.args} == {c_new, c_old}:
      return False
    return None
  tested = any(differs(x) is False for n in cfg.nodes if n.id in body and n.kind == "if"
               for x in ast.walk(n.stmt.test))
  if not tested:
    # a comparison made by a helper (or a comparison the rule cannot relate to the two values) is
    # not the same as a loose comparison seen in place
    for n in cfg.nodes:
      if n.id in body and n.kind == "if":
        for c in calls_in(n.stmt.test):
          if dotted(c.func) != "strict_equal" and H.local_callee(w, fn, c) is not None:
            raise AnalysisError("doModifyColumn: changed rows are selected by helper %s; cannot "
                                "follow" % short(c, 60))
  run.ob(R1, fn.qualname, "if not strict_equal(<old value>, <converted value>):",
         "a row counts as changed whenever the converted value is not strictly equal (type "
         "included) to the old one", tested, fi=fn.fi)
  if not tested:
    return
  first = H.nodes_of_stmts(cfg, lp.stmt.body[:1])
  stops = {lp.id, cfg.exit.id}
  sets = set()
  for (n, c) in _reads_of(fn, rd, cfg, "set", {nn.id}):
    if n.id in body and len(c.args) == 2 and not c.keywords and \
        [CF(a) for a in c.args] == [rowvar, c_new]:
      sets.add(n.id)
  recs = []
  for (n, c, nm) in fn.calls():
    if n.id in body and isinstance(c.func, ast.Attribute) and c.func.attr == "append" and \
        len(c.args) == 1 and isinstance(c.func.value, ast.Name):
      t = H.deref(fn, c.args[0])
      if isinstance(t, ast.Tuple) and len(t.elts) == 3:
        e = [CF(x) for x in t.elts]
        e2 = H.expand(fn, t.elts[2], pure_only=False, stop=keep)
        # where the third element is evaluated (a local bound just before, or the append itself)
        rb_at = n.id
        if isinstance(t.elts[2], ast.Name):
          ds = rd.reaching(t.elts[2].id, n.id)
          rb_at = next(iter(ds)) if len(ds) == 1 and H.ReachDefs.ENTRY not in ds else None
        readback = isinstance(e2, ast.Call) and isinstance(e2.func, ast.Attribute) \
            and e2.func.attr == "raw_get" and isinstance(e2.func.value, ast.Name) and \
            rb_at is not None and H.origin_defs(rd, e2.func.value.id, rb_at) == {nn.id} and \
            [CF(x) for x in e2.args] == [rowvar]
        if e[0] == rowvar and e[1] == c_old and (e[2] == c_new or readback):
          recs.append((n, c.func.value.id, readback, rb_at))
  in_body_helpers = [c for (n, c, nm) in fn.calls() if n.id in body and
                     H.local_callee(w, fn, c) is not None]
  if (not sets or not recs) and in_body_helpers:
    raise AnalysisError("doModifyColumn: the write / the record of a changed row is not in the "
                        "loop itself and %s could not be read in place"
                        % short(in_body_helpers[0], 60))
  ok_set = bool(sets) and not (H.reach_assuming(cfg, first, differs, removed=sets) & stops)
  run.ob(R1, fn.qualname, "%s.set(%s, <converted value>)" % (newv, rowvar),
         "every differing row gets its converted value stored in the new column", ok_set, fi=fn.fi)
  ok_rec = len(recs) == 1 and \
      not (H.reach_assuming(cfg, first, differs, removed={recs[0][0].id}) & stops)
  run.ob(R1, fn.qualname, "changes.append((%s, <old value>, <stored new value>))" % rowvar,
         "every differing row is recorded with its old and its new stored value", ok_rec,
         fi=fn.fi)
  if not recs:
    return
  chv = recs[0][1]
  if sets and recs[0][2]:
    # the stored value is read back: that must happen after the set
    run.ob(R1, fn.qualname, "set before the read-back of the stored value",
           "the recorded new value is what the column holds after the write",
           cfg.dominated_by(recs[0][3], sets) and not (sets & cfg.reach_after(
             {recs[0][3]}, removed={lp.id})), fi=fn.fi)
  cdn = rd.reaching(chv, recs[0][0].id)
  ok = bool(cdn) and H.ReachDefs.ENTRY not in cdn and \
      all(H._empty_container(H.def_value(cfg, c)) == "list" and cfg.dominated_by(lp.id, {c})
          for c in cdn) and not (set(cdn) & body) and \
      not (du.muts.get(chv, set()) - {recs[0][0].id})
  run.ob(R1, fn.qualname, "%s = [] before the loop" % chv, "the change list starts empty once",
         ok, fi=fn.fi)
  # add_changes(table_id, col_id, changes) whenever changes is non-empty
  adds = [(n, c) for (n, c, nm) in fn.calls() if E.is_summary_add_changes(c, nm, fn)]
  if not adds and H.hidden_in_callees(w, fn, lambda c, nm, f: isinstance(c.func, ast.Attribute)
                                      and c.func.attr == "add_changes", depth=3):
    raise AnalysisError("doModifyColumn: summary.add_changes is only called inside a helper that "
                        "could not be read in place")
  ok = False
  an = None
  nonempty = lambda e: H.nonempty_value(fn, e, chv)
  if len(adds) == 1:
    an, ac = adds[0]
    afi = w.repo.func("action_summary.ActionSummary.add_changes")
    try:
      aargs = [H.arg_of(ac, afi, p) for p in afi.params()[1:4]]
    except AnalysisError:
      aargs = [None]
    ok = all(a is not None for a in aargs) and \
        [H.canon(fn, a) for a in aargs] == [p_table, p_col, chv] and \
        rd.reaching(chv, an.id) == cdn and an.id not in body and \
        cfg.exit.id not in H.reach_assuming(cfg, {lp.id}, nonempty, removed={an.id})
  run.ob(R1, fn.qualname, "if %s: summary.add_changes(table_id, col_id, %s)" % (chv, chv),
         "the recorded changes reach the action summary (from which stored and undo actions are "
         "made) whenever there are any, on every normal path after the loop", ok, fi=fn.fi)
  # flush when converting to a data column
  is_flush = lambda c, nm, f: endswith(nm, "out_actions.flush_calc_changes_for_column")
  ffi = w.repo.func("action_obj.ActionGroup.flush_calc_changes_for_column")
  fl = []          # (node in this function, [table argument, column argument] as seen here)
  for (n, c, nm) in fn.calls():
    if is_flush(c, nm, fn):
      try:
        fl.append((n, [H.arg_of(c, ffi, p) for p in ffi.params()[1:3]]))
      except AnalysisError:
        fl.append((n, [None, None]))
    else:
      hfi = H.self_method(w, fn, c)
      if hfi is not None and hfi.qualname != fn.qualname:
        h = w.fn_of(hfi)
        inner = [(n2, c2) for (n2, c2, nm2) in h.calls() if is_flush(c2, nm2, h)]
        if len(inner) == 1 and h.cfg.dominated_by(h.cfg.exit.id, {inner[0][0].id}):
          # the helper always flushes: its table / column arguments are parameters bound here
          try:
            iargs = [H.arg_of(inner[0][1], ffi, p) for p in ffi.params()[1:3]]
            outer = []
            for a in iargs:
              a = H.deref(h, a) if a is not None else None
              outer.append(H.arg_of(c, hfi, a.id) if isinstance(a, ast.Name) and
                           a.id in hfi.params() and not DefUse(h).rebinders(a.id) else None)
          except AnalysisError:
            outer = [None, None]
          fl.append((n, outer))
  if not fl and H.hidden_in_callees(w, fn, is_flush, depth=3):
    raise AnalysisError("doModifyColumn: flush_calc_changes_for_column is only called inside a "
                        "helper that could not be followed")
  ok = False
  if len(fl) == 1 and an is not None:
    fnode, fargs = fl[0]
    def is_to_formula_def(d):
      d = H.strip_bool(d) if d is not None else None
      return isinstance(d, ast.Call) and isinstance(d.func, ast.Attribute) and \
          d.func.attr == "get" and H.canon(fn, d.func.value) == p_info and d.args and \
          H.const_value(d.args[0]) == (True, "isFormula")
    tfs = {nm_ for nm_ in du.defs if du.values_of(nm_) and len(du.values_of(nm_)) == 1 and
           is_to_formula_def(du.values_of(nm_)[0])}
    early = all(H.unrebound_at(fn, du, p_info, x) for tf in tfs for x in du.defs[tf])
    data_col = lambda e: False if (isinstance(e, ast.Name) and e.id in tfs) or \
        is_to_formula_def(e) else None
    ok = early and all(a is not None for a in fargs) and \
        [H.canon(fn, a) for a in fargs] == [p_table, p_col] and \
        fnode.id in cfg.reach_after({an.id}) and an.id not in cfg.reach_after({fnode.id}) and \
        cfg.exit.id not in H.reach_assuming(cfg, {lp.id}, data_col, removed={fnode.id})
  run.ob(R1, fn.qualname, "if not to_formula: out_actions.flush_calc_changes_for_column(table_id, "
         "col_id)", "when the column ends up a data column its recorded changes are turned into "
         "stored/undo actions now, after they were recorded, on every normal path", ok, fi=fn.fi)


# ------------------------------------------------------------------------------------------ R2
def r2_doc_level(run, w):
  R2 = run.rule("C23-R2", "DocActions.ModifyColumn copies the old column's raw value of every row "
                "id of the table into the new column object", floor=4)
  fn = w.fn("docactions.DocActions.ModifyColumn")
  cfg = fn.cfg
  ps = fn.fi.params()
  p_col = ps[2]
  sw = E.schema_write_nodes(fn)
  reb = fn.nodes_calling(E.is_engine_call("rebuild_usercode"))
  if not sw or not reb:
    raise AnalysisError("DocActions.ModifyColumn: schema writes / rebuilds not recognised")
  after_sw = cfg.reach_after(sw)
  cols = _get_column_defs(fn, cfg, p_col)
  olds = [(n, v) for (n, v) in cols if n.id not in after_sw]
  news = [(n, v) for (n, v) in cols if n.id in after_sw]
  if len(olds) != 1 or len(news) != 1:
    raise AnalysisError("DocActions.ModifyColumn: old/new column objects not recognised")
  (on, oldv), (nn, newv) = olds[0], news[0]
  ok = all(cfg.dominated_by(s, {on.id}) for s in sw) and \
      not (cfg.reach_after({nn.id}) & (sw | reb)) and \
      all(cfg.dominated_by(nn.id, {r}) or nn.id not in cfg.reach_after({r}) for r in reb) and \
      any(cfg.dominated_by(nn.id, {r}) for r in reb)
  run.ob(R2, fn.qualname, "%s = get_column(col_id) before the schema change; %s = "
         "get_column(col_id) after the last rebuild" % (oldv, newv),
         "the source of the copy is the column as it was, the destination the rebuilt column", ok,
         fi=fn.fi)
  du = DefUse(fn)
  rd = H.ReachDefs(fn, du)
  copies = []
  for (n, c) in _reads_of(fn, rd, cfg, "set", {nn.id}):
    if len(c.args) == 2 and not c.keywords:
      heads = H.loop_heads_around(fn, cfg, n.stmt)
      copies.append((n, c, heads))
  copies = [x for x in copies if len(x[2]) == 1]
  if len(copies) != 1:
    raise AnalysisError("DocActions.ModifyColumn: copy loop not recognised")
  sn, sc, heads = copies[0]
  lp = cfg.nodes[next(iter(heads))]
  if lp.kind != "for":
    raise AnalysisError("DocActions.ModifyColumn: copy loop is not a for loop")
  rv = text(lp.stmt.target)
  it = H.strip_wrappers(H.deref(fn, lp.stmt.iter), ("list", "tuple", "sorted"))
  ok = isinstance(it, ast.Attribute) and it.attr == "row_ids" and fn.type_of(it.value) == T.TABLE
  run.ob(R2, fn.qualname, "for %s in %s" % (rv, text(it)), "the copy covers every row id of the "
         "table (no filter, no slice)", ok, fi=fn.fi, node=lp.stmt)
  val = H.expand(fn, sc.args[1], pure_only=False, stop={oldv, newv})
  from_old = isinstance(val, ast.Call) and isinstance(val.func, ast.Attribute) and \
      val.func.attr == "raw_get" and isinstance(val.func.value, ast.Name) and \
      H.origin_defs(rd, val.func.value.id, sn.id) == {on.id} and \
      [H.canon(fn, a) for a in val.args] == [rv] and not val.keywords
  # unconditionally: every way round the loop passes the set
  first = H.nodes_of_stmts(cfg, lp.stmt.body[:1])
  every = not (cfg.reach(first, removed={sn.id}) & {lp.id, cfg.exit.id})
  ok = H.canon(fn, sc.args[0]) == rv and from_old and every
  run.ob(R2, fn.qualname, short(sc), "each row receives the old column's raw stored value for the "
         "same row (alt-text and errors included), unconditionally", ok, fi=fn.fi, node=sc)
  ok = all(cfg.postdominated_by(s, {lp.id}) for s in sw) and cfg.dominated_by(lp.id, {nn.id})
  run.ob(R2, fn.qualname, "schema change -> copy loop", "every normal path that changes the "
         "column's schema also copies its data", ok, fi=fn.fi, node=lp.stmt,
         witness=None if ok else cfg.describe_path(
           cfg.path(sorted(sw)[0], {cfg.exit.id}, removed={lp.id}, after=True)))


# ------------------------------------------------------------------------------------------ R3
def r3_convert_unmodified(run, w):
  R3 = run.rule("C23-R3", "Column.convert passes the value it was given to the type's conversion "
                "unmodified unless an isinstance test singled its shape out", floor=2)
  n_seen = 0
  for ci in sorted(w.repo.classes.values(), key=lambda c: c.qualname):
    if ci.module.name != "column" or not w.typer.is_column(ci.qualname) or \
        "convert" not in ci.methods:
      continue
    fi = ci.methods["convert"]
    if len(fi.params()) != 2:
      raise AnalysisError("%s: convert(self, value) expected" % fi.qualname)
    fn = H.inlined_fn(w, fi.qualname)
    cfg = fn.cfg
    du = DefUse(fn)
    p = fi.params()[1]
    dele = []
    for (n, c, nm) in fn.calls():
      if isinstance(c.func, ast.Attribute) and c.func.attr == "convert":
        rv = c.func.value
        if (isinstance(rv, ast.Call) and dotted(rv.func) == "super") or \
            H.canon(fn, rv) == "self.type_obj":
          dele.append((n, c))
    if not dele:
      raise AnalysisError("%s: no delegation to super().convert / self.type_obj.convert found"
                          % fi.qualname)
    n_seen += 1
    # a value of no singled-out shape: every isinstance test of the value (or of a local that is
    # still the value) is false
    def plain(e):
      if isinstance(e, ast.Call) and dotted(e.func) == "isinstance" and len(e.args) == 2 and \
          isinstance(e.args[0], ast.Name):
        return False
      return None
    reach = H.reach_assuming(cfg, {cfg.entry.id}, plain)
    for (n, c) in dele:
      if n.id not in reach:
        continue
      args = H.norm(w, fn, c).args
      if len(args) != 1:
        raise AnalysisError("%s: cannot bind the argument of %s" % (fi.qualname, short(c)))
      a = args[0]
      wrapped = not isinstance(a, ast.Name)
      modified = []
      if isinstance(a, ast.Name):
        names = {a.id}
        D = set(du.defs.get(a.id, set()))
        for d in D:
          # a rebinding that reaches the delegation on a path with every isinstance test false
          v = H.def_value(cfg, d)
          if isinstance(v, ast.Name) and v.id == p and a.id != p:
            continue              # a plain copy of the value
          if n.id in H.reach_assuming(cfg, set(cfg.normal_succ(d)), plain, removed=D - {d}) and \
              d in reach:
            modified.append(d)
        if a.id != p and not any(isinstance(H.def_value(cfg, d), ast.Name) and
                                 H.def_value(cfg, d).id == p for d in D):
          wrapped = True
      ok = not wrapped and not modified
      run.ob(R3, fi.qualname, short(c), "a value whose shape the method does not single out "
             "reaches the type's conversion exactly as given (no clean-up or normalisation "
             "first: the type decides what is valid and what becomes alt-text)", ok, fi=fi,
             node=c, witness=None if ok else (
               "the argument is %s" % short(a, 50) if wrapped else
               "the value is rebound at line %d on a path without any isinstance test holding"
               % cfg.nodes[modified[0]].lineno))
  if n_seen < 2:
    raise AnalysisError("fewer than two column classes with a convert() method found")


D = "sandbox/grist/docactions.py"
U = "sandbox/grist/useractions.py"
VARIANTS = [
  ("capture-after-schema-change", U,
   """    # Get the values from the old column, which is about to be destroyed.
    all_rows = list(table.row_ids)
    all_old_values = {r: old_column.raw_get(r) for r in all_rows}

    # Do the actual schema change: this destroys the old column and creates a new one.
    self._do_doc_action(actions.ModifyColumn(table_id, col_id, col_info))
""",
   """    # Do the actual schema change: this destroys the old column and creates a new one.
    self._do_doc_action(actions.ModifyColumn(table_id, col_id, col_info))

    # Get the values from the old column.
    all_rows = list(table.row_ids)
    all_old_values = {r: old_column.raw_get(r) for r in all_rows}
""", "C23-R1"),
  ("convert-from-new-column-state", U,
   "      new_value = new_column.convert(orig_value)",
   "      new_value = new_column.convert(new_column.raw_get(row_id))", "C23-R1"),
  ("convert-with-type-object-of-old-column", U,
   "      orig_value = all_old_values[row_id]\n      new_value = new_column.convert(orig_value)",
   "      orig_value = all_old_values[row_id]\n      new_value = table.get_column(col_id).type_obj.convert(orig_value)",
   "C23-R1"),
  ("loose-equality-skips-retyped-values", U,
   "      if not strict_equal(orig_value, new_value):", "      if orig_value != new_value:", "C23-R1"),
  ("loose-equality-as-continue-guard", U,
   "      if not strict_equal(orig_value, new_value):\n        new_column.set(row_id, new_value)\n        changes.append((row_id, orig_value, new_column.raw_get(row_id)))",
   "      if orig_value == new_value:\n        continue\n      new_column.set(row_id, new_value)\n      changes.append((row_id, orig_value, new_column.raw_get(row_id)))",
   "C23-R1"),
  ("changes-not-recorded-for-formula-target", U,
   "    if changes:\n      self._engine.out_actions.summary.add_changes(table_id, col_id, changes)",
   "    if changes and not to_formula:\n      self._engine.out_actions.summary.add_changes(table_id, col_id, changes)",
   "C23-R1"),
  ("flush-only-from-formula", U,
   "    if not to_formula:\n      # If converting to non-formula, any previously prepared calc actions should be removed from",
   "    if from_formula and not to_formula:\n      # If converting to non-formula, any previously prepared calc actions should be removed from",
   "C23-R1"),
  ("only-nonempty-cells-converted", U,
   "    all_old_values = {r: old_column.raw_get(r) for r in all_rows}",
   "    all_old_values = {r: old_column.raw_get(r) for r in all_rows if old_column.raw_get(r)}",
   "C23-R1"),
  ("record-skipped-when-set-fails-silently", U,
   "        new_column.set(row_id, new_value)\n        changes.append((row_id, orig_value, new_column.raw_get(row_id)))",
   "        new_column.set(row_id, new_value)\n        if new_column.raw_get(row_id) == new_value:\n          changes.append((row_id, orig_value, new_column.raw_get(row_id)))",
   "C23-R1"),
  ("ref-convert-cleans-up-first", "sandbox/grist/column.py",
   "    return super(ReferenceColumn, self).convert(val)",
   "    return super(ReferenceColumn, self).convert(self._clean_up_value(val))", "C23-R3"),
  ("ref-convert-cleans-up-in-place", "sandbox/grist/column.py",
   "      val = val[0] if val else 0\n    return super(ReferenceColumn, self).convert(val)",
   "      val = val[0] if val else 0\n    val = self._clean_up_value(val)\n    return super(ReferenceColumn, self).convert(val)",
   "C23-R3"),
  ("copy-drops-alttext", D,
   "      new_column.set(row_id, old_column.raw_get(row_id))",
   "      new_column.set(row_id, old_column.safe_get(row_id))", "C23-R2"),
  ("copy-skipped-for-formula-columns", D,
   "    for row_id in table.row_ids:\n      new_column.set(row_id, old_column.raw_get(row_id))",
   "    if not old_column.is_formula():\n      for row_id in table.row_ids:\n        new_column.set(row_id, old_column.raw_get(row_id))",
   "C23-R2"),
]
