"""C23 Changing a column's type converts each stored value -- structural clauses (DESIGN.md
section 4, C23)."""
import ast
from ..fn import World
from ..index import AnalysisError, dotted
from ..astutil import text, short, endswith, calls_in, walk_no_nested
from ..dataflow import DefUse
from .. import events as E
from .. import types as T
from . import _h_B as H

EXPLANATION = (
  "Decides the data path of a type change. In UserActions.doModifyColumn (R1): the old values of "
  "every row are captured from the old column object before the ModifyColumn doc action and never "
  "re-read after it; the conversion loop runs over the same rows, converts the captured value "
  "with the *new* column's convert(), compares with strict_equal, and for every differing row both "
  "sets the new column and records (row, old, stored new) in a change list that is handed to "
  "summary.add_changes whenever it is non-empty; when the result is a data column the recorded "
  "changes are flushed into stored/undo actions. In DocActions.ModifyColumn (R2): the old column "
  "object is obtained before the schema is touched, the new one after the last rebuild, and the "
  "raw value of every row id of the table is copied across on every normal path, so alt-text and "
  "errors survive until the conversion above. Not decided: the converted values themselves "
  "(usertypes.*.do_convert is C22).")


def check(run, repo, tier):
  w = World(repo)
  r1_user_level(run, w)
  r2_doc_level(run, w)


def _name_of_assign(n):
  if n.kind == "stmt" and isinstance(n.stmt, ast.Assign) and len(n.stmt.targets) == 1 and \
      isinstance(n.stmt.targets[0], ast.Name):
    return n.stmt.targets[0].id
  return None


def _get_column_defs(fn, cfg, col_param):
  """[(node, var)] for `<var> = <table>.get_column(<col_id param>)` assignments."""
  out = []
  for n in cfg.nodes:
    v = _name_of_assign(n)
    if v and isinstance(n.stmt.value, ast.Call) and isinstance(n.stmt.value.func, ast.Attribute) \
        and n.stmt.value.func.attr == "get_column" and len(n.stmt.value.args) == 1 and \
        text(n.stmt.value.args[0]) == col_param and \
        fn.type_of(n.stmt.value.func.value) == T.TABLE:
      out.append((n, v))
  return out


# ------------------------------------------------------------------------------------------ R1
def r1_user_level(run, w):
  R1 = run.rule("C23-R1", "doModifyColumn: capture old values before the doc action, convert the "
                "captured value with the new column, set + record every differing row, hand the "
                "record to summary.add_changes, flush when the result is a data column", floor=9)
  fn = w.fn("useractions.UserActions.doModifyColumn")
  cfg = fn.cfg
  du = DefUse(fn)
  names = w.action_types()
  ps = fn.fi.params()
  p_table, p_col, p_info = ps[1], ps[2], ps[3]
  gws = [(n, E.action_ctor(c.args[0], names)) for (n, c) in H.gateway_sites(fn)]
  gws = [(n, r[1]) for (n, r) in gws if r and r[0] == "ModifyColumn"]
  if len(gws) != 1:
    raise AnalysisError("doModifyColumn: expected exactly one gateway(ModifyColumn) call")
  g, gctor = gws[0]
  after_g = cfg.reach_after({g.id})
  cols = _get_column_defs(fn, cfg, p_col)
  olds = [(n, v) for (n, v) in cols if n.id not in after_g]
  news = [(n, v) for (n, v) in cols if n.id in after_g]
  if len(olds) != 1 or len(news) != 1:
    raise AnalysisError("doModifyColumn: old/new column objects not recognised")
  (on, oldv), (nn, newv) = olds[0], news[0]
  run.ob(R1, fn.qualname, "%s = table.get_column(col_id) ... gateway(ModifyColumn) ... %s = "
         "table.get_column(col_id)" % (oldv, newv), "the old column object is taken before the "
         "schema change and the new one after it", cfg.dominated_by(g.id, {on.id}) and
         cfg.dominated_by(nn.id, {g.id}) and oldv != newv, fi=fn.fi)
  # capture: <cap> = {r: old.raw_get(r) for r in <rows>}
  caps = []
  for n in cfg.nodes:
    v = _name_of_assign(n)
    if v and isinstance(n.stmt.value, (ast.DictComp, ast.ListComp)):
      comp = n.stmt.value
      reads = [c for c in calls_in(comp) if isinstance(c.func, ast.Attribute) and
               c.func.attr == "raw_get" and text(c.func.value) == oldv]
      if reads and len(comp.generators) == 1:
        caps.append((n, v, comp, reads[0]))
  if len(caps) != 1:
    raise AnalysisError("doModifyColumn: capture of the old values not recognised")
  cn, capv, comp, read = caps[0]
  gen = comp.generators[0]
  ok = isinstance(comp, ast.DictComp) and not gen.ifs and text(comp.key) == text(gen.target) and \
      comp.value is read and [text(a) for a in read.args] == [text(gen.target)] and \
      isinstance(gen.iter, ast.Name)
  run.ob(R1, fn.qualname, short(cn.stmt), "the raw old value of every row is captured, keyed by "
         "row id, nothing filtered", ok, fi=fn.fi, node=cn.stmt)
  rowsv = gen.iter.id if isinstance(gen.iter, ast.Name) else None
  ok = cfg.dominated_by(g.id, {cn.id}) and cn.id not in after_g and \
      len(E.local_defs(fn.node, capv)) == 1 and not (du.muts.get(capv, set()))
  run.ob(R1, fn.qualname, "%s captured before gateway(ModifyColumn), never rewritten" % capv,
         "the values converted are the ones the column held before its type changed", ok,
         fi=fn.fi, node=cn.stmt)
  rd = H.single_def(fn, rowsv) if rowsv else None
  rnodes = {n.id for n in cfg.nodes if _name_of_assign(n) == rowsv}
  ok = rd is not None and isinstance(H.strip_wrappers(rd), ast.Attribute) and \
      H.strip_wrappers(rd).attr == "row_ids" and \
      fn.type_of(H.strip_wrappers(rd).value) == T.TABLE and \
      all(r not in after_g for r in rnodes)
  run.ob(R1, fn.qualname, "%s = list(table.row_ids)" % rowsv, "the rows considered are all rows "
         "of the table, listed before the change", ok, fi=fn.fi)
  # no state read of the old column after the doc action
  late = [c for (n, c, nm) in fn.calls() if n.id in after_g and isinstance(c.func, ast.Attribute)
          and text(c.func.value) == oldv]
  run.ob(R1, fn.qualname, "%s not used after gateway(ModifyColumn)" % oldv,
         "the destroyed column object is not consulted again", not late, fi=fn.fi,
         node=late[0] if late else None)
  # conversion loop
  loops = [n for n in cfg.nodes if n.kind == "for" and n.id in after_g and
           any(isinstance(c.func, ast.Attribute) and c.func.attr == "convert"
               for c in calls_in(n.stmt.body))]
  if len(loops) != 1:
    raise AnalysisError("doModifyColumn: conversion loop not recognised")
  lp = loops[0]
  rowvar = text(lp.stmt.target)
  run.ob(R1, fn.qualname, "for %s in %s" % (rowvar, text(lp.stmt.iter)),
         "the conversion loop covers the same rows the capture did",
         isinstance(lp.stmt.iter, ast.Name) and lp.stmt.iter.id == rowsv and
         cfg.postdominated_by(g.id, {lp.id}), fi=fn.fi, node=lp.stmt)
  convs = [c for c in calls_in(lp.stmt.body) if isinstance(c.func, ast.Attribute) and
           c.func.attr == "convert"]
  body_stmts = H.stmts_under(lp.stmt.body)
  def local_in_loop(name):
    vals = [s.value for s in body_stmts if isinstance(s, ast.Assign) and len(s.targets) == 1 and
            isinstance(s.targets[0], ast.Name) and s.targets[0].id == name]
    alld = E.local_defs(fn.node, name)
    return vals[0] if len(vals) == 1 and len(alld) == 1 else None
  ok = len(convs) == 1 and text(convs[0].func.value) == newv and len(convs[0].args) == 1
  origv = newvalv = None
  if ok:
    a = convs[0].args[0]
    src = a
    if isinstance(a, ast.Name):
      origv = a.id
      src = local_in_loop(a.id)
    ok = isinstance(src, ast.Subscript) and text(src.value) == capv and text(src.slice) == rowvar
    st = H.stmt_of(fn.node, convs[0])
    if isinstance(st, ast.Assign) and isinstance(st.targets[0], ast.Name) and \
        st.value is convs[0]:
      newvalv = st.targets[0].id
  run.ob(R1, fn.qualname, short(convs[0]) if convs else "new_column.convert(...)",
         "each new value is the new column's conversion of that row's captured old value", ok,
         fi=fn.fi, node=convs[0] if convs else None)
  if not ok:
    return      # the violation above is the report; the rest of the rule needs this shape
  if not (origv and newvalv):
    raise AnalysisError("doModifyColumn: conversion result is not bound to simple locals")
  # differing rows
  ifs = [s for s in lp.stmt.body if isinstance(s, ast.If)]
  tests_ok = False
  gi = None
  for s in ifs:
    t = s.test
    if isinstance(t, ast.UnaryOp) and isinstance(t.op, ast.Not) and isinstance(t.operand, ast.Call) \
        and dotted(t.operand.func) == "strict_equal" and \
        sorted(text(a) for a in t.operand.args) == sorted([origv, newvalv]) and not s.orelse:
      tests_ok = True
      gi = s
  run.ob(R1, fn.qualname, "if not strict_equal(%s, %s):" % (origv, newvalv),
         "a row counts as changed whenever the converted value is not strictly equal (type "
         "included) to the old one", tests_ok, fi=fn.fi)
  if gi is None:
    return
  gfirst = H.nodes_of_stmts(cfg, gi.body[:1])
  sets = {n.id for (n, c, nm) in fn.calls() if isinstance(c.func, ast.Attribute) and
          c.func.attr == "set" and text(c.func.value) == newv and
          [text(a) for a in c.args] == [rowvar, newvalv]}
  recs = []
  for (n, c, nm) in fn.calls():
    if isinstance(c.func, ast.Attribute) and c.func.attr == "append" and len(c.args) == 1 and \
        isinstance(c.func.value, ast.Name) and isinstance(c.args[0], ast.Tuple) and \
        len(c.args[0].elts) == 3 and n.id in H.nodes_of_stmts(cfg, H.stmts_under(gi.body)):
      e = c.args[0].elts
      after_ok = text(e[2]) in (newvalv, "%s.raw_get(%s)" % (newv, rowvar))
      if text(e[0]) == rowvar and text(e[1]) == origv and after_ok:
        recs.append((n, c.func.value.id))
  ok_set = bool(sets) and lp.id not in cfg.reach(gfirst, removed=sets)
  run.ob(R1, fn.qualname, "%s.set(%s, %s)" % (newv, rowvar, newvalv),
         "every differing row gets its converted value stored in the new column", ok_set, fi=fn.fi)
  ok_rec = len(recs) == 1 and lp.id not in cfg.reach(gfirst, removed={recs[0][0].id})
  run.ob(R1, fn.qualname, "changes.append((%s, %s, <stored new value>))" % (rowvar, origv),
         "every differing row is recorded with its old and its new stored value", ok_rec,
         fi=fn.fi)
  if not recs:
    return
  chv = recs[0][1]
  if sets and recs:
    sn = next(iter(sets))
    if text(recs[0][0].stmt.value.args[0].elts[2]) != newvalv:
      # the stored value is read back: that must happen after the set
      run.ob(R1, fn.qualname, "set before the read-back of the stored value",
             "the recorded new value is what the column holds after the write",
             recs[0][0].id in cfg.reach_after({sn}) and cfg.dominated_by(recs[0][0].id, sets),
             fi=fn.fi)
  cdef = H.single_def(fn, chv)
  cdn = {n.id for n in cfg.nodes if _name_of_assign(n) == chv}
  ok = isinstance(cdef, ast.List) and not cdef.elts and all(cfg.dominated_by(lp.id, {c}) for c in cdn) \
      and not (cdn & set(H.nodes_of_stmts(cfg, body_stmts)))
  run.ob(R1, fn.qualname, "%s = [] before the loop" % chv, "the change list starts empty once",
         ok, fi=fn.fi)
  # add_changes(table_id, col_id, changes) whenever changes is non-empty
  adds = [(n, c) for (n, c, nm) in fn.calls() if E.is_summary_add_changes(c, nm, fn)]
  ok = False
  an = None
  if len(adds) == 1:
    an, ac = adds[0]
    chain = H.guards_of(fn.node, an.stmt)
    ok = [text(a) for a in ac.args] == [p_table, p_col, chv] and \
        len(chain) <= 1 and all(isinstance(s, ast.If) and f == "body" and text(s.test) == chv
                                for (s, f) in chain)
    anchor = H.nodes_of_stmts(cfg, [chain[0][0]]) if chain else {an.id}
    ok = ok and cfg.postdominated_by(lp.id, anchor) and an.id not in \
        H.nodes_of_stmts(cfg, body_stmts)
  run.ob(R1, fn.qualname, "if %s: summary.add_changes(table_id, col_id, %s)" % (chv, chv),
         "the recorded changes reach the action summary (from which stored and undo actions are "
         "made) whenever there are any, on every normal path after the loop", ok, fi=fn.fi)
  # flush when converting to a data column
  fl = [(n, c) for (n, c, nm) in fn.calls()
        if endswith(nm, "out_actions.flush_calc_changes_for_column")]
  ok = False
  if len(fl) == 1 and an is not None:
    fnode, fc = fl[0]
    chain = [(s, f) for (s, f) in H.guards_of(fn.node, fnode.stmt) if not isinstance(s, ast.Try)]
    tf = None
    if len(chain) == 1 and isinstance(chain[0][0], ast.If) and chain[0][1] == "body" and \
        isinstance(chain[0][0].test, ast.UnaryOp) and isinstance(chain[0][0].test.op, ast.Not) and \
        isinstance(chain[0][0].test.operand, ast.Name):
      tf = chain[0][0].test.operand.id
    d = H.single_def(fn, tf) if tf else None
    d = H.strip_bool(d) if d is not None else None
    is_to_formula = isinstance(d, ast.Call) and isinstance(d.func, ast.Attribute) and \
        d.func.attr == "get" and text(d.func.value) == p_info and d.args and \
        H.const_value(d.args[0]) == (True, "isFormula")
    dn = {n.id for n in cfg.nodes if _name_of_assign(n) == tf}
    early = bool(dn) and all(H.unrebound_at(fn, du, p_info, x) for x in dn)
    ok = is_to_formula and early and [text(a) for a in fc.args] == [p_table, p_col] and \
        fnode.id in cfg.reach_after({an.id}) and an.id not in cfg.reach_after({fnode.id})
    if ok:
      gn = H.nodes_of_stmts(cfg, [chain[0][0]])
      ok = cfg.postdominated_by(lp.id, gn)
  run.ob(R1, fn.qualname, "if not to_formula: out_actions.flush_calc_changes_for_column(table_id, "
         "col_id)", "when the column ends up a data column its recorded changes are turned into "
         "stored/undo actions now, after they were recorded, on every normal path", ok, fi=fn.fi)


# ------------------------------------------------------------------------------------------ R2
def r2_doc_level(run, w):
  R2 = run.rule("C23-R2", "DocActions.ModifyColumn copies the old column's raw value of every row "
                "id of the table into the new column object", floor=4)
  fn = w.fn("docactions.DocActions.ModifyColumn")
  cfg = fn.cfg
  ps = fn.fi.params()
  p_col = ps[2]
  sw = E.schema_write_nodes(fn)
  reb = fn.nodes_calling(E.is_engine_call("rebuild_usercode"))
  if not sw or not reb:
    raise AnalysisError("DocActions.ModifyColumn: schema writes / rebuilds not recognised")
  after_sw = cfg.reach_after(sw)
  cols = _get_column_defs(fn, cfg, p_col)
  olds = [(n, v) for (n, v) in cols if n.id not in after_sw]
  news = [(n, v) for (n, v) in cols if n.id in after_sw]
  if len(olds) != 1 or len(news) != 1:
    raise AnalysisError("DocActions.ModifyColumn: old/new column objects not recognised")
  (on, oldv), (nn, newv) = olds[0], news[0]
  ok = all(cfg.dominated_by(s, {on.id}) for s in sw) and \
      not (cfg.reach_after({nn.id}) & (sw | reb)) and \
      all(cfg.dominated_by(nn.id, {r}) or nn.id not in cfg.reach_after({r}) for r in reb) and \
      any(cfg.dominated_by(nn.id, {r}) for r in reb)
  run.ob(R2, fn.qualname, "%s = get_column(col_id) before the schema change; %s = "
         "get_column(col_id) after the last rebuild" % (oldv, newv),
         "the source of the copy is the column as it was, the destination the rebuilt column", ok,
         fi=fn.fi)
  copies = []
  for n in cfg.nodes:
    if n.kind != "for":
      continue
    for c in calls_in(n.stmt.body):
      if isinstance(c.func, ast.Attribute) and c.func.attr == "set" and \
          text(c.func.value) == newv and len(c.args) == 2:
        copies.append((n, c))
  if len(copies) != 1:
    raise AnalysisError("DocActions.ModifyColumn: copy loop not recognised")
  lp, sc = copies[0]
  rv = text(lp.stmt.target)
  it = lp.stmt.iter
  ok = isinstance(it, ast.Attribute) and it.attr == "row_ids" and fn.type_of(it.value) == T.TABLE
  run.ob(R2, fn.qualname, "for %s in %s" % (rv, text(it)), "the copy covers every row id of the "
         "table (no filter, no slice)", ok, fi=fn.fi, node=lp.stmt)
  ok = text(sc.args[0]) == rv and text(sc.args[1]) == "%s.raw_get(%s)" % (oldv, rv) and \
      isinstance(H.stmt_of(fn.node, sc), ast.Expr) and \
      [s for (s, f) in H.guards_of(fn.node, H.stmt_of(fn.node, sc))] == [lp.stmt]
  run.ob(R2, fn.qualname, short(sc), "each row receives the old column's raw stored value for the "
         "same row (alt-text and errors included), unconditionally", ok, fi=fn.fi, node=sc)
  ok = all(cfg.postdominated_by(s, {lp.id}) for s in sw) and cfg.dominated_by(lp.id, {nn.id})
  run.ob(R2, fn.qualname, "schema change -> copy loop", "every normal path that changes the "
         "column's schema also copies its data", ok, fi=fn.fi, node=lp.stmt,
         witness=None if ok else cfg.describe_path(
           cfg.path(sorted(sw)[0], {cfg.exit.id}, removed={lp.id}, after=True)))


D = "sandbox/grist/docactions.py"
U = "sandbox/grist/useractions.py"
VARIANTS = [
  ("capture-after-schema-change", U,
   """    # Get the values from the old column, which is about to be destroyed.
    all_rows = list(table.row_ids)
    all_old_values = {r: old_column.raw_get(r) for r in all_rows}

    # Do the actual schema change: this destroys the old column and creates a new one.
    self._do_doc_action(actions.ModifyColumn(table_id, col_id, col_info))
""",
   """    # Do the actual schema change: this destroys the old column and creates a new one.
    self._do_doc_action(actions.ModifyColumn(table_id, col_id, col_info))

    # Get the values from the old column.
    all_rows = list(table.row_ids)
    all_old_values = {r: old_column.raw_get(r) for r in all_rows}
""", "C23-R1"),
  ("convert-from-new-column-state", U,
   "      new_value = new_column.convert(orig_value)",
   "      new_value = new_column.convert(new_column.raw_get(row_id))", "C23-R1"),
  ("convert-with-type-object-of-old-column", U,
   "      orig_value = all_old_values[row_id]\n      new_value = new_column.convert(orig_value)",
   "      orig_value = all_old_values[row_id]\n      new_value = table.get_column(col_id).type_obj.convert(orig_value)",
   "C23-R1"),
  ("loose-equality-skips-retyped-values", U,
   "      if not strict_equal(orig_value, new_value):", "      if orig_value != new_value:", "C23-R1"),
  ("changes-not-recorded-for-formula-target", U,
   "    if changes:\n      self._engine.out_actions.summary.add_changes(table_id, col_id, changes)",
   "    if changes and not to_formula:\n      self._engine.out_actions.summary.add_changes(table_id, col_id, changes)",
   "C23-R1"),
  ("flush-only-from-formula", U,
   "    if not to_formula:\n      # If converting to non-formula, any previously prepared calc actions should be removed from",
   "    if from_formula and not to_formula:\n      # If converting to non-formula, any previously prepared calc actions should be removed from",
   "C23-R1"),
  ("only-nonempty-cells-converted", U,
   "    all_old_values = {r: old_column.raw_get(r) for r in all_rows}",
   "    all_old_values = {r: old_column.raw_get(r) for r in all_rows if old_column.raw_get(r)}",
   "C23-R1"),
  ("record-skipped-when-set-fails-silently", U,
   "        new_column.set(row_id, new_value)\n        changes.append((row_id, orig_value, new_column.raw_get(row_id)))",
   "        new_column.set(row_id, new_value)\n        if new_column.raw_get(row_id) == new_value:\n          changes.append((row_id, orig_value, new_column.raw_get(row_id)))",
   "C23-R1"),
  ("copy-drops-alttext", D,
   "      new_column.set(row_id, old_column.raw_get(row_id))",
   "      new_column.set(row_id, old_column.safe_get(row_id))", "C23-R2"),
  ("copy-skipped-for-formula-columns", D,
   "    for row_id in table.row_ids:\n      new_column.set(row_id, old_column.raw_get(row_id))",
   "    if not old_column.is_formula():\n      for row_id in table.row_ids:\n        new_column.set(row_id, old_column.raw_get(row_id))",
   "C23-R2"),
]
