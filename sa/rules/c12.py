"""C12 Summary tables are exact group-bys of their source -- structural clauses.

Deviations from DESIGN.md section 4, both forced by reading the code:
  * R3 does not demand `indirect_actions()` around the row-creating calls nor `sorted(...)` around
    `itertools.product`: neither is a necessary condition of C12 (they belong to C31 and C30). It
    demands instead what uniqueness of keys needs: look-up before add with the same key,
    de-duplication of list elements, one key component per group-by column, and the
    is_triggered_by_table_action guard.
  * R5 is added: the end-of-bundle auto-removal must be iterated to a fixpoint ("rows whose group
    became empty are gone" after the bundle).

Reading the code: every rule function is evaluated through H.guarded_views -- on the source as
written and on behaviour-preserving normal forms of it (see _h_C.py / _h_C_norm.py) -- and slots
are filled by role (flow origins, guard atoms, return cases, conditions as boolean formulas),
not by statement shape or local names.
"""
import ast
from ..fn import World
from ..index import AnalysisError, dotted
from ..astutil import text, short, endswith, calls_in, walk_no_nested
from .. import events as E
from . import _h_C as H
from .c11 import _stmt_of, _single

EXPLANATION = (
  "Decides the agreements summary maintenance rests on: the helper column written by "
  "Table._add_update_summary_col is a Reference exactly when the summary table's simple flag is "
  "set and a ReferenceList otherwise, and getSummarySourceGroup looks the group up by the record "
  "itself resp. CONTAINS(record) under the same flag, same helper column id and same source "
  "table; a flag change replaces the helper column (R1); the set of list-like column classes is "
  "the same where the flag is computed and where list cells are expanded, "
  "summary_groupby_col_type flattens exactly the type names of those classes, and the "
  "empty-list sentinels are the defaults of the flattened types (R2); rows are created only "
  "after a look-up with the same key found nothing, list cells are de-duplicated, every "
  "group-by column contributes one key component, and creation is suppressed while the "
  "triggering doc action is on the summary table itself (R3); every path of "
  "getSummarySourceGroup that returns a group first records setAutoRemove(rec, not group), and "
  "apply_auto_removes removes exactly the marked records and reports whether it removed any "
  "(R4); after every recalculation of apply_user_actions the auto-remove set is examined again "
  "before the bundle is closed (R5). Not decided: exactness of the groups (value level); "
  "detach_summary_section (outside the statement) is only inspected for a note.")


def check(run, repo, tier):
  V = H.guarded_views
  V(run, repo, r1_flag_agreement)
  V(run, repo, r2_listlike)
  V(run, repo, r3_row_creation)
  V(run, repo, r4_auto_remove)
  V(run, repo, r5_fixpoint)
  H.finish_views(run, repo)


def _ctx_of(w):
  if not hasattr(w, "_c12_ctx"):
    w._c12_ctx = _Ctx(w)
  return w._c12_ctx


class _Ctx(object):
  """Slots of the writer, filled by role."""
  def __init__(self, w):
    self.writer = w.fn("table.Table._add_update_summary_col")
    ps = self.writer.fi.params()
    self.p_sum, self.p_groupby = ps[1], ps[2]
    tests = [s for s in self.writer.node.body if isinstance(s, ast.If) and
             isinstance(s.test, ast.Attribute) and isinstance(s.test.value, ast.Name) and
             s.test.value.id == self.p_sum]
    if len(tests) != 1:
      raise AnalysisError("_add_update_summary_col: branch on a flag of the summary table not "
                          "found")
    self.branch = tests[0]
    self.flag = tests[0].test.attr
    def inner(stmts):
      d = [s for s in stmts if isinstance(s, ast.FunctionDef)]
      if len(d) != 1:
        raise AnalysisError("_add_update_summary_col: expected one helper formula per branch")
      return d[0]
    self.simple_def = inner(self.branch.body)
    self.list_def = inner(self.branch.orelse)
    self.simple_fn = w.fn(self.writer.qualname + "." + self.simple_def.name)
    # both nested defs have the same name: the index keeps the last one under that qualname
    self.method_name = self.simple_def.name


def _formula_type(fdef):
  for d in fdef.decorator_list:
    if isinstance(d, ast.Call) and endswith(dotted(d.func), "formulaType") and len(d.args) == 1 \
        and isinstance(d.args[0], ast.Call):
      return dotted(d.args[0].func).split(".")[-1], d.args[0]
  raise AnalysisError("helper formula %s has no formulaType decorator" % fdef.name)


def _cond_value(fn, expr):
  """(test, value-if-true, value-if-false) for `a if t else b`, possibly through one local."""
  e = expr
  if isinstance(e, ast.Name):
    defs = E.local_defs(fn.node, e.id)
    if len(defs) == 1:
      e = defs[0]
    elif len(defs) == 2:
      for s in walk_no_nested(fn.node):
        if isinstance(s, ast.If) and len(s.body) == 1 and len(s.orelse) == 1 and \
            isinstance(s.body[0], ast.Assign) and isinstance(s.orelse[0], ast.Assign) and \
            text(s.body[0].targets[0]) == expr.id == text(s.orelse[0].targets[0]):
          return s.test, s.body[0].value, s.orelse[0].value
      raise AnalysisError("%s: cannot follow the two definitions of %s" % (fn.qualname, expr.id))
  if isinstance(e, ast.IfExp):
    return e.test, e.body, e.orelse
  return None, e, e       # unconditional value


# --------------------------------------------------------------------------------------- R1

def r1_flag_agreement(run, w):
  ctx = _ctx_of(w)
  R1 = run.rule("C12-R1", "writer and reader of the summary helper column agree on the simple "
                "flag, the helper column id and the source table", floor=5)
  wr = ctx.writer
  t_simple, c_simple = _formula_type(ctx.simple_def)
  t_list, c_list = _formula_type(ctx.list_def)
  ok = (t_simple, t_list) == ("Reference", "ReferenceList") and \
      all(len(c.args) == 1 and text(c.args[0]) == ctx.p_sum + ".table_id"
          for c in (c_simple, c_list)) and ctx.simple_def.name == ctx.list_def.name
  run.ob(R1, wr.qualname, "if %s.%s: Reference(...) else: ReferenceList(...)"
         % (ctx.p_sum, ctx.flag), "the helper column holds one summary row when the flag is set "
         "and a list of summary rows otherwise, both pointing into the summary table", ok,
         fi=wr.fi, node=ctx.branch)
  rd = w.fn("table.Table.getSummarySourceGroup")
  p_rec = rd.fi.params()[1]
  looks = [(n, c) for (n, c, nm) in rd.calls() if isinstance(c.func, ast.Attribute) and
           c.func.attr == "lookup_records"]
  (ln, lc) = _single(looks, "getSummarySourceGroup: lookup_records call")
  kw = [k for k in lc.keywords if k.arg is None and isinstance(k.value, ast.Dict)]
  # The group must list its rows in ascending row id order, which is lookup_records' default
  # (order_by='id'): any explicit ordering other than by 'id' changes that.
  named = [k for k in lc.keywords if k.arg is not None]
  order_ok = all(k.arg == "order_by" and isinstance(k.value, ast.Constant) and
                 k.value.value == "id" for k in named)
  run.ob(R1, rd.qualname, "lookup_records(%s)" % ", ".join(
           ("%s=%s" % (k.arg, text(k.value))) if k.arg else "**{...}" for k in lc.keywords),
         "the group is listed in lookup_records' default order (ascending row id): no sort_by / "
         "order_by other than 'id' is requested", order_ok, fi=rd.fi, node=lc)
  if lc.args or len(kw) != 1 or len(kw[0].value.keys) != 1 or \
      len(lc.keywords) != 1 + len(named):
    raise AnalysisError("getSummarySourceGroup: lookup is not lookup_records(**{key: value})")
  key, val = kw[0].value.keys[0], kw[0].value.values[0]
  rflow = H.Flow(rd)
  def kind_of(e):
    e = H.inline(rflow, e)
    if isinstance(e, ast.Name) and e.id == p_rec:
      return "rec"
    if isinstance(e, ast.Call) and endswith(dotted(e.func), "CONTAINS") and \
        [text(a) for a in e.args] == [p_rec] and not e.keywords:
      return "contains"
    return None
  def flag_pols(atoms):
    return {p for (t, p) in atoms if text(H.inline(rflow, t)) == "self." + ctx.flag}
  vcases = H.value_cases(rd, rflow, val, rflow.node_of(lc))
  kinds = [(kind_of(c.value), flag_pols(c.atoms)) for c in vcases]
  if any(k is None for (k, fp) in kinds):
    raise AnalysisError("getSummarySourceGroup: cannot read the lookup value %s" % short(val))
  ok = {k for (k, fp) in kinds} == {"rec", "contains"} and \
      all(fp == {k == "rec"} for (k, fp) in kinds)
  run.ob(R1, rd.qualname, "lookup value = %s if self.%s else CONTAINS(%s)"
         % (p_rec, ctx.flag, p_rec), "the group is looked up by identity when the helper column "
         "is a Reference and by membership when it is a ReferenceList -- under the same flag the "
         "writer branches on", ok, fi=rd.fi, node=lc)
  # helper column id
  creates = [c for (n, c, nm) in wr.calls() if nm == "self._create_or_update_col"]
  cr = _single(creates, "_add_update_summary_col: _create_or_update_col call")
  wflow = H.Flow(wr)
  ids = wflow.roots(cr.args[0], wflow.node_of(cr))
  helper = None
  if ids and all(r.kind == "param" and r.node == ctx.p_sum and len(r.path) == 1 and
                 r.path[0][0] == "attr" for r in ids):
    helper = ids[0].path[0][1]
  if helper is None or len(cr.args) < 2 or not isinstance(cr.args[1], ast.Name):
    raise AnalysisError("_add_update_summary_col: cannot read which column %s creates"
                        % short(cr, 70))
  ok = helper is not None and H.is_self_attr(key, helper) and \
      isinstance(cr.args[1], ast.Name) and cr.args[1].id == ctx.method_name
  run.ob(R1, rd.qualname, "lookup key self.%s  <->  writer's column id %s.%s"
         % (helper, ctx.p_sum, helper), "reader and writer name the same helper column, and the "
         "column's method is the helper formula of the chosen branch", ok, fi=rd.fi, node=lc)
  # same source table object on both sides, and the reader returns nothing without one
  rb = w.fn("table.Table._rebuild_model")
  wcalls = [c for (n, c, nm) in rb.calls() if isinstance(c.func, ast.Attribute) and
            c.func.attr == wr.fi.name]
  wc = _single(wcalls, "_rebuild_model: call of _add_update_summary_col")
  src_attr = wc.func.value
  ok = H.is_self_attr(src_attr) and text(lc.func.value) == text(src_attr) and \
      len(wc.args) == 2 and text(wc.args[0]) == "self"
  run.ob(R1, rb.qualname, "%s._add_update_summary_col(self, ...)  <->  %s.lookup_records"
         % (text(src_attr), text(lc.func.value)), "the helper column is installed in the table "
         "the group is later looked up in", ok, fi=rb.fi, node=wc)
  # the flag is computed from the same group-by columns that are handed to the writer
  flags = [s for s in walk_no_nested(rb.node) if isinstance(s, ast.Assign) and
           H.is_self_attr(s.targets[0], ctx.flag) and not
           (isinstance(s.value, ast.Constant) and s.value.value is None)]
  fl = _single(flags, "_rebuild_model: definition of the simple flag")
  v = H.inline(H.Flow(rb), fl.value)
  ok = isinstance(v, ast.UnaryOp) and isinstance(v.op, ast.Not) and \
      isinstance(v.operand, ast.Call) and dotted(v.operand.func) == "any" and \
      len(v.operand.args) == 1 and \
      isinstance(v.operand.args[0], (ast.GeneratorExp, ast.ListComp)) and \
      len(v.operand.args[0].generators) == 1 and \
      isinstance(v.operand.args[0].elt, ast.Call) and \
      dotted(v.operand.args[0].elt.func) == "isinstance"
  if not ok:
    raise AnalysisError("_rebuild_model: cannot read how self.%s is computed: %s"
                        % (ctx.flag, short(v)))
  if ok:
    g = v.operand.args[0]
    ok = len(g.generators) == 1 and not g.generators[0].ifs and \
        text(g.generators[0].iter) == text(H.inline(H.Flow(rb), wc.args[1])) and \
        isinstance(g.elt, ast.Call) and dotted(g.elt.func) == "isinstance" and \
        text(g.elt.args[0]) in ("%s.all_columns.get(%s)" % (text(src_attr),
                                                            text(g.generators[0].target)),
                                "%s.all_columns[%s]" % (text(src_attr),
                                                        text(g.generators[0].target)),
                                "%s.get_column(%s)" % (text(src_attr),
                                                       text(g.generators[0].target)))
  run.ob(R1, rb.qualname, "self.%s = not any(isinstance(<source column of c>, LISTLIKE) for c in "
         "<group-by columns>)" % ctx.flag, "the flag says whether any of the very group-by "
         "columns handed to the writer is list-like in the source table", ok, fi=rb.fi, node=fl)
  # a flag change replaces the helper column
  dels = [(n, c) for (n, c, nm) in wr.calls() if nm == "self.delete_column"]
  ok = False
  if dels:
    (dn, dc) = dels[0]
    def key(e):
      e2 = H.inline(wflow, e)
      if isinstance(e2, ast.Compare) and len(e2.ops) == 1 and \
          isinstance(e2.ops[0], (ast.Eq, ast.NotEq, ast.Is, ast.IsNot)):
        sides = [text(e2.left), text(e2.comparators[0])]
        if any("type_obj" in x for x in sides) and \
            any(x == "type(%s.grist_type)" % ctx.method_name for x in sides):
          a = H.f_atom("same-kind")
          return a if isinstance(e2.ops[0], (ast.Eq, ast.Is)) else H.f_not(a)
      if isinstance(e2, ast.Call) and wr.name(e2.func) == "self.has_column":
        return "exists"
      return None
    actual = H.Conditions(wr, wflow, key).of_stmt(_stmt_of(wr.node, dc))
    want = H.f_and(H.f_atom("exists"), H.f_not(H.f_atom("same-kind")))
    crn = wflow.node_of(cr)
    # whenever the existing helper column is of the other kind it is deleted (before the new one
    # is created), and no other condition prevents that
    ok = H.f_equivalent(H.f_or(H.f_not(want), actual), H.F_TRUE) and \
        "same-kind" in H.f_atoms(actual) and \
        wr.cfg.reach_after({dn.id}) >= {crn} and dn.id not in wr.cfg.reach_after({crn})
  run.ob(R1, wr.qualname, "if type(<existing helper>.type_obj) != type(%s.grist_type): "
         "self.delete_column(...)" % ctx.method_name, "when regrouping switches between the "
         "simple and the list form the old helper column is replaced, not reused", ok,
         fi=wr.fi)


# --------------------------------------------------------------------------------------- R2

def _class_set(w, fi, node):
  elts = node.elts if isinstance(node, ast.Tuple) else [node]
  out = set()
  for e in elts:
    ci = w.repo.resolve_class_name(fi.module, dotted(e))
    if ci is None:
      raise AnalysisError("%s: cannot resolve class %s" % (fi.qualname, text(e)))
    out.add(ci.qualname)
  return out


def _coltype_bindings(w):
  """{column class qualname: usertypes class name} from `usertypes.X.ColType = Y` in column.py."""
  mod = w.repo.module("column")
  out = {}
  for s in mod.tree.body:
    if isinstance(s, ast.Assign) and len(s.targets) == 1 and \
        isinstance(s.targets[0], ast.Attribute) and s.targets[0].attr == "ColType":
      d = dotted(s.targets[0].value)
      ci = w.repo.resolve_class_name(mod, dotted(s.value))
      if d and d.startswith("usertypes.") and ci is not None:
        out.setdefault(ci.qualname, set()).add(d.split(".")[1])
  if len(out) < 5:
    raise AnalysisError("column.py: usertypes.X.ColType bindings not found")
  return out


def _sole_return_value(w, fi):
  """Value expression (locals inlined) of a function with exactly one way of returning."""
  fn = w.fn_of(fi)
  cases = [c for c in H.return_cases(fn.node)]
  if len(cases) != 1 or cases[0].value is None:
    return None
  return H.inline(H.Flow(fn), cases[0].value)


def _typename(w, ut_class):
  ci = w.repo.cls("usertypes." + ut_class)
  for c in w.repo.mro(ci):
    m = c.methods.get("typename")
    if m is None:
      continue
    vals = _sole_return_value(w, m)
    if vals is not None and isinstance(vals, ast.Constant):
      return vals.value
    if vals is not None and text(vals) == "cls.__name__":
      return ut_class
    raise AnalysisError("usertypes.%s.typename: unrecognised body" % c.name)
  raise AnalysisError("usertypes.%s has no typename" % ut_class)


def _type_defaults(w):
  node = w.repo.module("usertypes").assigns.get("_type_defaults")
  if not isinstance(node, ast.Dict):
    raise AnalysisError("usertypes._type_defaults vanished")
  out = {}
  for k, v in zip(node.keys, node.values):
    if isinstance(k, ast.Constant) and isinstance(v, ast.Constant):
      out[k.value] = v.value
  return out


def _type_strings(w):
  node = w.repo.module("usertypes").assigns.get("_type_defaults")
  if not isinstance(node, ast.Dict):
    raise AnalysisError("usertypes._type_defaults vanished")
  return [k.value for k in node.keys if isinstance(k, ast.Constant)]


def _usertype_of_string(w, k):
  ci = w.repo.classes.get("usertypes." + k)
  if ci is not None:
    return ci
  for c in w.repo.module("usertypes").classes.values():
    m = c.methods.get("typename")
    if m is not None:
      v = _sole_return_value(w, m)
      if v is not None and isinstance(v, ast.Constant) and v.value == k:
        return c
  return None


# type strings whose flattening is known to be missing (genuine defect, reported; see r2_listlike)
PENDING_DEFECT_TYPES = ()   # the Attachments defect was repaired in /repo (fix: b4af27e)


def r2_listlike(run, w):
  ctx = _ctx_of(w)
  R2 = run.rule("C12-R2", "list-like classes agree between flag and expansion; "
                "summary_groupby_col_type flattens exactly their type names; empty-list "
                "sentinels are the flattened types' defaults", floor=5)
  rb = w.fn("table.Table._rebuild_model")
  wr = ctx.writer
  def isinst_sets(fnode, fi):
    out = []
    for c in ast.walk(fnode):
      if isinstance(c, ast.Call) and dotted(c.func) == "isinstance" and len(c.args) == 2:
        try:
          cs = _class_set(w, fi, c.args[1])
        except AnalysisError:
          continue
        if cs and all(w.typer.is_column(q) for q in cs):
          out.append((c, cs))
    return out
  flag_sets = [(c, cs) for (c, cs) in isinst_sets(rb.node, rb.fi)]
  exp_sets = isinst_sets(ctx.list_def, wr.fi)
  if len(flag_sets) != 1 or not exp_sets:
    raise AnalysisError("list-like isinstance tests not found in _rebuild_model / helper formula")
  S0 = flag_sets[0][1]
  S1 = max((cs for (c, cs) in exp_sets), key=len)
  run.ob(R2, wr.qualname, "isinstance(<column>, (%s))" % ", ".join(sorted(S0)),
         "the classes that make a summary non-simple are exactly the classes whose cells the "
         "list helper expands", S0 == S1 and len(S0) >= 2, witness="%s vs %s" % (sorted(S0),
                                                                                  sorted(S1)),
         fi=wr.fi)
  for (c, cs) in exp_sets:
    run.ob(R2, wr.qualname, short(c), "every class test of the list helper is about list-like "
           "classes", cs <= S0, fi=wr.fi, node=c, nontrivial=False)
  # type names of those classes
  bind = _coltype_bindings(w)
  tnames = {}
  for q in sorted(S0):
    uts = bind.get(q)
    if not uts:
      raise AnalysisError("no usertypes binding for %s" % q)
    for ut in uts:
      tnames.setdefault(_typename(w, ut), set()).add(q)
  nonlist = set()
  for q, uts in bind.items():
    if q not in S0:
      for ut in uts:
        nonlist.add(_typename(w, ut))
  sg = w.fn("summary.summary_groupby_col_type")
  p = sg.fi.params()[0]
  flat = {}
  sgflow = H.Flow(sg)
  def passthrough_of_param(e):
    """p, or p.replace('A', 'B')... : the type string itself, possibly with prefixes rewritten"""
    while isinstance(e, ast.Call) and isinstance(e.func, ast.Attribute) and \
        e.func.attr == "replace":
      e = e.func.value
    return isinstance(e, ast.Name) and e.id == p
  for case in H.return_cases(sg.node):
    if case.value is None:
      continue
    v = H.inline(sgflow, case.value)
    if not (isinstance(v, ast.Constant) or passthrough_of_param(v)):
      raise AnalysisError("summary_groupby_col_type: cannot read the result %s" % short(v))
    for (t, pol) in case.atoms:
      if not (isinstance(t, ast.Compare) and len(t.ops) == 1 and
              isinstance(t.ops[0], (ast.Eq, ast.NotEq)) and
              any(text(x) == p for x in (t.left, t.comparators[0])) and
              any(isinstance(x, ast.Constant) for x in (t.left, t.comparators[0]))):
        raise AnalysisError("summary_groupby_col_type: cannot read the test %s" % short(t))
    eqs = []
    for (t, pol) in case.atoms:
      if isinstance(t, ast.Compare) and len(t.ops) == 1 and \
          isinstance(t.ops[0], (ast.Eq, ast.NotEq)):
        pair = [t.left, t.comparators[0]]
        consts = [x.value for x in pair if isinstance(x, ast.Constant)]
        if len(consts) == 1 and any(text(x) == p for x in pair) and \
            isinstance(t.ops[0], ast.Eq) == bool(pol):
          eqs.append(consts[0])
    if len(eqs) == 1 and isinstance(v, ast.Constant):
      flat[eqs[0]] = v.value
    for c in ast.walk(v):
      if isinstance(c, ast.Call) and isinstance(c.func, ast.Attribute) and \
          c.func.attr == "replace" and text(c.func.value) == p and len(c.args) == 2 and \
          all(isinstance(a, ast.Constant) and isinstance(a.value, str) for a in c.args):
        a, b = c.args[0].value, c.args[1].value
        if a.endswith(":") and b.endswith(":"):
          flat[a[:-1]] = b[:-1]
  # metadata type strings whose column class is list-like: the keys of usertypes._type_defaults
  # (one per type string) resolved to their usertypes class and, through the MRO, to the column
  # class bound by `usertypes.X.ColType = Y`
  by_ut = {}
  for q, uts in bind.items():
    for ut in uts:
      by_ut[ut] = q
  listlike_strings = {}
  for k in _type_strings(w):
    ut = _usertype_of_string(w, k)
    if ut is None:
      raise AnalysisError("usertypes: no class for type string %r" % k)
    colcls = None
    for c in w.repo.mro(ut):
      if c.name in by_ut:
        colcls = by_ut[c.name]
        break
    if colcls in S0:
      listlike_strings[k] = colcls
  if not set(tnames) <= set(listlike_strings):
    raise AnalysisError("type names %s of the list-like classes are not type strings"
                        % sorted(tnames))
  for k in sorted(listlike_strings):
    if k in PENDING_DEFECT_TYPES:
      # PENDING-DEFECT: summary_groupby_col_type does not flatten 'Attachments' (a ReferenceList
      # type, column class ReferenceListColumn): a summary grouped by an Attachments column
      # keeps the list type for its group-by column and ends up with no rows at all. Confirmed
      # with /tmp/triage/C/attach_groupby.py; obligation left out until the repair lands.
      run.note("PENDING-DEFECT C12-R2: summary_groupby_col_type does not flatten %r although "
               "its column class %s is list-like (summary by such a column has no rows)"
               % (k, listlike_strings[k]))
      continue
    run.ob(R2, sg.qualname, "flattens %r" % k, "a group-by column of this list-like source type "
           "gets the element type in the summary table (its cells hold single elements)",
           k in flat and flat[k].split(":")[0] in nonlist, witness="flattened: %r" % (sorted(flat.items()),),
           fi=sg.fi)
  run.ob(R2, sg.qualname, "flattened: %s" % ", ".join("%s->%s" % kv for kv in sorted(flat.items())),
         "nothing but list-like source types is rewritten", set(flat) <= set(listlike_strings),
         fi=sg.fi)
  # sentinels
  defaults = _type_defaults(w)
  sent = _sentinels(w, ctx, S0)
  ok = set(sent) == S0
  wit = []
  for q, val in sorted(sent.items()):
    for tn, qs in tnames.items():
      if q in qs:
        want = defaults.get(flat.get(tn), "<none>")
        if not (want == val and type(want) is type(val)):
          ok = False
          wit.append("%s: %r, default of %s is %r" % (q, val, flat.get(tn), want))
  run.ob(R2, wr.qualname, "empty list -> %s" % ", ".join("%s: %r" % (q.split(".")[-1], v)
                                                       for q, v in sorted(sent.items())),
         "an empty list cell is grouped under the default value of the flattened column type",
         ok, witness="; ".join(wit) or None, fi=wr.fi)
  # detach_summary_section: outside the statement; note only
  dt = w.fn("summary.SummaryActions.detach_summary_section")
  for e in ast.walk(dt.node):
    if isinstance(e, ast.IfExp) and isinstance(e.body, ast.Constant) and \
        isinstance(e.body.value, str) and "match_empty=" in e.body.value:
      consts = [c.value for c in ast.walk(e.test) if isinstance(c, ast.Constant) and
                isinstance(c.value, str)]
      for c in consts:
        exact = [t for t in tnames if c == t or c == t + ":"]
        loose = [t for t in tnames if c.lower().rstrip(":") == t.lower()]
        if not exact and loose:
          run.note("summary.detach_summary_section tests the source type against %r, which no "
                   "type name matches (%s is spelled differently); outside C12's statement, not "
                   "an obligation" % (c, loose[0]))


def _sentinels(w, ctx, S0):
  """{class qualname: constant} from the replacement of an empty list cell:
  `if not v: v = {x} if isinstance(col, A) else {y}` in any of its spellings."""
  out = {}
  fi = ctx.writer.fi
  ld = ctx.list_def
  def classes_of(t):
    if isinstance(t, ast.Call) and dotted(t.func) == "isinstance" and len(t.args) == 2:
      try:
        cs = _class_set(w, fi, t.args[1])
      except AnalysisError:
        return None
      if cs and cs <= S0:
        return cs
    return None
  for s in walk_no_nested(ld):
    if not (isinstance(s, ast.Assign) and len(s.targets) == 1 and
            isinstance(s.targets[0], ast.Name)):
      continue
    var = s.targets[0].id
    atoms = H.guard_atoms(ld, s)
    if not any(isinstance(t, ast.Name) and t.id == var and pol is False for (t, pol) in atoms):
      continue          # not the replacement of an empty value
    cases = []
    H._split_ifexp(s.value, atoms, s, cases)
    for case in cases:
      v = case.value
      if not (isinstance(v, (ast.Set, ast.List, ast.Tuple)) and len(v.elts) == 1 and
              isinstance(v.elts[0], ast.Constant)):
        raise AnalysisError("helper formula: sentinel assignment not a one-constant collection")
      val = v.elts[0].value
      yes, no = set(), set()
      for (t, pol) in case.atoms:
        cs = classes_of(t)
        if cs is None:
          if isinstance(t, ast.Call) and dotted(t.func) == "isinstance" and \
              text(t.args[0]) != var and pol is False:
            # `not isinstance(col, (list-like classes))` cannot hold here; ignore other tests
            pass
          continue
        if pol:
          yes = cs if not yes else (yes & cs)
        else:
          no |= cs
      # the enclosing `isinstance(col, (A, B))` (all list-like classes) narrows nothing
      target = (yes or set(S0)) - no
      if target == set(S0) and len(S0) > 1:
        raise AnalysisError("helper formula: unrecognised sentinel test for %s" % short(v))
      for q in target:
        if q in out and out[q] != val:
          raise AnalysisError("helper formula: two sentinels for %s" % q)
        out[q] = val
  if not out:
    raise AnalysisError("helper formula: empty-list sentinel branch not found")
  return out


# --------------------------------------------------------------------------------------- R3

def _is_triggered_test(t, table_expr_text):
  """`not <engine>.is_triggered_by_table_action(<table id>)` inside a conjunction."""
  parts = t.values if isinstance(t, ast.BoolOp) and isinstance(t.op, ast.And) else [t]
  for p in parts:
    if isinstance(p, ast.UnaryOp) and isinstance(p.op, ast.Not) and \
        isinstance(p.operand, ast.Call) and \
        endswith(dotted(p.operand.func), "is_triggered_by_table_action") and \
        [text(a) for a in p.operand.args] == [table_expr_text]:
      return True
  return False


def _conj_has(t, pred):
  parts = t.values if isinstance(t, ast.BoolOp) and isinstance(t.op, ast.And) else [t]
  return any(pred(p) for p in parts)


def r3_row_creation(run, w):
  ctx = _ctx_of(w)
  R3 = run.rule("C12-R3", "summary rows are created only after a look-up with the same key found "
                "nothing; list cells de-duplicated; one key component per group-by column; "
                "creation guarded by is_triggered_by_table_action", floor=7)
  wr = ctx.writer
  # simple branch: delegates to lookupOrAddDerived with one keyword per group-by column
  from ..index import FuncInfo
  from ..fn import Fn
  sd = ctx.simple_def
  sfn = Fn(w, FuncInfo(wr.fi.module, wr.fi.cls, sd, wr.qualname + "." + sd.name, wr.fi))
  sflow = H.Flow(sfn)
  scases = [c for c in H.return_cases(sd)]
  v = H.inline(sflow, scases[0].value) if len(scases) == 1 and scases[0].value is not None \
      else None
  ok = isinstance(v, ast.Call) and not scases[0].atoms and \
      text(v.func) == ctx.p_sum + ".lookupOrAddDerived" and \
      not v.args and len(v.keywords) == 1 and v.keywords[0].arg is None
  if not ok or not isinstance(v.keywords[0].value, ast.DictComp):
    raise AnalysisError("simple summary helper: cannot read what it returns: %s"
                        % (short(v) if v is not None else "several returns"))
  if ok:
    d = v.keywords[0].value
    rec = sd.args.args[0].arg
    ok = isinstance(d, ast.DictComp) and len(d.generators) == 1 and \
        not d.generators[0].ifs and text(d.generators[0].iter) == ctx.p_groupby and \
        text(d.key) == text(d.generators[0].target) and \
        text(d.value) == "getattr(%s, %s)" % (rec, text(d.key))
  run.ob(R3, wr.qualname, "%s.lookupOrAddDerived(**{c: getattr(rec, c) for c in %s})"
         % (ctx.p_sum, ctx.p_groupby), "the simple helper asks for the summary row keyed by "
         "this record's value in every group-by column", ok, fi=wr.fi, node=ctx.simple_def)
  la = w.fn("table.Table.lookupOrAddDerived")
  kw = la.node.args.kwarg.arg if la.node.args.kwarg else None
  cfg = la.cfg
  look = [(n, c) for (n, c, nm) in la.calls() if nm == "self.lookup_one_record"]
  adds = [(n, c) for (n, c, nm) in la.calls() if endswith(nm, "user_actions.AddRecord")]
  if not look or not adds or kw is None:
    raise AnalysisError("lookupOrAddDerived: look-up or AddRecord not found")
  rec_var = [s.targets[0].id for s in walk_no_nested(la.node) if isinstance(s, ast.Assign) and
             s.value is look[0][1] and isinstance(s.targets[0], ast.Name)]
  if len(look) != 1 or len(adds) != 1:
    raise AnalysisError("lookupOrAddDerived: expected one look-up and one AddRecord")
  ok = len(look) == 1 and len(adds) == 1 and \
      not look[0][1].args and [text(k.value) for k in look[0][1].keywords
                               if k.arg is None] == [kw] and \
      len(adds[0][1].args) == 3 and text(adds[0][1].args[0]) == "self.table_id" and \
      text(adds[0][1].args[2]) == kw and cfg.dominated_by(adds[0][0].id, {look[0][0].id})
  run.ob(R3, la.qualname, "record = lookup_one_record(**%s) ... AddRecord(self.table_id, None, %s)"
         % (kw, kw), "the row is added with exactly the key that was just looked up", ok,
         fi=la.fi)
  laflow = H.Flow(la)
  def la_key(e):
    e2 = H.inline(laflow, e)
    if isinstance(e2, ast.Attribute) and e2.attr == "_row_id" and \
        text(e2.value) == text(H.inline(laflow, look[0][1])):
      return "has-row"
    if isinstance(e2, ast.Call) and endswith(la.name(e2.func) or dotted(e2.func),
                                             "is_triggered_by_table_action") and \
        [text(a) for a in e2.args] == ["self.table_id"]:
      return "triggered-by-own-table"
    return None
  actual = H.Conditions(la, laflow, la_key).of_stmt(_stmt_of(la.node, adds[0][1]))
  expected = H.f_and(H.f_not(H.f_atom("has-row")), H.f_not(H.f_atom("triggered-by-own-table")))
  ok = H.f_equivalent(actual, expected)
  run.ob(R3, la.qualname, "if not record._row_id and not is_triggered_by_table_action("
         "self.table_id): AddRecord", "a row is added only when the key has no row yet, and not "
         "while the triggering doc action is itself on this table (its rows are not all indexed "
         "yet, a second row for the same key would result)", ok,
         witness="added when " + H.f_show(actual), fi=la.fi)
  # list branch
  ld = ctx.list_def
  rec = ld.args.args[0].arg
  loops = [s for s in ld.body if isinstance(s, ast.For) and text(s.iter) == ctx.p_groupby]
  if len(loops) != 1:
    raise AnalysisError("list helper: loop over the group-by columns not found")
  lp = loops[0]
  from ..index import FuncInfo
  from ..fn import Fn
  lfn = Fn(w, FuncInfo(wr.fi.module, wr.fi.cls, ld, wr.qualname + "." + ld.name, wr.fi))
  lflow = H.Flow(lfn)
  lcfg = lfn.cfg
  def iter_of(s):
    return H.resolve(lflow, s.iter) if isinstance(s.iter, ast.Name) else s.iter
  prods = [s for s in walk_no_nested(ld) if isinstance(s, ast.For) and
           any(isinstance(c, ast.Call) and endswith(dotted(c.func), "product")
               for c in ast.walk(iter_of(s)))]
  if len(prods) != 1:
    raise AnalysisError("list helper: loop over the product of the components not found")
  pl = prods[0]
  pc = [c for c in ast.walk(iter_of(pl)) if isinstance(c, ast.Call) and
        endswith(dotted(c.func), "product")][0]
  if not (len(pc.args) == 1 and isinstance(pc.args[0], ast.Starred) and
          isinstance(pc.args[0].value, ast.Name) and not pc.keywords):
    raise AnalysisError("list helper: cannot read the product %s" % short(pc))
  LV = pc.args[0].value.id
  # the components: appended to that list in the loop over the group-by columns
  apps = [(n, c) for (n, c, nm) in lfn.calls() if nm == LV + ".append" and len(c.args) == 1 and
          any(x is c for x in ast.walk(lp))]
  if len(apps) != 1:
    raise AnalysisError("list helper: expected one %s.append in the loop over the group-by "
                        "columns, found %d" % (LV, len(apps)))
  (apn, apc) = apps[0]
  lid = [n.id for n in lcfg.nodes if n.stmt is lp][0]
  # every iteration that goes on to the next column has appended a component (leaving the whole
  # helper early is not skipping a column)
  ok = lid not in lcfg.reach_after({lid}, removed={apn.id})
  run.ob(R3, wr.qualname, "for group_col in %s: ...; %s.append(<values of that column>)"
         % (ctx.p_groupby, LV), "every group-by column contributes one component (no iteration "
         "goes on to the next column without the append)", ok, fi=wr.fi, node=lp)
  # de-duplication of list cells: what is appended is a set (of the cell's elements, or the
  # sentinel) or the one-element list of a plain cell
  dd = True
  wit = None
  for r in lflow.roots(apc.args[0], apn.id):
    good = (r.kind == "call" and dotted(r.node.func) in ("set", "frozenset") and not r.path) or \
        (r.kind == "lit" and isinstance(r.node, ast.Set) and not r.path) or \
        (r.kind == "lit" and isinstance(r.node, ast.List) and len(r.node.elts) == 1 and
         not r.path) or (r.kind == "comp" and isinstance(r.node, ast.SetComp) and not r.path)
    if not good:
      dd = False
      wit = "a component may be %r" % (r,)
  val = text(apc.args[0])
  run.ob(R3, wr.qualname, "%s = set(%s)" % (val, val), "the elements of a list cell are "
         "de-duplicated before keys are formed (a repeated element would otherwise request the "
         "same new row twice)", dd, witness=wit, fi=wr.fi, node=lp)
  run.ob(R3, wr.qualname, "for values_tuple in product(*%s)" % LV, "one key per combination of "
         "the components of all group-by columns", True, fi=wr.fi, node=pl)
  # look-up before add, per key
  ok = False
  add_guard_ok = False
  if pl is not None:
    from ..index import FuncInfo
    from ..fn import Fn
    lfn = Fn(w, FuncInfo(wr.fi.module, wr.fi.cls, ld, wr.qualname + "." + ld.name, wr.fi))
    lflow = H.Flow(lfn)
    tv = text(pl.target)
    linl = lambda e: text(H.inline(lflow, e))
    DICT_T = "dict(zip(%s, %s))" % (ctx.p_groupby, tv)
    RID_T = "%s.lookup_one_record(**%s)._row_id" % (ctx.p_sum, DICT_T)
    def is_rid(e):
      return linl(e) == RID_T
    def lkey(e):
      if is_rid(e):
        return "has-row"
      e2 = H.inline(lflow, e)
      if isinstance(e2, ast.Call) and endswith(dotted(e2.func), "is_triggered_by_table_action") \
          and [text(a) for a in e2.args] == [ctx.p_sum + ".table_id"]:
        return "triggered-by-summary-table"
      return None
    lcond = H.Conditions(lfn, lflow, lkey)
    has_row = H.f_atom("has-row")
    in_pl = lambda c: any(x is c for b in pl.body for x in ast.walk(b))
    appends = [c for c in calls_in(pl.body) if isinstance(c.func, ast.Attribute) and
               c.func.attr == "append" and len(c.args) == 1]
    found = [c for c in appends if is_rid(c.args[0]) and
             H.f_equivalent(lcond.of_stmt(_stmt_of(ld, c), scope=pl), has_row)]
    queued_ids = [c for c in appends if isinstance(c.args[0], ast.Constant) and
                  c.args[0].value is None and
                  H.f_equivalent(lcond.of_stmt(_stmt_of(ld, c), scope=pl), H.f_not(has_row))]
    queued_vals = [s_ for s_ in walk_no_nested(pl) if isinstance(s_, ast.For) and s_ is not pl and
                   linl(s_.iter) == DICT_T + ".items()" and
                   H.f_equivalent(lcond.of_stmt(s_, scope=pl), H.f_not(has_row))]
    # the three mechanisms must be there at all before their conditions are judged
    any_found = [c for c in appends if is_rid(c.args[0])]
    any_ids = [c for c in appends if isinstance(c.args[0], ast.Constant) and
               c.args[0].value is None]
    any_vals = [s_ for s_ in walk_no_nested(pl) if isinstance(s_, ast.For) and s_ is not pl and
                linl(s_.iter) == DICT_T + ".items()"]
    if not (any_found and any_ids and any_vals):
      raise AnalysisError("list helper: cannot find how found rows are kept / missing keys are "
                          "queued in the loop over the key combinations")
    ok = len(found) == 1 and len(queued_vals) == 1 and len(queued_ids) == 1
    if ok:
      NEW = text(queued_ids[0].func.value)
      qv = queued_vals[0]
      store = [c for c in ast.walk(qv) if isinstance(c, ast.Call) and
               isinstance(c.func, ast.Attribute) and c.func.attr == "append" and
               isinstance(c.func.value, ast.Call) and
               isinstance(c.func.value.func, ast.Attribute) and
               c.func.value.func.attr == "setdefault"]
      TOADD = text(store[0].func.value.func.value) if store else None
      def akey(e):
        if isinstance(e, ast.Name) and e.id == NEW:
          return "queued"
        return lkey(e)
      acond = H.Conditions(lfn, lflow, akey)
      for c in [x for x in ast.walk(ld) if isinstance(x, ast.Call) and
                endswith(dotted(x.func), "user_actions.BulkAddRecord")]:
        actual = acond.of_stmt(_stmt_of(ld, c))
        want = H.f_and(H.f_atom("queued"), H.f_not(H.f_atom("triggered-by-summary-table")))
        add_guard_ok = [text(a) for a in c.args] == [ctx.p_sum + ".table_id", NEW, TOADD] \
            and H.f_equivalent(actual, want)
  run.ob(R3, wr.qualname, "row_id = %s.lookup_one_record(**values_dict)._row_id; if row_id: keep "
         "else: queue" % ctx.p_sum, "each key is looked up first; only keys without a row are "
         "queued for creation, each with its full key", ok, fi=wr.fi, node=pl or ld)
  run.ob(R3, wr.qualname, "if new_row_ids and not is_triggered_by_table_action(%s.table_id): "
         "BulkAddRecord(%s.table_id, new_row_ids, values_to_add)" % (ctx.p_sum, ctx.p_sum),
         "the queued keys are added to the summary table, except while the triggering doc "
         "action is on the summary table itself", add_guard_ok, fi=wr.fi, node=pl or ld)


# --------------------------------------------------------------------------------------- R4

def r4_auto_remove(run, w):
  ctx = _ctx_of(w)
  R4 = run.rule("C12-R4", "every group-returning path of getSummarySourceGroup records "
                "setAutoRemove(rec, not group); setAutoRemove/apply_auto_removes remove exactly "
                "the marked records", floor=5)
  rd = w.fn("table.Table.getSummarySourceGroup")
  cfg = rd.cfg
  p_rec = rd.fi.params()[1]
  rets = [n for n in cfg.nodes if n.kind == "return" and n.stmt.value is not None and
          not (isinstance(n.stmt.value, ast.Constant) and n.stmt.value.value is None)]
  if not rets:
    raise AnalysisError("getSummarySourceGroup: no group-returning path")
  for n in rets:
    v = n.stmt.value
    marks = set()
    rflow4 = H.Flow(rd)
    tv = text(H.inline(rflow4, v, n.id))
    for (m, c, nm) in H.calls(rd):
      if endswith(nm, "setAutoRemove") and len(c.args) == 2 and text(c.args[0]) == p_rec:
        a1 = H.inline(rflow4, c.args[1], m.id)
        if isinstance(a1, ast.UnaryOp) and isinstance(a1.op, ast.Not) and \
            text(a1.operand) == tv:
          marks.add(m.id)
    ok = bool(marks) and cfg.dominated_by(n.id, marks)
    wit = None
    if not ok:
      wit = cfg.describe_path(cfg.path(cfg.entry.id, {n.id}, removed=marks))
    run.ob(R4, rd.qualname, "setAutoRemove(%s, not %s) -> return %s" % (p_rec, text(v), text(v)),
           "whenever a group is computed the summary row is marked for removal exactly when "
           "that group is empty (and un-marked when it is not)", ok, witness=wit, fi=rd.fi,
           node=n.stmt)
  # and the group returned is the look-up result
  sa = w.fn("docmodel.DocModel.setAutoRemove")
  ps = sa.fi.params()
  saflow = H.Flow(sa)
  flag = H.f_atom("flag")
  sacond = H.Conditions(sa, saflow, lambda e: "flag" if text(H.inline(saflow, e)) == ps[2]
                        else None)
  marks = [(c, sa.name(c.func.value)) for c in calls_in(sa.node)
           if isinstance(c.func, ast.Attribute) and c.func.attr in ("add", "discard", "remove")
           and [text(x) for x in c.args] == [ps[1]]]
  a = [(c, r) for (c, r) in marks if c.func.attr == "add"]
  d = [(c, r) for (c, r) in marks if c.func.attr == "discard"]
  ok = len(a) == 1 and len(d) == 1 and a[0][1] == d[0][1] and a[0][1] is not None and \
      a[0][1].startswith("self.") and a[0][1].count(".") == 1 and not sa.node.body == []
  SET = a[0][1].split(".")[1] if ok else None
  if ok:
    ok = H.f_equivalent(sacond.of_stmt(_stmt_of(sa.node, a[0][0])), flag) and \
        H.f_equivalent(sacond.of_stmt(_stmt_of(sa.node, d[0][0])), H.f_not(flag)) and \
        not H.Flow(sa).du.defs.get(ps[2])
  run.ob(R4, sa.qualname, "if %s: self.%s.add(%s) else: self.%s.discard(%s)"
         % (ps[2], SET, ps[1], SET, ps[1]), "a true flag marks the record, a false flag un-marks "
         "it (a group that is non-empty again keeps its row)", ok, fi=sa.fi)
  ap = w.fn("docmodel.DocModel.apply_auto_removes")
  flow = H.Flow(ap)
  cfg = ap.cfg
  rem = [(n, c) for (n, c, nm) in ap.calls() if nm == "self.remove" and len(c.args) == 1]
  clr = {n.id for (n, c, nm) in ap.calls() if nm == "self.%s.clear" % SET} | \
      {n.id for n in ap.cfg.nodes if n.kind == "stmt" and isinstance(n.stmt, ast.Assign) and
       H.is_self_attr(n.stmt.targets[0], SET) and
       text(n.stmt.value) in ("set()", "set([])")}
  if not rem:
    raise AnalysisError("apply_auto_removes: self.remove(...) not found")
  (rn, rc) = rem[0]
  rs = flow.roots(rc.args[0], rn.id)
  snap = {r.nid for r in rs}
  ok = bool(rs) and all(r.kind == "param" and r.node == "self" and r.path == (("attr", SET),)
                        for r in rs) and cfg.dominated_by(cfg.exit.id, {rn.id})
  run.ob(R4, ap.qualname, "self.remove(sorted(self.%s, ...))" % SET,
         "every marked record -- and nothing else -- is removed, on every path", ok, fi=ap.fi,
         node=rc)
  ok = bool(clr) and all(cfg.dominated_by(c, snap) for c in clr) and \
      cfg.dominated_by(rn.id, clr) and not (cfg.reach_after({rn.id}) & clr)
  run.ob(R4, ap.qualname, "snapshot -> self.%s.clear() -> self.remove(snapshot)" % SET,
         "the set is emptied after the snapshot and before the removals run, so marks made by "
         "the removals' own recalculation survive for the next round", ok, fi=ap.fi)
  cases = [c for c in H.return_cases(ap.node)]
  ok = len(cases) == 1 and cases[0].value is not None
  if ok:
    retn = [m.id for m in cfg.nodes if m.stmt is cases[0].stmt][0]
    snapname = (rc.args[0].id,) if isinstance(rc.args[0], ast.Name) else ()
    v = H.inline(flow, cases[0].value, retn, stop=snapname)
    inner = v.args[0] if isinstance(v, ast.Call) and dotted(v.func) == "bool" and \
        len(v.args) == 1 else v
    if isinstance(inner, ast.Compare) and len(inner.ops) == 1 and \
        isinstance(inner.ops[0], (ast.Gt, ast.NotEq)) and \
        isinstance(inner.comparators[0], ast.Constant) and inner.comparators[0].value == 0:
      inner = inner.left
    if isinstance(inner, ast.Call) and dotted(inner.func) == "len" and len(inner.args) == 1:
      inner = inner.args[0]
    # ... of the very list of records that was removed
    if snapname:
      ok = isinstance(inner, ast.Name) and inner.id == snapname[0] and \
          flow.reaching(inner.id, retn)[0] == flow.reaching(inner.id, rn.id)[0]
    else:
      raise AnalysisError("apply_auto_removes: cannot relate the result %s to the records "
                          "removed by %s" % (short(cases[0].value), short(rc)))
  run.ob(R4, ap.qualname, "return bool(<removed records>)", "the caller learns whether anything "
         "was removed (and hence whether another recalculation round is needed)", ok, fi=ap.fi)


# --------------------------------------------------------------------------------------- R5

def r5_fixpoint(run, w):
  R5 = run.rule("C12-R5", "after every recalculation at the end of apply_user_actions the "
                "auto-remove set is examined again before the bundle is closed", floor=3)
  fn = w.fn("engine.Engine.apply_user_actions")
  cfg = fn.cfg
  recalc = [n for (n, c, nm) in fn.calls() if nm == "self._bring_all_up_to_date"]
  removes = {n.id for (n, c, nm) in fn.calls() if endswith(nm, "docmodel.apply_auto_removes")}
  flush = {n.id for (n, c, nm) in fn.calls() if endswith(nm, "out_actions.flush_calc_changes")}
  # only what lies on a path to the normal return closes the bundle: the failure handler may flush
  # and recalculate too, but it ends in `raise` and nothing of that is sent anywhere
  def completes(nid):
    return cfg.exit.id in cfg.reach({nid})
  recalc = [n for n in recalc if completes(n.id)]
  flush = {f for f in flush if completes(f)}
  if not recalc or not removes or not flush:
    raise AnalysisError("apply_user_actions: recalculation / auto-removal / flush not found")
  for n in recalc:
    ok = cfg.postdominated_by(n.id, removes)
    wit = None
    if not ok:
      wit = cfg.describe_path(cfg.path(n.id, {cfg.exit.id}, removed=removes, after=True))
    run.ob(R5, fn.qualname, "%s -> apply_auto_removes()" % short(n.stmt.test if n.kind in
                                                                ("while", "if") else n.stmt),
           "a recalculation may empty further groups; every path from it to the end of the "
           "bundle passes another auto-removal round", ok, witness=wit, fi=fn.fi, node=n.stmt)
  # removal rounds and recalculation alternate: some recalculation lies on a cycle through an
  # auto-removal round (whatever the loop idiom)
  ok = any(r.id in cfg.reach_after({m}) and m in cfg.reach_after({r.id})
           for m in removes for r in recalc)
  run.ob(R5, fn.qualname, "while apply_auto_removes(): _bring_all_up_to_date()",
         "rounds of removal and recalculation alternate until a round removes nothing", ok,
         fi=fn.fi)
  ok = all(cfg.dominated_by(f, removes) for f in flush) and \
      not (cfg.reach_after(flush) & (removes | {n.id for n in recalc}))
  run.ob(R5, fn.qualname, "apply_auto_removes() ... -> flush_calc_changes()",
         "the bundle's calc changes are flushed only after the removal rounds are over", ok,
         fi=fn.fi)


T = "sandbox/grist/table.py"
S = "sandbox/grist/summary.py"
DM = "sandbox/grist/docmodel.py"
EN = "sandbox/grist/engine.py"
VARIANTS = [
  ("group-ordered-like-view", "sandbox/grist/table.py", """      result = self._summary_source_table.lookup_records(**{
        self._summary_helper_col_id: lookup_value
      })""", """      result = self._summary_source_table.lookup_records(order_by=None, **{
        self._summary_helper_col_id: lookup_value
      })""", "C12-R1"),

  ("attachments-not-flattened", "sandbox/grist/summary.py", """  elif source_type == 'Attachments':
    # Attachments is a list of references to _grist_Attachments.
    return 'Ref:_grist_Attachments'
""", "", "C12-R2"),

  # known realistic breakage (seeded)
  ("auto-removes-single-round", EN,
   "    while self.docmodel.apply_auto_removes():\n      self._bring_all_up_to_date()",
   "    if self.docmodel.apply_auto_removes():\n      self._bring_all_up_to_date()", "C12-R5"),
  ("auto-removes-before-recalc", EN,
   """    self._bring_all_up_to_date()

    # Apply any triggered record removals. If anything does get removed, recalculate what's needed.
    while self.docmodel.apply_auto_removes():
      self._bring_all_up_to_date()
""",
   """    # Apply any triggered record removals, then recalculate what's needed.
    self.docmodel.apply_auto_removes()
    self._bring_all_up_to_date()
""", "C12-R5"),
  ("reader-always-contains", T,
   "      lookup_value = rec if self._summary_simple else functions.CONTAINS(rec)",
   "      lookup_value = functions.CONTAINS(rec)", "C12-R1"),
  ("reader-flag-inverted", T,
   "      lookup_value = rec if self._summary_simple else functions.CONTAINS(rec)",
   "      lookup_value = functions.CONTAINS(rec) if self._summary_simple else rec", "C12-R1"),
  ("writer-both-reference", T,
   "      @usertypes.formulaType(usertypes.ReferenceList(summary_table.table_id))",
   "      @usertypes.formulaType(usertypes.Reference(summary_table.table_id))", "C12-R1"),
  ("helper-col-not-replaced", T,
   """      if type(self.get_column(col_id).type_obj) != type(_updateSummary.grist_type):
        self.delete_column(self.get_column(col_id))""",
   """      pass""", "C12-R1"),
  ("flag-ignores-reflist", T,
   """          self._summary_source_table.all_columns.get(group_col),
          (column.ChoiceListColumn, column.ReferenceListColumn)""",
   """          self._summary_source_table.all_columns.get(group_col),
          (column.ChoiceListColumn,)""", "C12-R2"),
  ("flatten-misses-reflist", S,
   "    return source_type.replace('RefList:', 'Ref:')",
   "    return source_type", "C12-R2"),
  ("reflist-sentinel-none", T,
   "                lookup_value = {0}",
   "                lookup_value = {None}", "C12-R2"),
  ("add-without-trigger-guard", T,
   "    if not record._row_id and not self._engine.is_triggered_by_table_action(self.table_id):",
   "    if not record._row_id:", "C12-R3"),
  ("list-cells-not-deduplicated", T,
   """              # We only care about the unique choices
              lookup_value = set(lookup_value)""",
   """              # Keep the order of the choices
              lookup_value = list(lookup_value)""", "C12-R3"),
  ("bulk-add-without-trigger-guard", T,
   "        if new_row_ids and not self._engine.is_triggered_by_table_action(summary_table.table_id):",
   "        if new_row_ids:", "C12-R3"),
  ("existing-rows-requeued", T,
   """          if row_id:
            result.append(row_id)
          else:
            for col, value in values_dict.items():
              values_to_add.setdefault(col, []).append(value)
            new_row_ids.append(None)""",
   """          if row_id:
            result.append(row_id)
          for col, value in values_dict.items():
            values_to_add.setdefault(col, []).append(value)
          new_row_ids.append(None)""", "C12-R3"),
  ("non-list-col-skipped", T,
   """          else:
            lookup_value = [lookup_value]
          lookup_values.append(lookup_value)""",
   """            lookup_values.append(lookup_value)""", "C12-R3"),
  ("auto-remove-only-when-empty", T,
   "      self._engine.docmodel.setAutoRemove(rec, not result)\n      return result",
   "      if not result:\n        self._engine.docmodel.setAutoRemove(rec, True)\n      return result",
   "C12-R4"),
  ("auto-remove-never-unmarks", DM,
   """    if yes_or_no:
      self._auto_remove_set.add(record)
    else:
      self._auto_remove_set.discard(record)""",
   """    if yes_or_no:
      self._auto_remove_set.add(record)""", "C12-R4"),
  ("auto-remove-result-from-cleared-set", DM,
   "    return bool(gone_records)", "    return bool(self._auto_remove_set)", "C12-R4"),
  ("add-guard-or-instead-of-and", T,
   "    if not record._row_id and not self._engine.is_triggered_by_table_action(self.table_id):",
   "    if not record._row_id or not self._engine.is_triggered_by_table_action(self.table_id):",
   "C12-R3"),
  ("auto-remove-clear-after-remove", DM,
   """    self._auto_remove_set.clear()
    # setAutoRemove is called by formulas, notably summary tables, and shouldn't be blocked by ACL.
    with self._engine.user_actions.indirect_actions():
      self.remove(gone_records)
""",
   """    # setAutoRemove is called by formulas, notably summary tables, and shouldn't be blocked by ACL.
    with self._engine.user_actions.indirect_actions():
      self.remove(gone_records)
    self._auto_remove_set.clear()
""", "C12-R4"),
]
