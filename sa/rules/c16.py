"""C16 Renames never change formula results -- structural clauses.

Deviation from DESIGN.md 4/C16: R1 additionally decides the *agreement* between the rename map
handed to _prepare_formula_renames and the loop that emits the Rename* doc actions (same update
pairs, same guard, same old/new expressions, no pair added after the map was built). This is the
clause an independently seeded bug broke (summary tables renamed together with their source never
reached the formula renamer)."""
import ast
from ..fn import World
from ..index import AnalysisError, dotted
from ..astutil import text, short, endswith, calls_in, walk_no_nested
from ..dataflow import DefUse
from .. import events as E
from . import _h_D as H

EXPLANATION = (
  "Decides (R1) that RenameColumn/RenameTable doc actions are handed to the gateway only by the "
  "BulkUpdateRecord overrides of the metadata table owning the renamed field, that each of them "
  "calls _prepare_formula_renames before the first emission, on a rename map built from the same "
  "update pairs, guard and old/new expressions as the emission loop with no pair added once the "
  "map exists, and merges the returned formula texts into the _grist_Tables_column update; that "
  "the RenameColumn/RenameTable user actions only forward to that metadata path; (R2) that the "
  "name registries of codebuilder agree with the APIs they describe (lookup methods of UserTable, "
  "PREVIOUS/NEXT/RANK, record-returning find.* methods, inference tips in use); (R3) that each "
  "patch spans [pos, pos+len(old name)) of the formula of the column the name was found in, with "
  "producer and consumer agreeing on the tuple layout; (R4) that positions survive the code "
  "generator: the stored formula text enters the textbuilder chain as received, and every "
  "unindent patch make_formula_body adds for a multi-line string covers exactly the indent "
  "inserted after one newline (start = string start + newline position + 1, end = start + "
  "len(indent), replacement ''), with positions taken from the text that is patched; (R5) that the list of names "
  "a rename consults is parsed from the builder of the latest make_module, afresh on every call "
  "or remembered only until make_module runs again (unconditionally forgotten there). Locals are "
  "compared by the value they stand for, guards are read from the CFG, rename maps may be built "
  "by a comprehension or an accumulating loop. Not decided: astroid's inference coverage "
  "of formula shapes; equivalence of the `if renames:` guard and the per-record emission guard; "
  "the offset arithmetic inside textbuilder (C37).")

RENAME_ACTIONS = ("RenameColumn", "RenameTable")

# Constructions of rename actions that are not emissions of a user-level rename (reason each).
NON_EMITTING_FUNCS = {
  "docactions.DocActions.RenameColumn": "the recorded inverse of the doc action (C01-R2)",
  "docactions.DocActions.RenameTable": "the recorded inverse of the doc action (C01-R2)",
}
NON_EMITTING_MODULES = {
  "migrations": "offline TableDataSet migrations; they do not run inside the engine",
}
FORMULA_TABLE = "_grist_Tables_column"
# helpers the rules anchor on by name (never inlined into their callers)
KEEP = ("_prepare_formula_renames", "_do_doc_action", "_do_extra_doc_action", "_bulk_action_iter",
        "_indent", "_do_make_formula_body", "_multiline_string_nodes", "_adjust_one_column_update",
        "_pick_col_name", "_dedent", "_normalize_newlines")


def check(run, repo, tier):
  w = World(repo)
  r1_funnel(run, w)
  r2_registries(run, w)
  r3_positions(run, w)
  r4_unindent(run, w)
  r5_current_names(run, w)


# ------------------------------------------------------------------------------------------ R1

def r1_funnel(run, w):
  R1 = run.rule("C16-R1", "rename doc actions are emitted only by functions that first prepare "
                "formula renames on a map agreeing with the emission loop, and merge the result "
                "into the column metadata update", floor=14)
  sites = {}
  for (fn, call) in H.rename_constructions(w, RENAME_ACTIONS):
    q = fn.qualname
    if q in NON_EMITTING_FUNCS or fn.fi.module.name in NON_EMITTING_MODULES:
      continue
    fv = H.View(fn)
    run = H.Guarded(run, fv, keep=KEEP)
    gw = [c for (n, c, nm) in fn.calls() if E.is_gateway_call(c, nm, fn) and
          fv.arg(c, 0) is not None and any(x is call for x in ast.walk(fv.res(fv.arg(c, 0))))]
    run.ob(R1, q, short(call), "a rename action constructed outside DocActions is handed straight "
           "to the gateway (no side channel)", bool(gw), fi=fn.fi, node=call)
    if gw:
      sites[q] = H.xfn(w, q, keep=KEEP)
  schema = H.python_schema(w)
  overrides = {f.qualname: key for key, f in H.override_methods(w).items()}
  for q in sorted(sites):
    fn = sites[q]
    site = H.RenameSite(fn, RENAME_ACTIONS)
    _r1_site(run, w, R1, fn, site, schema, overrides)
  # the user actions named after the renames only forward to the metadata path
  for name, field in (("RenameColumn", "colId"), ("RenameTable", "tableId")):
    fn = w.fn("useractions.UserActions." + name)
    uv = H.View(fn)
    run = H.Guarded(run, uv, keep=KEEP)
    ps = fn.fi.params()
    direct = [c for (n, c, nm) in fn.calls() if E.is_gateway_call(c, nm, fn)]
    fwd = [c for (n, c, nm) in fn.calls() if endswith(nm, "self._docmodel.update") and
           any(k.arg == field and uv.t(k.value) == ps[-1] for k in c.keywords)]
    run.ob(R1, fn.qualname, "self._docmodel.update([rec], %s=%s)" % (field, ps[-1]),
           "the %s user action emits nothing itself and forwards the new name as an update of "
           "the metadata field %s (so it takes the funnel)" % (name, field),
           not direct and len(fwd) == 1, fi=fn.fi)


def _r1_site(run, w, R1, fn, site, schema, overrides):
  H.require(w, "useractions.UserActions._do_doc_action")
  run = H.Guarded(run, site.view, keep=KEEP)
  cfg = fn.cfg
  q = fn.qualname
  emit_nodes = {e[0] for e in site.emits}
  prep_nodes = {p[0] for p in site.preps}
  run.ob(R1, q, "self._prepare_formula_renames(<rename map>)",
         "a function that emits %s prepares the formula renames"
         % "/".join(sorted({e[3] for e in site.emits})), bool(prep_nodes), fi=fn.fi,
         nontrivial=False)
  if not prep_nodes:
    return
  # the names are resolved against the *old* schema: prepare strictly before any emission
  late = cfg.reach_after(emit_nodes) & prep_nodes
  early = all(e in cfg.reach_after(prep_nodes) for e in emit_nodes)
  wit = None
  if late:
    wit = cfg.describe_path(cfg.path(sorted(emit_nodes)[0], late, after=True))
  run.ob(R1, q, "_prepare_formula_renames precedes _do_doc_action(Rename*)",
         "formula names are collected while the generated code still carries the old names: the "
         "preparation is never reachable from an emission and every emission is reachable from it",
         not late and early, witness=wit, fi=fn.fi)
  if late or not early:
    return
  if len(site.preps) != 1:
    raise AnalysisError("%s: %d calls of _prepare_formula_renames (one expected)"
                        % (q, len(site.preps)))
  prep_node, prep_call = site.preps[0]

  for emit in site.emits:
    _map_agreement(run, w, R1, fn, site, emit, prep_call, schema, overrides)
  _merge(run, w, R1, fn, site, prep_node, prep_call, overrides, schema)


def _guard_field(facts):
  """'colId' from the emission guard has_diff_value(<values>, F, <old>) known to be true."""
  for (a, pol) in facts:
    if not pol:
      continue
    try:
      e = ast.parse(a, mode="eval").body
    except SyntaxError:
      continue
    if isinstance(e, ast.Call) and dotted(e.func) == "has_diff_value" and len(e.args) == 3 and \
        isinstance(e.args[1], ast.Constant):
      return e.args[1].value
  return None


def _map_agreement(run, w, R1, fn, site, emit, prep_call, schema, overrides):
  q = fn.qualname
  cfg = fn.cfg
  v = site.view
  nid, gw, ctor, aname = emit
  loop, it_text, root, tm, guard, ctor = site.emission_shape(emit)
  field = _guard_field(guard)
  if field is None:
    raise AnalysisError("%s: emission of %s is not guarded by has_diff_value(values, <field>, "
                        "<old>)" % (q, aname))
  # the emitting function is the BulkUpdateRecord override of the metadata table owning `field`
  key = overrides.get(q)
  owner_ok = key is not None and key[0] == "BulkUpdateRecord" and \
      any(cid == field for (cid, _, _) in (schema.get(key[1]) or []))
  run.ob(R1, q, "@override_action('BulkUpdateRecord', %r) owns field %r"
         % (key[1] if key else None, field),
         "every update of the metadata field that names the entity passes through the function "
         "that renames it", owner_ok, fi=fn.fi)
  # old/new expressions of the emitted action, by field name
  fields = w.action_types().get(aname)
  b = H.bind_args(ctor, fields) if fields else None
  if b is None or set(b) != set(fields):
    raise AnalysisError("%s: %s constructed with an unexpected arity" % (q, aname))
  args = [v.t(b[f], tm) for f in fields]
  if aname == "RenameTable":
    want_key, want_val = args[0], args[1]
  else:
    want_key, want_val = "(%s, %s)" % (args[0], args[1]), args[2]
  name, coll, rekey = site.resolve_map(site.prep_arg(prep_call))
  if (aname == "RenameTable") != (rekey == "table"):
    run.ob(R1, q, "rename map keys for %s" % aname, "table renames are keyed (table_id, None), "
           "column renames (table_id, col_id), as _prepare_formula_renames looks them up",
           False, fi=fn.fi, node=prep_call)
    return
  writers = site.map_writer_nodes(name, coll)
  # no update pair that can carry a rename is added once the map has been (partly) written
  du = site.du
  pair_writers = {n for n, names in v._gens().items() if root in names} | \
      du.muts.get(root, set())
  after = cfg.reach_after(writers) & pair_writers
  harmful, unknown = [], []
  for n in sorted(after):
    verdict = site.classify_pairs_write(n, root, field)
    if verdict == H.HARMFUL:
      harmful.append(n)
    elif verdict == H.UNKNOWN:
      unknown.append(n)
  wit = None
  if harmful:
    wit = "%s written at %s, reachable after the map %s was written: %s" % (
      root, cfg.describe_path([harmful[0]]), name,
      short(cfg.nodes[harmful[0]].stmt))
  run.ob(R1, q, "no (record, {%r: ...}) pair joins %s after the rename map is written"
         % (field, root),
         "every pair emitted as %s is known when the rename map is built (pairs appended later, "
         "e.g. summary tables renamed with their source, would be missing from it)" % aname,
         not harmful, witness=wit, fi=fn.fi,
         node=cfg.nodes[harmful[0]].stmt if harmful else loop)
  if harmful:
    return
  if unknown:
    raise AnalysisError("%s: cannot classify a write to %s after the rename map is built: %s"
                        % (q, root, short(cfg.nodes[unknown[0]].stmt)))
  c_it, c_root = site.canonical_iter(coll.iter, at=v.point_of(coll.node))
  c_guard = sorted(coll.conds)
  e_guard = sorted(guard)
  run.ob(R1, q, "rename map iterates %s" % c_it, "the map is built from the very collection of "
         "update pairs the emission loop iterates (%s)" % it_text, c_it == it_text, fi=fn.fi,
         node=coll.node)
  same_idiom = any(a.startswith("has_diff_value(") and pol for (a, pol) in c_guard) and \
      any(a.startswith("has_diff_value(") and pol for (a, pol) in e_guard)
  if c_guard != e_guard and not same_idiom:
    raise AnalysisError("%s: filter of the rename map (%s) and emission guard (%s) use different "
                        "idioms; cannot compare" % (q, c_guard, e_guard))
  run.ob(R1, q, "rename map filter == emission guard",
         "a pair is in the map exactly when it is emitted as %s: filter %s vs guard %s"
         % (aname, [a for a, _ in c_guard], [a for a, _ in e_guard]), c_guard == e_guard,
         fi=fn.fi, node=coll.node)
  run.ob(R1, q, "rename map key/value == %s old/new arguments" % aname,
         "the map sends the emitted old name to the emitted new name: %s -> %s vs %s -> %s"
         % (coll.key, coll.value, want_key, want_val),
         coll.key == want_key and coll.value == want_val, fi=fn.fi, node=coll.node)
  if name is not None:
    # the map is complete, and not altered, once it is used
    uses = {site.preps[0][0]}
    run.ob(R1, q, "%s is not written after it is built" % name, "the map the formulas are "
           "renamed with is not altered between its construction and its uses",
           not (cfg.reach_after(uses) & writers) and
           all(cfg.dominated_by(u, writers) for u in uses), fi=fn.fi)


def _merge(run, w, R1, fn, site, prep_node, prep_call, overrides, schema):
  """The returned {col_rec: new formula} is merged into the pairs handed to
  doBulkUpdateFromPairs('_grist_Tables_column', ...)."""
  q = fn.qualname
  cfg = fn.cfg
  v = site.view
  st = cfg.nodes[prep_node].stmt
  if not (isinstance(st, ast.Assign) and len(st.targets) == 1 and
          isinstance(st.targets[0], ast.Name) and st.value is prep_call):
    raise AnalysisError("%s: result of _prepare_formula_renames is not bound to a local" % q)
  res = st.targets[0].id
  merged_into, loop_node = None, None
  for n in cfg.nodes:
    if n.kind != "for":
      continue
    it = n.stmt.iter
    if isinstance(it, ast.Call) and dotted(it.func) in ("sorted", "list") and len(it.args) == 1:
      it = it.args[0]
    it = v.alias_root(it, at=n.id)
    if not (H._is_items_view(it) and it.func.value.id == res):
      continue
    tg = n.stmt.target
    if not (isinstance(tg, ast.Tuple) and len(tg.elts) == 2 and
            all(isinstance(e, ast.Name) for e in tg.elts)):
      continue
    tm = v.loop_map(n.stmt)
    for b in n.stmt.body:
      for c in calls_in(b):
        f = c.func
        froot = v.alias_root(f.value) if isinstance(f, ast.Attribute) else None
        if isinstance(f, ast.Attribute) and f.attr == "setdefault" and \
            isinstance(froot, ast.Name) and len(c.args) == 2 and H._empty_dict(c.args[1]) and \
            v.t(c.args[0], tm) == "_v0_0" and v.runs_for_all(n.stmt, c):
          # the chained write stores the new formula under the constant 'formula'
          for x in ast.walk(b):
            if isinstance(x, ast.Call) and isinstance(x.func, ast.Attribute) and \
                x.func.value is c and x.func.attr == "setdefault" and len(x.args) == 2 and \
                isinstance(x.args[0], ast.Constant) and x.args[0].value == "formula" and \
                v.t(x.args[1], tm) == "_v0_1":
              merged_into, loop_node = froot.id, n.id
            if isinstance(b, ast.Assign) and isinstance(x, ast.Subscript) and x.value is c and \
                isinstance(x.slice, ast.Constant) and x.slice.value == "formula" and \
                v.t(b.value, tm) == "_v0_1":
              merged_into, loop_node = froot.id, n.id
  run.ob(R1, q, "for col_rec, new_formula in %s.items(): <pairs>[col_rec]['formula'] = "
         "new_formula" % res, "the rewritten formula texts are merged into a set of column "
         "updates", merged_into is not None and
         cfg.postdominated_by(prep_node, {loop_node}), fi=fn.fi, node=st)
  if merged_into is None:
    return
  has_formula = any(cid == "formula" for (cid, _, _) in (schema.get(FORMULA_TABLE) or []))
  bulk = set()
  key = overrides.get(q)
  ps = fn.fi.params()
  for (n, c, nm) in fn.calls():
    if not endswith(nm, "self.doBulkUpdateFromPairs"):
      continue
    a_table, a_pairs = v.arg(c, 0), v.arg(c, 1)
    if a_table is None or a_pairs is None:
      continue
    b = {"table_id": a_table, "record_values_pairs": a_pairs}
    t = v.res(b["table_id"])
    table_ok = (isinstance(t, ast.Constant) and t.value == FORMULA_TABLE) or \
        (isinstance(t, ast.Name) and len(ps) > 1 and t.id == ps[1] and key is not None and
         key[1] == FORMULA_TABLE and v.reaching(t.id, n.id) == frozenset([v.ENTRY]))
    try:
      _, root = site.canonical_iter(b["record_values_pairs"])
    except AnalysisError:
      continue
    if table_ok and root == merged_into:
      bulk.add(n.id)
  ok = bool(bulk) and has_formula and cfg.postdominated_by(loop_node, bulk) and \
      not (cfg.reach_after(bulk) & {loop_node})
  run.ob(R1, q, "self.doBulkUpdateFromPairs(%r, <pairs incl. formulas>)" % FORMULA_TABLE,
         "the merged formula updates are written to the column metadata on every normal path "
         "after the merge", ok, fi=fn.fi)


# ------------------------------------------------------------------------------------------ R2

def _tuple_const(mod, name):
  ce = H.ConstEval(mod)
  v = ce.name(name)
  if not (isinstance(v, tuple) and all(isinstance(x, str) for x in v)):
    raise AnalysisError("%s.%s is not a tuple of names" % (mod.name, name))
  return v


def _hidden_from_users(w):
  """Method names engine.skipped_completions hides from formula authors (read from the regex)."""
  mod = w.repo.module("engine")
  rx = H.ConstEval(mod).name("skipped_completions")
  if not isinstance(rx, H.Regex):
    raise AnalysisError("engine.skipped_completions is not a compiled regex")
  names = set()
  tree = H.parse_regex(rx)
  def lit(seq):
    s = ""
    for (op, av) in seq:
      if op is H.sre_c.LITERAL:
        s += chr(av)
      else:
        return None
    return s
  def walk(seq, prefix):
    # re._parser factors common prefixes out of alternations: rebuild the alternatives
    for i, (op, av) in enumerate(seq):
      if op is H.sre_c.SUBPATTERN:
        walk(av[3], "")
      elif op is H.sre_c.BRANCH:
        pre = lit(seq[:i]) or ""
        for alt in av[1]:
          s = lit(alt)
          if s is not None:
            names.add(pre + s)
  walk(tree, "")
  return names


def _record_returning(w, _cache={}):
  """Names of the RecordSet methods that return a record, read from the code (whatever they are
  called): every return value is self._table.Record(...), a call of another such method on self,
  or a local holding one of those."""
  if id(w) in _cache:
    return _cache[id(w)][0]
  rs = w.repo.cls("records.RecordSet")
  good = set()
  changed = True
  while changed:
    changed = False
    for name, fi in rs.methods.items():
      if name in good:
        continue
      v = H.View(w.fn_of(fi))
      rets = [r for r in walk_no_nested(fi.node) if isinstance(r, ast.Return)]
      if not rets or any(r.value is None for r in rets):
        continue
      ok = True
      for r in rets:
        for (e, at, facts) in v.alternatives(r.value):
          e = v.binding(e, at=at) if isinstance(e, ast.Name) else e
          t = text(e.func) if isinstance(e, ast.Call) else ""
          if not (t == "self._table.Record" or
                  (t.startswith("self.") and t.count(".") == 1 and t.split(".")[1] in good)):
            ok = False
      if ok:
        good.add(name)
        changed = True
  _cache[id(w)] = (good, w)
  return good


def r2_registries(run, w):
  R2 = run.rule("C16-R2", "the name registries that drive formula renaming agree with the APIs "
                "they describe", floor=12)
  cb = w.repo.module("codebuilder")
  # (a, b) lookup methods of UserTable
  reg = _tuple_const(cb, "_lookup_method_names")
  ut = w.repo.cls("table.UserTable")
  hidden = _hidden_from_users(w)
  kw_methods = {}
  for name, fi in ut.methods.items():
    if fi.node.args.kwarg is not None and not name.startswith("_") and \
        not any(dotted(d) == "property" for d in fi.decorators()):
      kw_methods[name] = fi
  for name in reg:
    fi = ut.methods.get(name)
    run.ob(R2, "codebuilder._lookup_method_names", name, "a registered lookup method is a method "
           "of UserTable taking column names as keywords", fi is not None and name in kw_methods,
           fi=fi, nontrivial=True)
  for name, fi in sorted(kw_methods.items()):
    ok = name in reg or name in hidden
    run.ob(R2, "table.UserTable." + name, "registered in codebuilder._lookup_method_names",
           "every user-facing UserTable method taking column names as keywords is known to the "
           "renamer (hidden helpers are those named in engine.skipped_completions)", ok, fi=fi)
  # (c) PREVIOUS/NEXT/RANK
  reg = _tuple_const(cb, "_prev_next_functions")
  pn = w.repo.module("functions.prevnext")
  pgn = w.fn("codebuilder.parse_grist_names")
  handled = None
  for n in walk_no_nested(pgn.node):
    if isinstance(n, ast.Compare) and len(n.ops) == 1 and isinstance(n.ops[0], ast.In) and \
        isinstance(n.left, ast.Attribute) and n.left.attr == "arg" and \
        isinstance(n.comparators[0], (ast.Tuple, ast.List, ast.Set)):
      handled = tuple(e.value for e in n.comparators[0].elts if isinstance(e, ast.Constant))
  if not handled:
    raise AnalysisError("codebuilder.parse_grist_names: the keyword set handled for "
                        "PREVIOUS/NEXT/RANK was not found")
  def sorted_lookup_kwargs(fi):
    """keyword names a prevnext function forwards to _sorted_lookup from its own parameters"""
    out = set()
    sl = pn.functions.get("_sorted_lookup")
    positional = set(sl.params()) if sl is not None else set()
    for c in calls_in(fi.node.body):
      if dotted(c.func) == "_sorted_lookup":
        for k in c.keywords:
          if k.arg is not None and k.arg not in positional:
            out.add(k.arg)
    return out
  for name in reg:
    fi = pn.functions.get(name)
    ok = fi is not None and bool(fi.params()) and \
        set(handled) <= {a.arg for a in fi.node.args.kwonlyargs + fi.node.args.args} and \
        sorted_lookup_kwargs(fi) <= set(handled)
    run.ob(R2, "codebuilder._prev_next_functions", name, "a registered function exists in "
           "functions/prevnext.py, takes the record first, and the column-naming keywords it "
           "forwards (%s) are the ones parse_grist_names renames" % ", ".join(handled), ok,
           fi=fi)
  for name, fi in sorted(pn.functions.items()):
    if name.startswith("_") or not sorted_lookup_kwargs(fi):
      continue
    run.ob(R2, "functions.prevnext." + name, "registered in codebuilder._prev_next_functions",
           "every public function whose keywords name columns of the record's table is known to "
           "the renamer", name in reg, fi=fi)
  # (d) find.* methods returning a record
  reg = _tuple_const(cb, "_lookup_find_methods")
  fo = w.repo.cls("records.FindOps")
  returning = set()
  for name, fi in fo.methods.items():
    if name.startswith("_"):
      continue
    kinds = set()
    fview = H.View(w.fn_of(fi))
    for s in walk_no_nested(fi.node):
      if isinstance(s, ast.Return) and s.value is not None:
        v = fview.res(s.value)
        if isinstance(v, ast.Call) and fview.t(v.func).startswith("self._rset.") and \
            fview.t(v.func).split(".")[-1] in _record_returning(w):
          kinds.add("record")
        elif isinstance(v, ast.BinOp) and all(
            isinstance(x, (ast.BinOp, ast.Name, ast.Constant, ast.Call, ast.Attribute, ast.Add,
                           ast.Sub, ast.Load)) for x in ast.walk(v)) and \
            all(dotted(c.func) == "len" for c in calls_in(v)):
          kinds.add("int")
        else:
          kinds.add("?")
    if kinds == {"record"}:
      returning.add(name)
    elif kinds != {"int"}:
      raise AnalysisError("records.FindOps.%s: cannot tell whether it returns a record" % name)
  run.ob(R2, "codebuilder._lookup_find_methods", "= record-returning methods of records.FindOps",
         "attribute chains continue through exactly the find.* results that are records: "
         "registered %s, record-returning %s" % (sorted(reg), sorted(returning)),
         set(reg) == returning, fi=w.repo.func("codebuilder.parse_grist_names"))
  # (e) inference tips in use
  base = w.repo.cls("codebuilder.InferenceTip")
  concrete = set()
  for ci in w.repo.subclasses(base, strict=True):
    if _tip_is_concrete(w, ci):
      concrete.add(ci.name)
  used = None
  for n in walk_no_nested(pgn.node):
    if isinstance(n, ast.With):
      for it in n.items:
        c = it.context_expr
        if isinstance(c, ast.Call) and dotted(c.func) == "use_inferences":
          used = {dotted(a) for a in c.args}
  if used is None:
    raise AnalysisError("codebuilder.parse_grist_names: use_inferences(...) not found")
  for name in sorted(concrete | used):
    run.ob(R2, "codebuilder.parse_grist_names", "use_inferences(..., %s, ...)" % name,
           "every inference tip that yields table instances is active while names are collected "
           "(and everything activated is such a tip)", name in concrete and name in used,
           fi=pgn.fi)


def _tip_is_concrete(w, ci):
  """An InferenceTip subclass that can be registered and yields something: node_class resolves
  to a value, a reference_inference_class (if the hierarchy has one) is set, infer() is
  implemented."""
  def class_attr(name):
    for c in w.repo.mro(ci):
      for s in c.node.body:
        if isinstance(s, ast.Assign) and len(s.targets) == 1 and \
            isinstance(s.targets[0], ast.Name) and s.targets[0].id == name:
          return s.value
    return "absent"
  nc = class_attr("node_class")
  if nc == "absent" or (isinstance(nc, ast.Constant) and nc.value is None):
    return False
  ric = class_attr("reference_inference_class")
  if ric != "absent" and isinstance(ric, ast.Constant) and ric.value is None:
    return False
  inf = w.repo.find_method(ci, "infer")
  if inf is None:
    return False
  body = [s for s in inf.node.body if not (isinstance(s, ast.Expr) and
                                           isinstance(s.value, ast.Constant))]
  if len(body) == 1 and isinstance(body[0], ast.Raise):
    return False
  return True


# ------------------------------------------------------------------------------------------ R3

def _is_call_to(e, *names):
  return isinstance(e, ast.Call) and endswith(dotted(e.func), *names)


def r3_positions(run, w):
  R3 = run.rule("C16-R3", "each rename patch spans [pos, pos+len(old name)) of the formula the "
                "name was found in; producer and consumer agree on the tuple layout", floor=8)
  fn = H.xfn(w, H.role_anchors(w)["formula_renamer"].qualname, keep=KEEP)
  v = H.View(fn)
  run = H.Guarded(run, v, keep=KEEP)
  q = fn.qualname
  ps = fn.fi.params()
  ren = ps[1]
  loop = None
  for s in walk_no_nested(fn.node):
    if isinstance(s, ast.For) and isinstance(v.res(s.iter), ast.Call) and \
        endswith(dotted(v.x(s.iter).func), "gencode.grist_names"):
      loop = s
  if loop is None or not (isinstance(loop.target, ast.Tuple) and len(loop.target.elts) == 4 and
                          all(isinstance(e, ast.Name) for e in loop.target.elts)):
    raise AnalysisError("%s: loop over gencode.grist_names() with a 4-tuple target not found" % q)
  tm = v.loop_map(loop)
  t_info, t_pos, t_tab, t_col = "_v0_0", "_v0_1", "_v0_2", "_v0_3"
  in_loop = lambda node: any(y is node for b in loop.body for y in ast.walk(b))
  patches = [c for c in calls_in(loop.body) if _is_call_to(c, "textbuilder.make_patch",
                                                           "make_patch")]
  if len(patches) != 1:
    raise AnalysisError("%s: one make_patch(text, start, end, new) call expected" % q)
  pa = H.bind_args(patches[0], ("full_text", "start", "end", "new_text"))
  if pa is None or len(pa) != 4:
    raise AnalysisError("%s: make_patch(text, start, end, new) with four arguments expected" % q)
  new_t = v.t(pa["new_text"], tm)
  run.ob(R3, q, "%s.get((<table>, <column>))" % ren, "the rename is looked up under the "
         "(table, column) the name was resolved to, and the replacement text is the new name "
         "found for it", new_t in ("%s.get((%s, %s))" % (ren, t_tab, t_col),
                                   "%s[%s, %s]" % (ren, t_tab, t_col),
                                   "%s[(%s, %s)]" % (ren, t_tab, t_col)),
         witness="replacement: %s" % new_t, fi=fn.fi, node=patches[0])
  old = "%s or %s" % (t_col, t_tab)
  end_forms = {"%s + len(%s)" % (t_pos, old), "len(%s) + %s" % (old, t_pos)}
  run.ob(R3, q, short(patches[0]), "the patch starts at the reported position and is as long as "
         "the old name (col_id, or table_id for a table name)",
         v.t(pa["start"], tm) == t_pos and v.t(pa["end"], tm) in end_forms, fi=fn.fi,
         node=patches[0])
  # only names that are being renamed produce a patch
  facts = v.facts_at(patches[0], start=tm.head, mapping=tm)
  run.ob(R3, q, "if <new name>: <patch>", "a name that is not being renamed produces no patch",
         (new_t, True) in facts or H.canon_atom("%s is None" % new_t, False) in facts, fi=fn.fi,
         node=patches[0])
  # the text patched is the formula of the column the name was found in
  rec_t = None
  tv = v.x(pa["full_text"])
  ok = False
  if not (isinstance(tv, ast.Attribute) and isinstance(tv.value, ast.Call) and
          endswith(dotted(tv.value.func), "get_column_rec")):
    raise AnalysisError("%s: cannot tell which record's text is patched: %s" % (q, short(tv)))
  if isinstance(tv, ast.Attribute) and tv.attr == "formula":
    rd = tv.value
    if isinstance(rd, ast.Call) and endswith(dotted(rd.func), "get_column_rec"):
      rec_t = text(rd)
      ok = _args_are_unpacked(v, rd, patches[0], tm, t_info)
  run.ob(R3, q, "patched text = get_column_rec(*formula_info).formula",
         "positions are offsets into the formula of the column in which the name occurs", ok,
         fi=fn.fi, node=patches[0])
  # patches are grouped under that same record and applied to that record's formula
  grp = [c for c in calls_in(loop.body) if isinstance(c.func, ast.Attribute) and
         c.func.attr == "append" and len(c.args) == 1 and
         v.denotes(c.args[0], lambda e: e is patches[0])]
  mapvar = None
  ok = False
  if len(grp) == 1:
    sd = v.res(grp[0].func.value)
    if isinstance(sd, ast.Call) and isinstance(sd.func, ast.Attribute) and \
        sd.func.attr == "setdefault" and len(sd.args) == 2 and isinstance(sd.func.value, ast.Name):
      mapvar = sd.func.value.id
      ok = rec_t is not None and text(v.x(sd.args[0], at=v.point_of(grp[0]))) == rec_t and \
          isinstance(sd.args[1], ast.List) and not sd.args[1].elts
  run.ob(R3, q, "<patches>.setdefault(col_rec, []).append(patch)", "patches are collected under "
         "the record whose formula they index", ok, fi=fn.fi)
  # the result: {record: its own formula with its own patches applied}, for every record
  rets = [s for s in walk_no_nested(fn.node) if isinstance(s, ast.Return)]
  ok = False
  if len(rets) == 1 and mapvar is not None:
    rc = v.collection(rets[0].value)
    if rc is None:
      raise AnalysisError("%s: the returned mapping is not built by one pass over the collected "
                          "patches: %s" % (q, short(rets[0].value)))
    if rc is not None and rc.kind == "dict" and not rc.conds:
      it = v.alias_root(rc.iter, at=v.point_of(rc.node) if rc.loop is None else
                        v.loop_head(rc.loop))
      ok = H._is_items_view(it) and it.func.value.id == mapvar and rc.key == "_v0_0" and \
          rc.value == "textbuilder.Replacer(textbuilder.Text(_v0_0.formula), _v0_1).get_text()"
  run.ob(R3, q, "result[col_rec] = Replacer(Text(col_rec.formula), patches).get_text()",
         "the patches of a record are applied to that record's own formula text and returned "
         "under it", ok, fi=fn.fi)
  _producer(run, R3, w)


def _producer(run, R3, w):
  """Producer side: the function of codebuilder that reports (owner, start, table, column) for
  a name -- found by role (it returns a 4-tuple whose second component is `<patch>.start` of a
  mapped-back patch), whether it is the closure parse_grist_names.make_tuple, a module-level
  helper the closure delegates to, or a helper called directly."""
  pg = "codebuilder.parse_grist_names"
  cands = [fi for fi in w.repo.all_functions() if fi.qualname.startswith(pg + ".")]
  called = {dotted(c.func) for c in calls_in(w.repo.func(pg).node.body, into_lambda=True)}
  for fi in list(cands):
    called |= {dotted(c.func) for c in calls_in(fi.node.body)}
  mod = w.repo.module("codebuilder")
  cands += [mod.functions[n] for n in sorted(called - {None}) if n in mod.functions]
  found = []
  absorbed = set()
  for fi in cands:
    fn = H.xfn(w, fi.qualname, keep=KEEP)
    mv = H.View(fn)
    for s in walk_no_nested(fn.node):
      if isinstance(s, ast.Return) and s.value is not None:
        e, at = mv.resolve(s.value)
        if isinstance(e, ast.Tuple) and len(e.elts) == 4 and \
            isinstance(e.elts[1], ast.Attribute) and e.elts[1].attr == "start":
          found.append((fn, mv, e, at))
          absorbed |= set(getattr(fn.fi, "inlined", ()))
  found = [f for f in found if f[0].fi.qualname not in absorbed]
  if len(found) != 1:
    raise AnalysisError("codebuilder.parse_grist_names: %d functions report (owner, start, table, "
                        "column) tuples (one expected)" % len(found))
  mk, mv, e, at = found[0]
  run = H.Guarded(run, mv, keep=KEEP)
  params = set(mk.fi.params())
  is_param = lambda x: isinstance(mv.res(x, at=at), ast.Name) and \
      mv.res(x, at=at).id in params and \
      mv.reaching(mv.res(x, at=at).id, at) == frozenset([mv.ENTRY])
  t_tab, t_col = mv.t(e.elts[2], at=at), mv.t(e.elts[3], at=at)
  ok = is_param(e.elts[2]) and is_param(e.elts[3]) and t_tab != t_col and \
      _unpacked_from(mv, e.elts[1].value, at, "map_back_patch", 2) and \
      _unpacked_from(mv, e.elts[0], at, "map_back_patch", 1)
  run.ob(R3, mk.qualname, "return (in_value, in_patch.start, table_id, col_id)",
         "the producer reports (formula owner, start offset in the original formula, table, "
         "column) in the order the consumer unpacks", ok, fi=mk.fi)
  # the span handed in is as long as the name the consumer measures: col_id or table_id
  ok = False
  seen = []
  for a in [s for s in walk_no_nested(mk.node) if isinstance(s, ast.Assert)]:
    atom, pol = mv.atom(a.test)
    seen.append(atom)
    try:
      c = ast.parse(atom, mode="eval").body
    except SyntaxError:
      continue
    if not (pol and isinstance(c, ast.Compare) and len(c.ops) == 1 and
            isinstance(c.ops[0], ast.Eq)):
      continue
    for (l, r) in ((c.left, c.comparators[0]), (c.comparators[0], c.left)):
      if isinstance(l, ast.BinOp) and isinstance(l.op, ast.Sub) and \
          isinstance(l.left, ast.Name) and isinstance(l.right, ast.Name) and \
          {l.left.id, l.right.id} <= params and text(r) == "len(%s or %s)" % (t_col, t_tab):
        ok = True
  if not ok and not any("len(" in x for x in seen):
    raise AnalysisError("%s: no assertion relates the span to the length of the name"
                        % mk.qualname)
  run.ob(R3, mk.qualname, "name = col_id or table_id; assert end - start == len(name)",
         "producer and consumer measure the same old name", ok, fi=mk.fi)


def _args_are_unpacked(v, call, where, tm, src):
  """call's two arguments are the two components of the tuple `src` (placeholder text): unpacked
  into locals, indexed, or starred."""
  at = v.point_of(where)
  if len(call.args) == 1 and isinstance(call.args[0], ast.Starred) and not call.keywords:
    return text(H._Renamer(H._versioned(tm)).visit(call.args[0].value)) == src
  if len(call.args) != 2 or call.keywords:
    return False
  idx = [text(H._Renamer(H._versioned(tm)).visit(copy_(a))) for a in call.args]
  if idx == ["%s[0]" % src, "%s[1]" % src]:
    return True
  if all(isinstance(a, ast.Name) for a in call.args):
    d0 = v.reaching(call.args[0].id, at)
    d1 = v.reaching(call.args[1].id, at)
    if d0 == d1 and len(d0) == 1:
      s = v.cfg.nodes[next(iter(d0))].stmt
      return isinstance(s, ast.Assign) and len(s.targets) == 1 and \
          isinstance(s.targets[0], (ast.Tuple, ast.List)) and \
          [text(e) for e in s.targets[0].elts] == [a.id for a in call.args] and \
          v.t(s.value, tm) == src
  return False


def copy_(e):
  import copy
  return copy.deepcopy(e)


def _unpacked_from(v, name_expr, at, method, index):
  """name_expr is a local bound (possibly through one more local) by unpacking component
  `index` of the result of a `.method(...)` call."""
  if not isinstance(name_expr, ast.Name):
    return False
  defs = v.reaching(name_expr.id, at)
  if len(defs) != 1:
    return False
  s = v.cfg.nodes[next(iter(defs))].stmt
  if not (isinstance(s, ast.Assign) and len(s.targets) == 1 and
          isinstance(s.targets[0], (ast.Tuple, ast.List)) and len(s.targets[0].elts) > index and
          isinstance(s.targets[0].elts[index], ast.Name) and
          s.targets[0].elts[index].id == name_expr.id):
    return False
  src = v.res(s.value)
  return isinstance(src, ast.Call) and isinstance(src.func, ast.Attribute) and \
      src.func.attr == method


# ------------------------------------------------------------------------------------------ R4

def _flat_sum(e):
  """operands of a chain of additions"""
  if isinstance(e, ast.BinOp) and isinstance(e.op, ast.Add):
    return _flat_sum(e.left) + _flat_sum(e.right)
  return [e]


def r4_unindent(run, w):
  R4 = run.rule("C16-R4", "formula positions survive the code generator: the formula text enters "
                "the builder chain as received, and each unindent patch of a multi-line string "
                "removes exactly the indent inserted after one newline", floor=5)
  tb = w.repo.module("textbuilder")
  node = tb.assigns.get("Patch")
  fields = None
  if isinstance(node, ast.Call) and len(node.args) == 2 and isinstance(node.args[1], ast.Tuple):
    fields = [e.value for e in node.args[1].elts if isinstance(e, ast.Constant)]
  if fields != ["start", "end", "old_text", "new_text"]:
    raise AnalysisError("textbuilder.Patch fields changed: %s" % (fields,))
  fn = H.xfn(w, "codebuilder.make_formula_body", keep=KEEP)
  v = H.View(fn)
  run = H.Guarded(run, v, keep=KEEP)
  q = fn.qualname
  if "indent" not in fn.fi.params():
    raise AnalysisError("%s: parameter `indent` not found" % q)
  pats = [(n, c) for (n, c, nm) in fn.calls() if endswith(nm, "textbuilder.Patch", "Patch")]
  un = []
  for (n, c) in pats:
    b = H.bind_args(c, fields)
    if b is None or len(b) != 4:
      raise AnalysisError("%s: Patch(start, end, old, new) with four arguments expected: %s"
                          % (q, short(c)))
    if v.enclosing_loops(n.stmt):
      un.append((n, c, b))
  if not un:
    raise AnalysisError("%s: no patch is built per multi-line string" % q)
  # the string nodes and their text
  for (n, c, b) in un:
    loops = v.enclosing_loops(n.stmt)
    outer = loops[0]
    it_call = v.x(outer.iter)
    cb_mod = w.repo.module("codebuilder")
    gen = cb_mod.functions.get(dotted(it_call.func)) if isinstance(it_call, ast.Call) else None
    ok_loop = isinstance(outer, ast.For) and isinstance(outer.target, ast.Name) and \
        gen is not None and any(isinstance(y, (ast.Yield, ast.YieldFrom))
                                for y in walk_no_nested(gen.node))
    if not ok_loop:
      raise AnalysisError("%s: unindent patches are not built in a loop over "
                          "the generator of multi-line string nodes" % q)
    nodev = outer.target.id
    atok = v.t(v.x(outer.iter).args[0]) if v.x(outer.iter).args else None
    old_t, new_t = v.t(b["old_text"]), v.res(b["new_text"])
    run.ob(R4, q, "Patch(.., .., %s, %s)" % (short(b["old_text"], 30), short(b["new_text"], 30)),
           "an unindent patch replaces the inserted indent, and only it, by nothing (a patch "
           "spanning the whole string would lose the positions of names inside it)",
           old_t == "indent" and isinstance(new_t, ast.Constant) and new_t.value == "",
           fi=fn.fi, node=c)
    st, en = v.x(b["start"]), v.x(b["end"])
    run.ob(R4, q, "end = start + len(indent)", "the patch is exactly as long as the indent",
           text(en) in ("%s + len(indent)" % text(st), "len(indent) + %s" % text(st)),
           witness="start %s, end %s" % (text(st), text(en)), fi=fn.fi, node=c)
    # start = <start of the string node> + <position of a newline followed by indent> + 1
    ops = _flat_sum(st)
    ones = [o for o in ops if isinstance(o, ast.Constant) and o.value == 1]
    names = [o for o in ops if isinstance(o, ast.Name)]
    rest = [o for o in ops if o not in ones and o not in names]
    at = v.point_of(c)
    node_start = [o for o in names if _range_start_of(v, o, at, nodev)]
    newline_pos = [o for o in names if _newline_positions(v, o, at, nodev)]
    ok = len(ones) == 1 and not rest and len(names) == 2 and len(node_start) == 1 and \
        len(newline_pos) == 1 and node_start[0] is not newline_pos[0]
    run.ob(R4, q, "start = <string start> + <position of '\\n' + indent> + 1",
           "the patch begins right after the newline, where the indent was inserted",
           ok, witness="start = %s" % text(st), fi=fn.fi, node=c)
  # positions refer to the text that is patched
  reps = [c for (n, c, nm) in fn.calls() if endswith(nm, "textbuilder.Replacer", "Replacer")]
  lists = set()
  for (n, c, b) in un:
    app = [x for x in calls_in(n.stmt) if isinstance(x.func, ast.Attribute) and
           x.func.attr == "append" and isinstance(x.func.value, ast.Name)]
    if len(app) == 1:
      lists.add(app[0].func.value.id)
  # a list of patches may be handed on: other.extend(lst) / other += lst / other = lst
  grew = True
  while grew:
    grew = False
    for (n2, c2, nm2) in fn.calls():
      if isinstance(c2.func, ast.Attribute) and c2.func.attr == "extend" and \
          isinstance(c2.func.value, ast.Name) and len(c2.args) == 1 and \
          isinstance(v.alias_root(c2.args[0]), ast.Name) and \
          v.alias_root(c2.args[0]).id in lists and c2.func.value.id not in lists:
        lists.add(c2.func.value.id)
        grew = True
    for n2 in fn.cfg.nodes:
      s2 = n2.stmt
      if n2.kind == "stmt" and isinstance(s2, ast.AugAssign) and isinstance(s2.op, ast.Add) and \
          isinstance(s2.target, ast.Name) and isinstance(v.alias_root(s2.value), ast.Name) and \
          v.alias_root(s2.value).id in lists and s2.target.id not in lists:
        lists.add(s2.target.id)
        grew = True
  ok = False
  for c in reps:
    b = H.bind_args(c, ("in_builder", "patches"))
    if b and isinstance(v.res(b.get("patches")), ast.Name) and v.res(b["patches"]).id in lists:
      src = v.t(b["in_builder"])
      parsed = [x for x in calls_in(fn.node.body)
                if _is_call_to(x, "asttokens.ASTText", "ASTText") and x.args]
      ok = len(parsed) == 1 and v.t(parsed[0].args[0]) == "%s.get_text()" % src
  run.ob(R4, q, "Replacer(<builder>, <unindent patches>) with positions from "
         "ASTText(<builder>.get_text())", "the positions of the patches are positions in the "
         "text they are applied to", ok, fi=fn.fi)
  # the formula enters the builder chain exactly as it is stored
  fb = w.fn_of(_formula_wrapper(w))
  bv = H.View(fb)
  fps = fb.fi.params()
  formula, assoc = fps[0], fps[2]
  n_txt = 0
  for (n, c, nm) in fb.calls():
    if not endswith(nm, "textbuilder.Text"):
      continue
    b = H.bind_args(c, ("text", "value"))
    if not b or "value" not in b or bv.t(b["value"]) != assoc:
      continue
    te = b["text"]
    if not any(isinstance(y, ast.Name) and y.id == formula for y in ast.walk(bv.x(te))):
      continue
    n_txt += 1
    ok = isinstance(te, ast.Name) and te.id == formula
    wit = None
    if ok:
      for d in bv.reaching(formula, n.id):
        if d == bv.ENTRY:
          continue
        val = bv._plain_value(formula, d)
        if not (isinstance(val, ast.Call) and isinstance(val.func, ast.Attribute) and
                val.func.attr == "decode" and text(val.func.value) == formula):
          ok = False
          wit = "the text was rewritten before: %s" % short(fb.cfg.nodes[d].stmt)
    run.ob(R4, fb.qualname, "textbuilder.Text(%s, %s)" % (formula, assoc),
           "the text that later patches are mapped back to is the formula as stored (any change "
           "made before this point, e.g. newline normalisation on the plain string, shifts every "
           "position reported for a rename)", ok, witness=wit, fi=fb.fi, node=c)
  if n_txt != 1:
    raise AnalysisError("%s: %d builders carry the formula with its associated value "
                        "(one expected)" % (fb.qualname, n_txt))


def _formula_wrapper(w):
  """The function that wraps the stored formula into the first builder: it calls
  textbuilder.Text(<its parameter>, <its parameter>) (today: _do_make_formula_body)."""
  mod = w.repo.module("codebuilder")
  cands = []
  for fi in mod.functions.values():
    ps = set(fi.params())
    for c in calls_in(fi.node.body):
      if endswith(dotted(c.func), "textbuilder.Text") and len(c.args) == 2 and \
          all(isinstance(a, ast.Name) and a.id in ps for a in c.args):
        cands.append(fi)
  return H._pick(cands, "_do_make_formula_body",
                 "codebuilder: the function that wraps the formula text into a builder")


def _range_start_of(v, name, at, nodev):
  """name is bound by unpacking component 0 of <atok>.get_text_range(<string node>) (or by
  indexing it with [0])."""
  defs = v.reaching(name.id, at)
  if len(defs) != 1:
    return False
  s = v.cfg.nodes[next(iter(defs))].stmt
  if not isinstance(s, ast.Assign) or len(s.targets) != 1:
    return False
  t = s.targets[0]
  val = v.res(s.value)
  if isinstance(t, (ast.Tuple, ast.List)) and t.elts and isinstance(t.elts[0], ast.Name) and \
      t.elts[0].id == name.id:
    return isinstance(val, ast.Call) and isinstance(val.func, ast.Attribute) and \
        val.func.attr == "get_text_range" and len(val.args) == 1 and v.t(val.args[0]) == nodev
  if isinstance(t, ast.Name) and isinstance(val, ast.Subscript) and \
      isinstance(val.slice, ast.Constant) and val.slice.value == 0:
    c = v.res(val.value)
    return isinstance(c, ast.Call) and isinstance(c.func, ast.Attribute) and \
        c.func.attr == "get_text_range" and len(c.args) == 1 and v.t(c.args[0]) == nodev
  return False


def _newline_positions(v, name, at, nodev):
  """every binding of name that reaches `at` is <text of the string node>.find('\n' + indent..)"""
  defs = v.reaching(name.id, at)
  if not defs:
    return False
  for d in defs:
    val = v._plain_value(name.id, d) if d != v.ENTRY else None
    if not (isinstance(val, ast.Call) and isinstance(val.func, ast.Attribute) and
            val.func.attr == "find" and val.args):
      return False
    recv = v.x(val.func.value, at=d)
    if not (isinstance(recv, ast.Call) and isinstance(recv.func, ast.Attribute) and
            recv.func.attr == "get_text" and len(recv.args) == 1 and
            text(recv.args[0]) == nodev):
      return False
    if v.t(val.args[0], at=d) != "'\\n' + indent":
      return False
  return True


# ------------------------------------------------------------------------------------------ R5

def r5_current_names(run, w):
  """The rename targets come from type inference over the whole generated module (column types,
  which tables exist), not only from the formula texts: the list a rename consults must be
  computed from the current usercode."""
  R5 = run.rule("C16-R5", "the names a rename consults are parsed from the current generated "
                "code: computed on every call, or kept only until the next make_module", floor=2)
  gn = H.xfn(w, "gencode.GenCode.grist_names")
  mm = H.xfn(w, "gencode.GenCode.make_module")
  v, mv = H.View(gn), H.View(mm)

  def undecided_if_hidden(attr):
    """a private method that is not followed may assign self.<attr>: then nothing is decided"""
    for view in (v, mv):
      for (c, kind, node) in view.unfollowed():
        if node is not None and any(isinstance(y, ast.Attribute) and y.attr == attr and
                                    isinstance(y.ctx, ast.Store) for y in ast.walk(node)):
          raise AnalysisError("%s: self.%s is also written by %s, which is not followed"
                              % (view.fn.qualname, attr, short(c, 50)))
  rets = [s for s in walk_no_nested(gn.node) if isinstance(s, ast.Return)]
  if len(rets) != 1 or rets[0].value is None:
    raise AnalysisError("%s: one return expected" % gn.qualname)

  def is_parse(e):
    return isinstance(e, ast.Call) and endswith(gn.name(e) or dotted(e.func) or "",
                                                "parse_grist_names")

  def self_attr(e):
    return e.attr if isinstance(e, ast.Attribute) and isinstance(e.value, ast.Name) and \
        e.value.id == "self" else None

  def unconditional_stores(fn, attr):
    """CFG nodes of fn that assign self.<attr> and lie on every normal path to the exit"""
    out = []
    for n in fn.cfg.nodes:
      s = n.stmt
      if n.kind == "stmt" and isinstance(s, ast.Assign) and \
          any(self_attr(t) == attr for t in s.targets) and \
          fn.cfg.dominated_by(fn.cfg.exit.id, {n.id}):
        out.append(n)
    return out

  builders, memos = set(), set()
  for (e, at, facts) in v.alternatives(rets[0].value):
    if is_parse(e):
      a0 = v.arg(e, 0)
      src = self_attr(v.res(a0, at=at)) if a0 is not None else None
      if src is None:
        raise AnalysisError("%s: cannot tell which code %s parses" % (gn.qualname, short(e)))
      builders.add(src)
    elif self_attr(e) is not None:
      memos.add(self_attr(e))
    elif isinstance(e, ast.Constant) and e.value is None:
      continue
    else:
      raise AnalysisError("%s: cannot tell where the returned names come from: %s"
                          % (gn.qualname, short(e)))
  # what is stored into a memo attribute is itself a fresh parse
  for n in gn.cfg.nodes:
    s = n.stmt
    if n.kind == "stmt" and isinstance(s, ast.Assign):
      for t in s.targets:
        if self_attr(t) in memos:
          val = v.res(s.value)
          if is_parse(val):
            a0 = v.arg(val, 0)
            src = self_attr(v.res(a0)) if a0 is not None else None
            if src is not None:
              builders.add(src)
          elif not (isinstance(val, ast.Constant) and val.value is None):
            raise AnalysisError("%s: %s is stored into the names memo" % (gn.qualname, short(val)))
  if not builders:
    raise AnalysisError("%s: no call of codebuilder.parse_grist_names found" % gn.qualname)
  for b in sorted(builders):
    if not unconditional_stores(mm, b):
      undecided_if_hidden(b)
    run.ob(R5, mm.qualname, "self.%s = <builder of the new module> on every path" % b,
           "the code the names are parsed from is the code of the latest make_module",
           bool(unconditional_stores(mm, b)), fi=mm.fi)
  if not memos:
    run.ob(R5, gn.qualname, "return codebuilder.parse_grist_names(self.%s)" % sorted(builders)[0],
           "the names are parsed afresh on every call", True, fi=gn.fi)
  for m in sorted(memos):
    resets = [n for n in unconditional_stores(mm, m)
              if isinstance(mv.res(n.stmt.value), ast.Constant) and
              mv.res(n.stmt.value).value is None]
    cond = [n for n in mm.cfg.nodes if n.kind == "stmt" and isinstance(n.stmt, ast.Assign) and
            any(self_attr(t) == m for t in n.stmt.targets) and n not in resets]
    wit = None
    if not resets:
      undecided_if_hidden(m)
      wit = "self.%s is %s" % (m, "only forgotten under a condition: %s"
                               % short(cond[0].stmt) if cond else "never forgotten by make_module")
    run.ob(R5, gn.qualname, "self.%s is forgotten whenever make_module runs" % m,
           "names remembered across calls are discarded with every regeneration of the code "
           "(a change of column types or of the set of tables changes what a name refers to "
           "even when no formula text changes)", bool(resets), witness=wit, fi=gn.fi,
           node=rets[0])


# ---------------------------------------------------------------------------------- self-test
U = "sandbox/grist/useractions.py"
CB = "sandbox/grist/codebuilder.py"
GC = "sandbox/grist/gencode.py"

_SEEDED_OLD = """    update_pairs = []
    for i, rec, values in self._bulk_action_iter(table_id, row_ids, col_values):
      update_pairs.append((rec, values))
      if has_diff_value(values, 'tableId', rec.tableId):
        # Disallow renaming of summary tables.
        if rec.summarySourceTable and self._indirection_level == DIRECT_ACTION:
          raise ValueError("RenameTable: cannot rename a summary table")

        # Find a non-conflicting name, except that we don't need to avoid the old name.
        avoid = avoid_tableid_set - {rec.tableId}
        new_table_id = identifiers.pick_table_ident(values['tableId'], avoid=avoid)
        values['tableId'] = new_table_id
        avoid_tableid_set.add(new_table_id)
        if new_table_id != rec.tableId:
          # If there are summary tables based on this table, rename them to appropriate names.
          for st in rec.summaryTables:
            groupby_col_ids = [c.colId for c in st.columns if c.summarySourceCol]
            st_table_id = summary.encode_summary_table_name(new_table_id, groupby_col_ids)
            st_table_id = identifiers.pick_table_ident(st_table_id, avoid=avoid_tableid_set)
            avoid_tableid_set.add(st_table_id)
            update_pairs.append((st, {'tableId': st_table_id}))

    # If other tables have columns referring to this table, generate actions to modify their types
    # (e.g. from 'Ref:Foo' to 'Ref:Bar'). We change type to 'Int' temporarily, to avoid having
    # invalid references, then change to correct type. Undo involves a similar sequence of events.
    backref_cols = self._collect_back_references(table_rec for table_rec, _ in update_pairs)
    col_updates = OrderedDict()
    table_renames = {t.tableId: values['tableId'] for t, values in update_pairs
               if has_diff_value(values, 'tableId', t.tableId)}
"""
_SEEDED_NEW = """    update_pairs = []
    table_renames = {}
    for i, rec, values in self._bulk_action_iter(table_id, row_ids, col_values):
      update_pairs.append((rec, values))
      if has_diff_value(values, 'tableId', rec.tableId):
        # Disallow renaming of summary tables.
        if rec.summarySourceTable and self._indirection_level == DIRECT_ACTION:
          raise ValueError("RenameTable: cannot rename a summary table")

        # Find a non-conflicting name, except that we don't need to avoid the old name.
        avoid = avoid_tableid_set - {rec.tableId}
        new_table_id = identifiers.pick_table_ident(values['tableId'], avoid=avoid)
        values['tableId'] = new_table_id
        avoid_tableid_set.add(new_table_id)
        if new_table_id != rec.tableId:
          table_renames[rec.tableId] = new_table_id
          # If there are summary tables based on this table, rename them to appropriate names.
          for st in rec.summaryTables:
            groupby_col_ids = [c.colId for c in st.columns if c.summarySourceCol]
            st_table_id = summary.encode_summary_table_name(new_table_id, groupby_col_ids)
            st_table_id = identifiers.pick_table_ident(st_table_id, avoid=avoid_tableid_set)
            avoid_tableid_set.add(st_table_id)
            update_pairs.append((st, {'tableId': st_table_id}))

    # If other tables have columns referring to this table, generate actions to modify their types
    # (e.g. from 'Ref:Foo' to 'Ref:Bar'). We change type to 'Int' temporarily, to avoid having
    # invalid references, then change to correct type. Undo involves a similar sequence of events.
    backref_cols = self._collect_back_references(table_rec for table_rec, _ in update_pairs)
    col_updates = OrderedDict()
"""

_ORDER_OLD = '''    if table_renames:
      # Build up a dictionary mapping col_ref of each affected formula to the new formula text.
      formula_updates = self._prepare_formula_renames(
        {(old, None): new for (old, new) in table_renames.items()})
      # Add the changes to the dict of col_updates. sort for reproducible order.
      for col_rec, new_formula in sorted(formula_updates.items()):
        col_updates.setdefault(col_rec, {})['formula'] = new_formula

    # If a table changes to onDemand, any empty columns (formula columns with no set formula)
    # should be converted to non-formula text columns to avoid SQL errors when they are updated.
    on_demand_set = [t for t, values in update_pairs
      if has_diff_value(values, 'onDemand', t.onDemand) and values['onDemand']]
    empty_cols = [c for t in on_demand_set for c in t.columns if c.isFormula and not c.formula]
    for col in empty_cols:
      col_updates.setdefault(col, {}).update(isFormula=False, type='Text')

    for col, values in col_updates.items():
      if 'type' in values:
        self.doModifyColumn(col.tableId, col.colId, {'type': 'Int'})

    make_acl_updates = acl.prepare_acl_table_renames(self, table_renames)

    # Collect all the table renames, and do the actual schema actions to apply them.
    for tbl, values in update_pairs:
      if has_diff_value(values, 'tableId', tbl.tableId):
        self._do_doc_action(actions.RenameTable(tbl.tableId, values['tableId']))
'''
_ORDER_NEW = '''    # If a table changes to onDemand, any empty columns (formula columns with no set formula)
    # should be converted to non-formula text columns to avoid SQL errors when they are updated.
    on_demand_set = [t for t, values in update_pairs
      if has_diff_value(values, 'onDemand', t.onDemand) and values['onDemand']]
    empty_cols = [c for t in on_demand_set for c in t.columns if c.isFormula and not c.formula]
    for col in empty_cols:
      col_updates.setdefault(col, {}).update(isFormula=False, type='Text')

    for col, values in col_updates.items():
      if 'type' in values:
        self.doModifyColumn(col.tableId, col.colId, {'type': 'Int'})

    make_acl_updates = acl.prepare_acl_table_renames(self, table_renames)

    # Collect all the table renames, and do the actual schema actions to apply them.
    for tbl, values in update_pairs:
      if has_diff_value(values, 'tableId', tbl.tableId):
        self._do_doc_action(actions.RenameTable(tbl.tableId, values['tableId']))

    if table_renames:
      # Build up a dictionary mapping col_ref of each affected formula to the new formula text.
      formula_updates = self._prepare_formula_renames(
        {(old, None): new for (old, new) in table_renames.items()})
      # Add the changes to the dict of col_updates. sort for reproducible order.
      for col_rec, new_formula in sorted(formula_updates.items()):
        col_updates.setdefault(col_rec, {})['formula'] = new_formula
'''

VARIANTS = [
  # the independently seeded bug: summary tables renamed with their source miss the rename map
  ("seeded-summary-tables-missing-from-table-renames", U, _SEEDED_OLD, _SEEDED_NEW, "C16-R1"),
  ("table-renames-skip-summary-tables", U,
   "               if has_diff_value(values, 'tableId', t.tableId)}",
   "               if has_diff_value(values, 'tableId', t.tableId) and not t.summarySourceTable}",
   "C16-R1"),
  ("column-renames-wrong-table-key", U,
   "    renames = {(c.parentId.tableId, c.colId): values['colId']",
   "    renames = {(table_id, c.colId): values['colId']", "C16-R1"),
  ("column-renames-filter-on-label", U,
   "               for c, values in col_updates.items()\n"
   "               if has_diff_value(values, 'colId', c.colId)}",
   "               for c, values in col_updates.items()\n"
   "               if has_diff_value(values, 'label', c.label)}", "C16-R1"),
  ("table-formula-updates-not-merged", U,
   "        col_updates.setdefault(col_rec, {})['formula'] = new_formula", "        pass",
   "C16-R1"),
  ("column-formula-updates-not-merged", U,
   "        col_updates.setdefault(col_rec, {}).setdefault('formula', new_formula)",
   "        log.debug('formula of %s changes', col_rec)", "C16-R1"),
  ("prepare-after-rename-table", U, _ORDER_OLD, _ORDER_NEW, "C16-R1"),
  ("rename-column-useraction-emits-directly", U,
   "    self._docmodel.update([col], colId=new_col_id)\n    return col.colId",
   "    self._do_doc_action(actions.RenameColumn(table_id, old_col_id, new_col_id))\n"
   "    self._docmodel.update([col], colId=new_col_id)\n    return col.colId", "C16-R1"),
  ("lookupOne-unregistered", CB, "_lookup_method_names = ('lookupOne', 'lookupRecords')",
   "_lookup_method_names = ('lookupRecords',)", "C16-R2"),
  ("find-previous-unregistered", CB,
   "_lookup_find_methods = ('lt', 'le', 'gt', 'ge', 'eq', 'previous', 'next')",
   "_lookup_find_methods = ('lt', 'le', 'gt', 'ge', 'eq', 'next')", "C16-R2"),
  ("find-rank-registered", CB,
   "_lookup_find_methods = ('lt', 'le', 'gt', 'ge', 'eq', 'previous', 'next')",
   "_lookup_find_methods = ('lt', 'le', 'gt', 'ge', 'eq', 'previous', 'next', 'rank')",
   "C16-R2"),
  ("rank-unregistered", CB, "_prev_next_functions = ('PREVIOUS', 'NEXT', 'RANK')",
   "_prev_next_functions = ('PREVIOUS', 'NEXT')", "C16-R2"),
  ("all-comprehension-tip-inactive", CB,
   "InferLookupComprehension, InferAllReference, InferAllComprehension,",
   "InferLookupComprehension, InferAllReference,", "C16-R2"),
  ("patch-length-of-new-name", U, "pos, pos + len(name), new_name)",
   "pos, pos + len(new_name), new_name)", "C16-R3"),
  ("old-name-prefers-table", U, "        name = col_id or table_id\n        formula = col_rec.formula",
   "        name = table_id or col_id\n        formula = col_rec.formula", "C16-R3"),
  ("rename-looked-up-by-column-only", U, "new_name = renames.get((table_id, col_id))",
   "new_name = renames.get((None, col_id))", "C16-R3"),
  ("unindent-patch-starts-at-newline", CB, "        patch_start = start + pos + 1\n",
   "        patch_start = start + pos\n", "C16-R4"),
  ("unindent-patch-one-too-long", CB,
   "textbuilder.Patch(patch_start, patch_start + len(indent), indent, ''))",
   "textbuilder.Patch(patch_start, patch_start + len(indent) + 1, indent, ''))", "C16-R4"),
  ("unindent-patch-leaves-a-space", CB,
   "textbuilder.Patch(patch_start, patch_start + len(indent), indent, ''))",
   "textbuilder.Patch(patch_start, patch_start + len(indent), indent, ' '))", "C16-R4"),
  ("whole-string-unindent-patch-restored", CB,
   "      start, _ = atok.get_text_range(node)\n"
   "      indented_text = atok.get_text(node)\n"
   "      pos = indented_text.find('\\n' + indent)\n"
   "      while pos >= 0:\n"
   "        patch_start = start + pos + 1\n"
   "        unindent_patches.append(\n"
   "          textbuilder.Patch(patch_start, patch_start + len(indent), indent, ''))\n"
   "        pos = indented_text.find('\\n' + indent, pos + 1)\n",
   "      start, end = atok.get_text_range(node)\n"
   "      indented_text = atok.get_text(node)\n"
   "      unindented_text = indented_text.replace('\\n' + indent, '\\n')\n"
   "      unindent_patches.append(textbuilder.Patch(start, end, indented_text, unindented_text))\n",
   "C16-R4"),
  ("unindent-positions-of-other-text", CB, "    atok = asttokens.ASTText(builder.get_text())\n",
   "    atok = asttokens.ASTText(indented_formula_body.get_text())\n", "C16-R4"),
  ("seeded-newlines-normalised-on-plain-string", CB,
   "  formula_builder_text = textbuilder.Text(formula, assoc_value)\n",
   "  formula = _newline_re.sub('\\n', formula)\n"
   "  formula_builder_text = textbuilder.Text(formula, assoc_value)\n", "C16-R4"),
  ("names-memo-never-forgotten", GC,
   "    return codebuilder.parse_grist_names(self._full_builder)\n",
   "    if getattr(self, '_names_memo', None) is None:\n"
   "      self._names_memo = codebuilder.parse_grist_names(self._full_builder)\n"
   "    return self._names_memo\n", "C16-R5"),
  ("seeded-names-memo-forgotten-only-when-formula-keys-change", GC,
   "    self._formula_cache = self._new_formula_cache\n"
   "    self._new_formula_cache = {}\n"
   "    self._full_builder = textbuilder.Combiner(fullparts)\n"
   "    self._user_builder = textbuilder.Combiner(userparts)\n"
   "    self._usercode = exec_module_text(self._full_builder.get_text())\n"
   "\n"
   "  def get_user_text(self):\n"
   "    \"\"\"Returns the text of the user-facing part of the generated code.\"\"\"\n"
   "    return self._user_builder.get_text()\n"
   "\n"
   "  @property\n"
   "  def usercode(self):\n"
   "    \"\"\"Returns the generated usercode module.\"\"\"\n"
   "    return self._usercode\n"
   "\n"
   "  def grist_names(self):\n"
   "    return codebuilder.parse_grist_names(self._full_builder)\n",
   "    if self._new_formula_cache.keys() != self._formula_cache.keys():\n"
   "      self._grist_names = None\n"
   "    self._formula_cache = self._new_formula_cache\n"
   "    self._new_formula_cache = {}\n"
   "    self._full_builder = textbuilder.Combiner(fullparts)\n"
   "    self._user_builder = textbuilder.Combiner(userparts)\n"
   "    self._usercode = exec_module_text(self._full_builder.get_text())\n"
   "\n"
   "  def get_user_text(self):\n"
   "    \"\"\"Returns the text of the user-facing part of the generated code.\"\"\"\n"
   "    return self._user_builder.get_text()\n"
   "\n"
   "  @property\n"
   "  def usercode(self):\n"
   "    \"\"\"Returns the generated usercode module.\"\"\"\n"
   "    return self._usercode\n"
   "\n"
   "  _grist_names = None\n"
   "\n"
   "  def grist_names(self):\n"
   "    if self._grist_names is None:\n"
   "      self._grist_names = codebuilder.parse_grist_names(self._full_builder)\n"
   "    return self._grist_names\n", "C16-R5"),
  ("names-parsed-from-user-facing-code", GC,
   "    return codebuilder.parse_grist_names(self._full_builder)\n",
   "    return codebuilder.parse_grist_names(self._stale_builder)\n", "C16-R5"),
  ("producer-tuple-swapped", CB, "return (in_value, in_patch.start, table_id, col_id)",
   "return (in_value, in_patch.start, col_id, table_id)", "C16-R3"),
]
