"""C16 Renames never change formula results -- structural clauses.

Deviation from DESIGN.md 4/C16: R1 additionally decides the *agreement* between the rename map
handed to _prepare_formula_renames and the loop that emits the Rename* doc actions (same update
pairs, same guard, same old/new expressions, no pair added after the map was built). This is the
clause an independently seeded bug broke (summary tables renamed together with their source never
reached the formula renamer)."""
import ast
from ..fn import World
from ..index import AnalysisError, dotted
from ..astutil import text, short, endswith, calls_in, walk_no_nested
from ..dataflow import DefUse
from .. import events as E
from . import _h_D as H

EXPLANATION = (
  "Decides (R1) that RenameColumn/RenameTable doc actions are handed to the gateway only by the "
  "BulkUpdateRecord overrides of the metadata table owning the renamed field, that each of them "
  "calls _prepare_formula_renames before the first emission, on a rename map built from the same "
  "update pairs, guard and old/new expressions as the emission loop with no pair added once the "
  "map exists, and merges the returned formula texts into the _grist_Tables_column update; that "
  "the RenameColumn/RenameTable user actions only forward to that metadata path; (R2) that the "
  "name registries of codebuilder agree with the APIs they describe (lookup methods of UserTable, "
  "PREVIOUS/NEXT/RANK, record-returning find.* methods, inference tips in use); (R3) that each "
  "patch spans [pos, pos+len(old name)) of the formula of the column the name was found in, with "
  "producer and consumer agreeing on the tuple layout. Not decided: astroid's inference coverage "
  "of formula shapes; equivalence of the `if renames:` guard and the per-record emission guard; "
  "the offset arithmetic inside textbuilder (C37).")

RENAME_ACTIONS = ("RenameColumn", "RenameTable")

# Constructions of rename actions that are not emissions of a user-level rename (reason each).
NON_EMITTING_FUNCS = {
  "docactions.DocActions.RenameColumn": "the recorded inverse of the doc action (C01-R2)",
  "docactions.DocActions.RenameTable": "the recorded inverse of the doc action (C01-R2)",
}
NON_EMITTING_MODULES = {
  "migrations": "offline TableDataSet migrations; they do not run inside the engine",
}
FORMULA_TABLE = "_grist_Tables_column"


def check(run, repo, tier):
  w = World(repo)
  r1_funnel(run, w)
  r2_registries(run, w)
  r3_positions(run, w)


# ------------------------------------------------------------------------------------------ R1

def r1_funnel(run, w):
  R1 = run.rule("C16-R1", "rename doc actions are emitted only by functions that first prepare "
                "formula renames on a map agreeing with the emission loop, and merge the result "
                "into the column metadata update", floor=14)
  sites = {}
  for (fn, call) in H.rename_constructions(w, RENAME_ACTIONS):
    q = fn.qualname
    if q in NON_EMITTING_FUNCS or fn.fi.module.name in NON_EMITTING_MODULES:
      continue
    gw = [c for (n, c, nm) in fn.calls() if E.is_gateway_call(c, nm, fn) and c.args and
          any(x is call for x in ast.walk(c.args[0]))]
    run.ob(R1, q, short(call), "a rename action constructed outside DocActions is handed straight "
           "to the gateway (no side channel)", bool(gw), fi=fn.fi, node=call)
    if gw:
      sites[q] = fn
  schema = H.python_schema(w)
  overrides = {f.qualname: key for key, f in w.override_methods().items()}
  for q in sorted(sites):
    fn = sites[q]
    site = H.RenameSite(fn, RENAME_ACTIONS)
    _r1_site(run, w, R1, fn, site, schema, overrides)
  # the user actions named after the renames only forward to the metadata path
  for name, field in (("RenameColumn", "colId"), ("RenameTable", "tableId")):
    fn = w.fn("useractions.UserActions." + name)
    ps = fn.fi.params()
    direct = [c for (n, c, nm) in fn.calls() if E.is_gateway_call(c, nm, fn)]
    fwd = [c for (n, c, nm) in fn.calls() if endswith(nm, "self._docmodel.update") and
           any(k.arg == field and text(k.value) == ps[-1] for k in c.keywords)]
    run.ob(R1, fn.qualname, "self._docmodel.update([rec], %s=%s)" % (field, ps[-1]),
           "the %s user action emits nothing itself and forwards the new name as an update of "
           "the metadata field %s (so it takes the funnel)" % (name, field),
           not direct and len(fwd) == 1, fi=fn.fi)


def _r1_site(run, w, R1, fn, site, schema, overrides):
  cfg = fn.cfg
  q = fn.qualname
  emit_nodes = {e[0] for e in site.emits}
  prep_nodes = {p[0] for p in site.preps}
  run.ob(R1, q, "self._prepare_formula_renames(<rename map>)",
         "a function that emits %s prepares the formula renames"
         % "/".join(sorted({e[3] for e in site.emits})), bool(prep_nodes), fi=fn.fi,
         nontrivial=False)
  if not prep_nodes:
    return
  # the names are resolved against the *old* schema: prepare strictly before any emission
  late = cfg.reach_after(emit_nodes) & prep_nodes
  early = all(e in cfg.reach_after(prep_nodes) for e in emit_nodes)
  wit = None
  if late:
    wit = cfg.describe_path(cfg.path(sorted(emit_nodes)[0], late, after=True))
  run.ob(R1, q, "_prepare_formula_renames precedes _do_doc_action(Rename*)",
         "formula names are collected while the generated code still carries the old names: the "
         "preparation is never reachable from an emission and every emission is reachable from it",
         not late and early, witness=wit, fi=fn.fi)
  if late or not early:
    return
  if len(site.preps) != 1:
    raise AnalysisError("%s: %d calls of _prepare_formula_renames (one expected)"
                        % (q, len(site.preps)))
  prep_node, prep_call = site.preps[0]

  for emit in site.emits:
    _map_agreement(run, R1, fn, site, emit, prep_call, schema, overrides)
  _merge(run, w, R1, fn, site, prep_node, prep_call, overrides, schema)


def _guard_field(tests, tm):
  """('colId', normalised guard texts) from the emission guard has_diff_value(values, F, old)."""
  field = None
  for t in tests:
    if isinstance(t, ast.Call) and dotted(t.func) == "has_diff_value" and len(t.args) == 3 and \
        isinstance(t.args[1], ast.Constant):
      field = t.args[1].value
  return field, sorted(H.ntext(t, tm) for t in tests)


def _map_agreement(run, R1, fn, site, emit, prep_call, schema, overrides):
  q = fn.qualname
  cfg = fn.cfg
  nid, gw, ctor, aname = emit
  loop, it_text, root, tm, tests, ctor = site.emission_shape(emit)
  field, guard = _guard_field(tests, tm)
  if field is None:
    raise AnalysisError("%s: emission of %s is not guarded by has_diff_value(values, <field>, "
                        "<old>)" % (q, aname))
  # the emitting function is the BulkUpdateRecord override of the metadata table owning `field`
  key = overrides.get(q)
  owner_ok = key is not None and key[0] == "BulkUpdateRecord" and \
      any(cid == field for (cid, _, _) in (schema.get(key[1]) or []))
  run.ob(R1, q, "@override_action('BulkUpdateRecord', %r) owns field %r"
         % (key[1] if key else None, field),
         "every update of the metadata field that names the entity passes through the function "
         "that renames it", owner_ok, fi=fn.fi)
  # old/new expressions of the emitted action
  args = [H.ntext(a, tm) for a in ctor.args]
  if aname == "RenameTable" and len(args) == 2:
    want_key, want_val = args[0], args[1]
  elif aname == "RenameColumn" and len(args) == 3:
    want_key, want_val = "(%s, %s)" % (args[0], args[1]), args[2]
  else:
    raise AnalysisError("%s: %s constructed with an unexpected arity" % (q, aname))
  kind, name, comp, rekey = site.resolve_map(prep_call.args[0])
  if (aname == "RenameTable") != (rekey == "table"):
    run.ob(R1, q, "rename map keys for %s" % aname, "table renames are keyed (table_id, None), "
           "column renames (table_id, col_id), as _prepare_formula_renames looks them up",
           False, fi=fn.fi, node=prep_call)
    return
  writers = site.map_writer_nodes(name, comp)
  # no update pair that can carry a rename is added once the map has been (partly) written
  du = site.du
  pair_writers = du.defs.get(root, set()) | du.muts.get(root, set())
  after = cfg.reach_after(writers) & pair_writers
  harmful, unknown = [], []
  for n in sorted(after):
    v = site.classify_pairs_write(n, root, field)
    if v == H.HARMFUL:
      harmful.append(n)
    elif v == H.UNKNOWN:
      unknown.append(n)
  wit = None
  if harmful:
    wit = "%s written at %s, reachable after the map %s was written: %s" % (
      root, cfg.describe_path([harmful[0]]), name,
      short(cfg.nodes[harmful[0]].stmt))
  run.ob(R1, q, "no (record, {%r: ...}) pair joins %s after the rename map is written"
         % (field, root),
         "every pair emitted as %s is known when the rename map is built (pairs appended later, "
         "e.g. summary tables renamed with their source, would be missing from it)" % aname,
         not harmful, witness=wit, fi=fn.fi,
         node=cfg.nodes[harmful[0]].stmt if harmful else loop)
  if harmful:
    return
  if unknown:
    raise AnalysisError("%s: cannot classify a write to %s after the rename map is built: %s"
                        % (q, root, short(cfg.nodes[unknown[0]].stmt)))
  if kind != "comp":
    raise AnalysisError("%s: rename map %s is filled incrementally; cannot relate it to the "
                        "emission loop" % (q, name))
  if len(comp.generators) != 1 or comp.generators[0].is_async:
    raise AnalysisError("%s: rename map comprehension has nested generators" % q)
  g = comp.generators[0]
  c_it, c_root = site.canonical_iter(g.iter)
  ctm = H.target_map(g.target)
  c_guard = sorted(H.ntext(t, ctm) for t in g.ifs)
  c_key, c_val = H.ntext(comp.key, ctm), H.ntext(comp.value, ctm)
  run.ob(R1, q, "rename map iterates %s" % c_it, "the map is built from the very collection of "
         "update pairs the emission loop iterates (%s)" % it_text, c_it == it_text, fi=fn.fi,
         node=comp)
  same_idiom = len(c_guard) == len(guard) and all(a.startswith("has_diff_value(") for a in c_guard)
  if c_guard != guard and not same_idiom:
    raise AnalysisError("%s: filter of the rename map (%s) and emission guard (%s) use different "
                        "idioms; cannot compare" % (q, c_guard, guard))
  run.ob(R1, q, "rename map filter == emission guard",
         "a pair is in the map exactly when it is emitted as %s: filter %s vs guard %s"
         % (aname, c_guard, guard), c_guard == guard, fi=fn.fi, node=comp)
  run.ob(R1, q, "rename map key/value == %s old/new arguments" % aname,
         "the map sends the emitted old name to the emitted new name: %s -> %s vs %s -> %s"
         % (c_key, c_val, want_key if rekey != "table" else args[0], want_val),
         c_key == (args[0] if rekey == "table" else want_key) and c_val == want_val,
         fi=fn.fi, node=comp)
  if name is not None:
    run.ob(R1, q, "%s has a single writer" % name, "the map the formulas are renamed with is "
           "not altered between its construction and its uses", len(du.writers(name)) == 1,
           fi=fn.fi)


def _merge(run, w, R1, fn, site, prep_node, prep_call, overrides, schema):
  """The returned {col_rec: new formula} is merged into the pairs handed to
  doBulkUpdateFromPairs('_grist_Tables_column', ...)."""
  q = fn.qualname
  cfg = fn.cfg
  st = cfg.nodes[prep_node].stmt
  if not (isinstance(st, ast.Assign) and len(st.targets) == 1 and
          isinstance(st.targets[0], ast.Name) and st.value is prep_call):
    raise AnalysisError("%s: result of _prepare_formula_renames is not bound to a local" % q)
  res = st.targets[0].id
  merged_into, loop_node = None, None
  for n in cfg.nodes:
    if n.kind != "for":
      continue
    it = n.stmt.iter
    if isinstance(it, ast.Call) and dotted(it.func) == "sorted" and len(it.args) == 1:
      it = it.args[0]
    if not (H._is_items_view(it) and it.func.value.id == res):
      continue
    tg = n.stmt.target
    if not (isinstance(tg, ast.Tuple) and len(tg.elts) == 2 and
            all(isinstance(e, ast.Name) for e in tg.elts)):
      continue
    kvar, vvar = tg.elts[0].id, tg.elts[1].id
    for b in n.stmt.body:
      for c in calls_in(b):
        f = c.func
        if isinstance(f, ast.Attribute) and f.attr == "setdefault" and \
            isinstance(f.value, ast.Name) and len(c.args) == 2 and H._empty_dict(c.args[1]) and \
            text(c.args[0]) == kvar:
          # the chained write stores the new formula under the constant 'formula'
          for x in ast.walk(b):
            if isinstance(x, ast.Call) and isinstance(x.func, ast.Attribute) and \
                x.func.value is c and x.func.attr == "setdefault" and len(x.args) == 2 and \
                isinstance(x.args[0], ast.Constant) and x.args[0].value == "formula" and \
                text(x.args[1]) == vvar:
              merged_into, loop_node = f.value.id, n.id
            if isinstance(b, ast.Assign) and isinstance(x, ast.Subscript) and x.value is c and \
                isinstance(x.slice, ast.Constant) and x.slice.value == "formula" and \
                text(b.value) == vvar:
              merged_into, loop_node = f.value.id, n.id
  run.ob(R1, q, "for col_rec, new_formula in %s.items(): <pairs>[col_rec]['formula'] = "
         "new_formula" % res, "the rewritten formula texts are merged into a set of column "
         "updates", merged_into is not None and
         cfg.postdominated_by(prep_node, {loop_node}), fi=fn.fi, node=st)
  if merged_into is None:
    return
  has_formula = any(cid == "formula" for (cid, _, _) in (schema.get(FORMULA_TABLE) or []))
  bulk = set()
  key = overrides.get(q)
  ps = fn.fi.params()
  for (n, c, nm) in fn.calls():
    if endswith(nm, "self.doBulkUpdateFromPairs") and len(c.args) == 2:
      t = c.args[0]
      rebound = any(n.id in cfg.reach_after({d}) for d in site.du.defs.get(t.id, set())) \
          if isinstance(t, ast.Name) else False
      table_ok = (isinstance(t, ast.Constant) and t.value == FORMULA_TABLE) or \
          (isinstance(t, ast.Name) and len(ps) > 1 and t.id == ps[1] and key is not None and
           key[1] == FORMULA_TABLE and not rebound)
      try:
        _, root = site.canonical_iter(c.args[1])
      except AnalysisError:
        continue
      if table_ok and root == merged_into:
        bulk.add(n.id)
  ok = bool(bulk) and has_formula and cfg.postdominated_by(loop_node, bulk) and \
      not (cfg.reach_after(bulk) & {loop_node})
  run.ob(R1, q, "self.doBulkUpdateFromPairs(%r, <pairs incl. formulas>)" % FORMULA_TABLE,
         "the merged formula updates are written to the column metadata on every normal path "
         "after the merge", ok, fi=fn.fi)


# ------------------------------------------------------------------------------------------ R2

def _tuple_const(mod, name):
  ce = H.ConstEval(mod)
  v = ce.name(name)
  if not (isinstance(v, tuple) and all(isinstance(x, str) for x in v)):
    raise AnalysisError("%s.%s is not a tuple of names" % (mod.name, name))
  return v


def _hidden_from_users(w):
  """Method names engine.skipped_completions hides from formula authors (read from the regex)."""
  mod = w.repo.module("engine")
  rx = H.ConstEval(mod).name("skipped_completions")
  if not isinstance(rx, H.Regex):
    raise AnalysisError("engine.skipped_completions is not a compiled regex")
  names = set()
  tree = H.parse_regex(rx)
  def lit(seq):
    s = ""
    for (op, av) in seq:
      if op is H.sre_c.LITERAL:
        s += chr(av)
      else:
        return None
    return s
  def walk(seq, prefix):
    # re._parser factors common prefixes out of alternations: rebuild the alternatives
    for i, (op, av) in enumerate(seq):
      if op is H.sre_c.SUBPATTERN:
        walk(av[3], "")
      elif op is H.sre_c.BRANCH:
        pre = lit(seq[:i]) or ""
        for alt in av[1]:
          s = lit(alt)
          if s is not None:
            names.add(pre + s)
  walk(tree, "")
  return names


def r2_registries(run, w):
  R2 = run.rule("C16-R2", "the name registries that drive formula renaming agree with the APIs "
                "they describe", floor=12)
  cb = w.repo.module("codebuilder")
  # (a, b) lookup methods of UserTable
  reg = _tuple_const(cb, "_lookup_method_names")
  ut = w.repo.cls("table.UserTable")
  hidden = _hidden_from_users(w)
  kw_methods = {}
  for name, fi in ut.methods.items():
    if fi.node.args.kwarg is not None and not name.startswith("_") and \
        not any(dotted(d) == "property" for d in fi.decorators()):
      kw_methods[name] = fi
  for name in reg:
    fi = ut.methods.get(name)
    run.ob(R2, "codebuilder._lookup_method_names", name, "a registered lookup method is a method "
           "of UserTable taking column names as keywords", fi is not None and name in kw_methods,
           fi=fi, nontrivial=True)
  for name, fi in sorted(kw_methods.items()):
    ok = name in reg or name in hidden
    run.ob(R2, "table.UserTable." + name, "registered in codebuilder._lookup_method_names",
           "every user-facing UserTable method taking column names as keywords is known to the "
           "renamer (hidden helpers are those named in engine.skipped_completions)", ok, fi=fi)
  # (c) PREVIOUS/NEXT/RANK
  reg = _tuple_const(cb, "_prev_next_functions")
  pn = w.repo.module("functions.prevnext")
  pgn = w.fn("codebuilder.parse_grist_names")
  handled = None
  for n in walk_no_nested(pgn.node):
    if isinstance(n, ast.Compare) and len(n.ops) == 1 and isinstance(n.ops[0], ast.In) and \
        text(n.left) == "node.arg" and isinstance(n.comparators[0], ast.Tuple):
      handled = tuple(e.value for e in n.comparators[0].elts if isinstance(e, ast.Constant))
  if not handled:
    raise AnalysisError("codebuilder.parse_grist_names: the keyword set handled for "
                        "PREVIOUS/NEXT/RANK was not found")
  def sorted_lookup_kwargs(fi):
    """keyword names a prevnext function forwards to _sorted_lookup from its own parameters"""
    out = set()
    for c in calls_in(fi.node.body):
      if dotted(c.func) == "_sorted_lookup":
        for k in c.keywords:
          if k.arg is not None:
            out.add(k.arg)
    return out
  for name in reg:
    fi = pn.functions.get(name)
    ok = fi is not None and bool(fi.params()) and \
        set(handled) <= {a.arg for a in fi.node.args.kwonlyargs + fi.node.args.args} and \
        sorted_lookup_kwargs(fi) <= set(handled)
    run.ob(R2, "codebuilder._prev_next_functions", name, "a registered function exists in "
           "functions/prevnext.py, takes the record first, and the column-naming keywords it "
           "forwards (%s) are the ones parse_grist_names renames" % ", ".join(handled), ok,
           fi=fi)
  for name, fi in sorted(pn.functions.items()):
    if name.startswith("_") or not sorted_lookup_kwargs(fi):
      continue
    run.ob(R2, "functions.prevnext." + name, "registered in codebuilder._prev_next_functions",
           "every public function whose keywords name columns of the record's table is known to "
           "the renamer", name in reg, fi=fi)
  # (d) find.* methods returning a record
  reg = _tuple_const(cb, "_lookup_find_methods")
  fo = w.repo.cls("records.FindOps")
  returning = set()
  for name, fi in fo.methods.items():
    if name.startswith("_"):
      continue
    kinds = set()
    for s in walk_no_nested(fi.node):
      if isinstance(s, ast.Return) and s.value is not None:
        v = s.value
        if isinstance(v, ast.Call) and endswith(dotted(v.func), "_rset._bisect_find",
                                                "_rset._find_eq", "_rset._at"):
          kinds.add("record")
        elif isinstance(v, ast.BinOp) and all(
            isinstance(x, (ast.BinOp, ast.Name, ast.Constant, ast.Call, ast.Attribute, ast.Add,
                           ast.Sub, ast.Load)) for x in ast.walk(v)) and \
            all(dotted(c.func) == "len" for c in calls_in(v)):
          kinds.add("int")
        else:
          kinds.add("?")
    if kinds == {"record"}:
      returning.add(name)
    elif kinds != {"int"}:
      raise AnalysisError("records.FindOps.%s: cannot tell whether it returns a record" % name)
  run.ob(R2, "codebuilder._lookup_find_methods", "= record-returning methods of records.FindOps",
         "attribute chains continue through exactly the find.* results that are records: "
         "registered %s, record-returning %s" % (sorted(reg), sorted(returning)),
         set(reg) == returning, fi=w.repo.func("codebuilder.parse_grist_names"))
  # (e) inference tips in use
  base = w.repo.cls("codebuilder.InferenceTip")
  concrete = set()
  for ci in w.repo.subclasses(base, strict=True):
    if _tip_is_concrete(w, ci):
      concrete.add(ci.name)
  used = None
  for n in walk_no_nested(pgn.node):
    if isinstance(n, ast.With):
      for it in n.items:
        c = it.context_expr
        if isinstance(c, ast.Call) and dotted(c.func) == "use_inferences":
          used = {dotted(a) for a in c.args}
  if used is None:
    raise AnalysisError("codebuilder.parse_grist_names: use_inferences(...) not found")
  for name in sorted(concrete | used):
    run.ob(R2, "codebuilder.parse_grist_names", "use_inferences(..., %s, ...)" % name,
           "every inference tip that yields table instances is active while names are collected "
           "(and everything activated is such a tip)", name in concrete and name in used,
           fi=pgn.fi)


def _tip_is_concrete(w, ci):
  """An InferenceTip subclass that can be registered and yields something: node_class resolves
  to a value, a reference_inference_class (if the hierarchy has one) is set, infer() is
  implemented."""
  def class_attr(name):
    for c in w.repo.mro(ci):
      for s in c.node.body:
        if isinstance(s, ast.Assign) and len(s.targets) == 1 and \
            isinstance(s.targets[0], ast.Name) and s.targets[0].id == name:
          return s.value
    return "absent"
  nc = class_attr("node_class")
  if nc == "absent" or (isinstance(nc, ast.Constant) and nc.value is None):
    return False
  ric = class_attr("reference_inference_class")
  if ric != "absent" and isinstance(ric, ast.Constant) and ric.value is None:
    return False
  inf = w.repo.find_method(ci, "infer")
  if inf is None:
    return False
  body = [s for s in inf.node.body if not (isinstance(s, ast.Expr) and
                                           isinstance(s.value, ast.Constant))]
  if len(body) == 1 and isinstance(body[0], ast.Raise):
    return False
  return True


# ------------------------------------------------------------------------------------------ R3

def r3_positions(run, w):
  R3 = run.rule("C16-R3", "each rename patch spans [pos, pos+len(old name)) of the formula the "
                "name was found in; producer and consumer agree on the tuple layout", floor=8)
  fn = w.fn("useractions.UserActions._prepare_formula_renames")
  q = fn.qualname
  ps = fn.fi.params()
  ren = ps[1]
  loop = None
  for s in fn.node.body:
    if isinstance(s, ast.For) and isinstance(s.iter, ast.Call) and \
        endswith(fn.name(s.iter), "gencode.grist_names"):
      loop = s
  if loop is None or not (isinstance(loop.target, ast.Tuple) and len(loop.target.elts) == 4 and
                          all(isinstance(e, ast.Name) for e in loop.target.elts)):
    raise AnalysisError("%s: loop over gencode.grist_names() with a 4-tuple target not found" % q)
  t_info, t_pos, t_tab, t_col = [e.id for e in loop.target.elts]
  body_nodes = list(x for b in loop.body for x in walk_no_nested(b))
  # lookup key
  look = [c for c in body_nodes if isinstance(c, ast.Call) and
          isinstance(c.func, ast.Attribute) and c.func.attr == "get" and
          text(c.func.value) == ren and len(c.args) == 1]
  ok = len(look) == 1 and text(look[0].args[0]) == "(%s, %s)" % (t_tab, t_col)
  run.ob(R3, q, "%s.get((%s, %s))" % (ren, t_tab, t_col), "the rename is looked up under the "
         "(table, column) the name was resolved to", ok, fi=fn.fi, node=loop)
  newvar = None
  for s in body_nodes:
    if isinstance(s, ast.Assign) and look and s.value is look[0] and \
        isinstance(s.targets[0], ast.Name):
      newvar = s.targets[0].id
  # old name = col_id or table_id
  namevar = None
  for s in body_nodes:
    if isinstance(s, ast.Assign) and isinstance(s.targets[0], ast.Name) and \
        isinstance(s.value, ast.BoolOp) and isinstance(s.value.op, ast.Or) and \
        [text(v) for v in s.value.values] == [t_col, t_tab]:
      namevar = s.targets[0].id
  patches = [c for c in body_nodes if isinstance(c, ast.Call) and
             endswith(dotted(c.func), "textbuilder.make_patch", "make_patch")]
  if len(patches) != 1 or len(patches[0].args) != 4:
    raise AnalysisError("%s: one make_patch(text, start, end, new) call expected" % q)
  a_text, a_start, a_end, a_new = patches[0].args
  end_forms = set()
  if namevar is not None:
    end_forms = {"%s + len(%s)" % (t_pos, namevar), "len(%s) + %s" % (namevar, t_pos)}
  end_forms |= {"%s + len(%s or %s)" % (t_pos, t_col, t_tab)}
  run.ob(R3, q, short(patches[0]), "the patch starts at the reported position and is as long as "
         "the old name (col_id, or table_id for a table name)",
         text(a_start) == t_pos and text(a_end) in end_forms, fi=fn.fi, node=patches[0])
  run.ob(R3, q, "patch replacement = looked-up new name", "the replacement text is the new name "
         "found for that (table, column)", newvar is not None and text(a_new) == newvar,
         fi=fn.fi, node=patches[0])
  # the text patched is the formula of the column the name was found in
  du = DefUse(fn)
  def single_def(name):
    vals = [s.value for s in body_nodes if isinstance(s, ast.Assign) and
            len(s.targets) == 1 and isinstance(s.targets[0], ast.Name) and
            s.targets[0].id == name]
    return vals[0] if len(vals) == 1 else None
  recvar, ok = None, False
  tv = a_text
  if isinstance(tv, ast.Name):
    tv = single_def(tv.id)
  if isinstance(tv, ast.Attribute) and tv.attr == "formula" and isinstance(tv.value, ast.Name):
    recvar = tv.value.id
    rd = single_def(recvar)
    if isinstance(rd, ast.Call) and endswith(fn.name(rd), "get_column_rec") and \
        len(rd.args) == 2:
      unpack = [s for s in body_nodes if isinstance(s, ast.Assign) and
                isinstance(s.targets[0], ast.Tuple) and text(s.value) == t_info]
      ok = len(unpack) == 1 and \
          [text(e) for e in unpack[0].targets[0].elts] == [text(a) for a in rd.args]
  run.ob(R3, q, "patched text = get_column_rec(*formula_info).formula",
         "positions are offsets into the formula of the column in which the name occurs", ok,
         fi=fn.fi, node=patches[0])
  # patches are grouped under that same record and applied to that record's formula
  grp = [c for c in body_nodes if isinstance(c, ast.Call) and
         isinstance(c.func, ast.Attribute) and c.func.attr == "append" and
         isinstance(c.func.value, ast.Call) and isinstance(c.func.value.func, ast.Attribute) and
         c.func.value.func.attr == "setdefault"]
  mapvar = None
  ok = False
  if len(grp) == 1:
    sd = grp[0].func.value
    mapvar = text(sd.func.value)
    pv = [s.targets[0].id for s in body_nodes if isinstance(s, ast.Assign) and
          s.value is patches[0] and isinstance(s.targets[0], ast.Name)]
    ok = recvar is not None and text(sd.args[0]) == recvar and \
        (text(grp[0].args[0]) in pv or grp[0].args[0] is patches[0])
  run.ob(R3, q, "<patches>.setdefault(col_rec, []).append(patch)", "patches are collected under "
         "the record whose formula they index", ok, fi=fn.fi)
  ok = False
  retvar = None
  for s in fn.node.body:
    if isinstance(s, ast.For) and mapvar is not None and H._is_items_view(s.iter) and \
        s.iter.func.value.id == mapvar and isinstance(s.target, ast.Tuple) and \
        len(s.target.elts) == 2:
      kv, pv = [text(e) for e in s.target.elts]
      reps = [c for b in s.body for c in calls_in(b) if
              endswith(dotted(c.func), "textbuilder.Replacer", "Replacer") and len(c.args) == 2]
      if len(reps) == 1:
        base = reps[0].args[0]
        inner = base.args[0] if isinstance(base, ast.Call) and \
            endswith(dotted(base.func), "textbuilder.Text", "Text") and len(base.args) == 1 \
            else None
        if isinstance(inner, ast.Name):
          src = [b.value for b in s.body if isinstance(b, ast.Assign) and
                 text(b.targets[0]) == inner.id]
          inner = src[0] if len(src) == 1 else None
        src_ok = inner is not None and text(inner) == kv + ".formula"
        stores = [b for b in s.body if isinstance(b, ast.Assign) and
                  isinstance(b.targets[0], ast.Subscript) and
                  text(b.targets[0].slice) == kv]
        if src_ok and text(reps[0].args[1]) == pv and len(stores) == 1:
          retvar = text(stores[0].targets[0].value)
          ok = True
  rets = [s for s in walk_no_nested(fn.node) if isinstance(s, ast.Return)]
  ok = ok and len(rets) == 1 and text(rets[0].value) == retvar
  run.ob(R3, q, "result[col_rec] = Replacer(Text(col_rec.formula), patches).get_text()",
         "the patches of a record are applied to that record's own formula text and returned "
         "under it", ok, fi=fn.fi)
  # producer side: the tuple layout of parse_grist_names.make_tuple
  mk = w.fn("codebuilder.parse_grist_names.make_tuple")
  mps = mk.fi.params()
  tuples = [s.value for s in walk_no_nested(mk.node) if isinstance(s, ast.Return) and
            isinstance(s.value, ast.Tuple)]
  ok = len(mps) == 4 and len(tuples) == 1 and len(tuples[0].elts) == 4 and \
      [text(e) for e in tuples[0].elts[2:]] == mps[2:] and \
      isinstance(tuples[0].elts[1], ast.Attribute) and tuples[0].elts[1].attr == "start"
  run.ob(R3, mk.qualname, "return (in_value, in_patch.start, table_id, col_id)",
         "the producer reports (formula owner, start offset in the original formula, table, "
         "column) in the order the consumer unpacks", ok, fi=mk.fi)
  nm = [s for s in walk_no_nested(mk.node) if isinstance(s, ast.Assign) and
        isinstance(s.value, ast.BoolOp) and isinstance(s.value.op, ast.Or)]
  ok = len(nm) == 1 and [text(v) for v in nm[0].value.values] == [mps[3], mps[2]]
  asserts = [s for s in walk_no_nested(mk.node) if isinstance(s, ast.Assert)]
  if ok:
    nv = text(nm[0].targets[0])
    ok = any(text(a.test) in ("%s - %s == len(%s)" % (mps[1], mps[0], nv),
                              "len(%s) == %s - %s" % (nv, mps[1], mps[0])) for a in asserts)
  run.ob(R3, mk.qualname, "name = col_id or table_id; assert end - start == len(name)",
         "producer and consumer measure the same old name", ok, fi=mk.fi)


# ---------------------------------------------------------------------------------- self-test
U = "sandbox/grist/useractions.py"
CB = "sandbox/grist/codebuilder.py"

_SEEDED_OLD = """    update_pairs = []
    for i, rec, values in self._bulk_action_iter(table_id, row_ids, col_values):
      update_pairs.append((rec, values))
      if has_diff_value(values, 'tableId', rec.tableId):
        # Disallow renaming of summary tables.
        if rec.summarySourceTable and self._indirection_level == DIRECT_ACTION:
          raise ValueError("RenameTable: cannot rename a summary table")

        # Find a non-conflicting name, except that we don't need to avoid the old name.
        avoid = avoid_tableid_set - {rec.tableId}
        new_table_id = identifiers.pick_table_ident(values['tableId'], avoid=avoid)
        values['tableId'] = new_table_id
        avoid_tableid_set.add(new_table_id)
        if new_table_id != rec.tableId:
          # If there are summary tables based on this table, rename them to appropriate names.
          for st in rec.summaryTables:
            groupby_col_ids = [c.colId for c in st.columns if c.summarySourceCol]
            st_table_id = summary.encode_summary_table_name(new_table_id, groupby_col_ids)
            st_table_id = identifiers.pick_table_ident(st_table_id, avoid=avoid_tableid_set)
            avoid_tableid_set.add(st_table_id)
            update_pairs.append((st, {'tableId': st_table_id}))

    # If other tables have columns referring to this table, generate actions to modify their types
    # (e.g. from 'Ref:Foo' to 'Ref:Bar'). We change type to 'Int' temporarily, to avoid having
    # invalid references, then change to correct type. Undo involves a similar sequence of events.
    backref_cols = self._collect_back_references(table_rec for table_rec, _ in update_pairs)
    col_updates = OrderedDict()
    table_renames = {t.tableId: values['tableId'] for t, values in update_pairs
               if has_diff_value(values, 'tableId', t.tableId)}
"""
_SEEDED_NEW = """    update_pairs = []
    table_renames = {}
    for i, rec, values in self._bulk_action_iter(table_id, row_ids, col_values):
      update_pairs.append((rec, values))
      if has_diff_value(values, 'tableId', rec.tableId):
        # Disallow renaming of summary tables.
        if rec.summarySourceTable and self._indirection_level == DIRECT_ACTION:
          raise ValueError("RenameTable: cannot rename a summary table")

        # Find a non-conflicting name, except that we don't need to avoid the old name.
        avoid = avoid_tableid_set - {rec.tableId}
        new_table_id = identifiers.pick_table_ident(values['tableId'], avoid=avoid)
        values['tableId'] = new_table_id
        avoid_tableid_set.add(new_table_id)
        if new_table_id != rec.tableId:
          table_renames[rec.tableId] = new_table_id
          # If there are summary tables based on this table, rename them to appropriate names.
          for st in rec.summaryTables:
            groupby_col_ids = [c.colId for c in st.columns if c.summarySourceCol]
            st_table_id = summary.encode_summary_table_name(new_table_id, groupby_col_ids)
            st_table_id = identifiers.pick_table_ident(st_table_id, avoid=avoid_tableid_set)
            avoid_tableid_set.add(st_table_id)
            update_pairs.append((st, {'tableId': st_table_id}))

    # If other tables have columns referring to this table, generate actions to modify their types
    # (e.g. from 'Ref:Foo' to 'Ref:Bar'). We change type to 'Int' temporarily, to avoid having
    # invalid references, then change to correct type. Undo involves a similar sequence of events.
    backref_cols = self._collect_back_references(table_rec for table_rec, _ in update_pairs)
    col_updates = OrderedDict()
"""

_ORDER_OLD = '''    if table_renames:
      # Build up a dictionary mapping col_ref of each affected formula to the new formula text.
      formula_updates = self._prepare_formula_renames(
        {(old, None): new for (old, new) in table_renames.items()})
      # Add the changes to the dict of col_updates. sort for reproducible order.
      for col_rec, new_formula in sorted(formula_updates.items()):
        col_updates.setdefault(col_rec, {})['formula'] = new_formula

    # If a table changes to onDemand, any empty columns (formula columns with no set formula)
    # should be converted to non-formula text columns to avoid SQL errors when they are updated.
    on_demand_set = [t for t, values in update_pairs
      if has_diff_value(values, 'onDemand', t.onDemand) and values['onDemand']]
    empty_cols = [c for t in on_demand_set for c in t.columns if c.isFormula and not c.formula]
    for col in empty_cols:
      col_updates.setdefault(col, {}).update(isFormula=False, type='Text')

    for col, values in col_updates.items():
      if 'type' in values:
        self.doModifyColumn(col.tableId, col.colId, {'type': 'Int'})

    make_acl_updates = acl.prepare_acl_table_renames(self, table_renames)

    # Collect all the table renames, and do the actual schema actions to apply them.
    for tbl, values in update_pairs:
      if has_diff_value(values, 'tableId', tbl.tableId):
        self._do_doc_action(actions.RenameTable(tbl.tableId, values['tableId']))
'''
_ORDER_NEW = '''    # If a table changes to onDemand, any empty columns (formula columns with no set formula)
    # should be converted to non-formula text columns to avoid SQL errors when they are updated.
    on_demand_set = [t for t, values in update_pairs
      if has_diff_value(values, 'onDemand', t.onDemand) and values['onDemand']]
    empty_cols = [c for t in on_demand_set for c in t.columns if c.isFormula and not c.formula]
    for col in empty_cols:
      col_updates.setdefault(col, {}).update(isFormula=False, type='Text')

    for col, values in col_updates.items():
      if 'type' in values:
        self.doModifyColumn(col.tableId, col.colId, {'type': 'Int'})

    make_acl_updates = acl.prepare_acl_table_renames(self, table_renames)

    # Collect all the table renames, and do the actual schema actions to apply them.
    for tbl, values in update_pairs:
      if has_diff_value(values, 'tableId', tbl.tableId):
        self._do_doc_action(actions.RenameTable(tbl.tableId, values['tableId']))

    if table_renames:
      # Build up a dictionary mapping col_ref of each affected formula to the new formula text.
      formula_updates = self._prepare_formula_renames(
        {(old, None): new for (old, new) in table_renames.items()})
      # Add the changes to the dict of col_updates. sort for reproducible order.
      for col_rec, new_formula in sorted(formula_updates.items()):
        col_updates.setdefault(col_rec, {})['formula'] = new_formula
'''

VARIANTS = [
  # the independently seeded bug: summary tables renamed with their source miss the rename map
  ("seeded-summary-tables-missing-from-table-renames", U, _SEEDED_OLD, _SEEDED_NEW, "C16-R1"),
  ("table-renames-skip-summary-tables", U,
   "               if has_diff_value(values, 'tableId', t.tableId)}",
   "               if has_diff_value(values, 'tableId', t.tableId) and not t.summarySourceTable}",
   "C16-R1"),
  ("column-renames-wrong-table-key", U,
   "    renames = {(c.parentId.tableId, c.colId): values['colId']",
   "    renames = {(table_id, c.colId): values['colId']", "C16-R1"),
  ("column-renames-filter-on-label", U,
   "               for c, values in col_updates.items()\n"
   "               if has_diff_value(values, 'colId', c.colId)}",
   "               for c, values in col_updates.items()\n"
   "               if has_diff_value(values, 'label', c.label)}", "C16-R1"),
  ("table-formula-updates-not-merged", U,
   "        col_updates.setdefault(col_rec, {})['formula'] = new_formula", "        pass",
   "C16-R1"),
  ("column-formula-updates-not-merged", U,
   "        col_updates.setdefault(col_rec, {}).setdefault('formula', new_formula)",
   "        log.debug('formula of %s changes', col_rec)", "C16-R1"),
  ("prepare-after-rename-table", U, _ORDER_OLD, _ORDER_NEW, "C16-R1"),
  ("rename-column-useraction-emits-directly", U,
   "    self._docmodel.update([col], colId=new_col_id)\n    return col.colId",
   "    self._do_doc_action(actions.RenameColumn(table_id, old_col_id, new_col_id))\n"
   "    self._docmodel.update([col], colId=new_col_id)\n    return col.colId", "C16-R1"),
  ("lookupOne-unregistered", CB, "_lookup_method_names = ('lookupOne', 'lookupRecords')",
   "_lookup_method_names = ('lookupRecords',)", "C16-R2"),
  ("find-previous-unregistered", CB,
   "_lookup_find_methods = ('lt', 'le', 'gt', 'ge', 'eq', 'previous', 'next')",
   "_lookup_find_methods = ('lt', 'le', 'gt', 'ge', 'eq', 'next')", "C16-R2"),
  ("find-rank-registered", CB,
   "_lookup_find_methods = ('lt', 'le', 'gt', 'ge', 'eq', 'previous', 'next')",
   "_lookup_find_methods = ('lt', 'le', 'gt', 'ge', 'eq', 'previous', 'next', 'rank')",
   "C16-R2"),
  ("rank-unregistered", CB, "_prev_next_functions = ('PREVIOUS', 'NEXT', 'RANK')",
   "_prev_next_functions = ('PREVIOUS', 'NEXT')", "C16-R2"),
  ("all-comprehension-tip-inactive", CB,
   "InferLookupComprehension, InferAllReference, InferAllComprehension,",
   "InferLookupComprehension, InferAllReference,", "C16-R2"),
  ("patch-length-of-new-name", U, "pos, pos + len(name), new_name)",
   "pos, pos + len(new_name), new_name)", "C16-R3"),
  ("old-name-prefers-table", U, "        name = col_id or table_id\n        formula = col_rec.formula",
   "        name = table_id or col_id\n        formula = col_rec.formula", "C16-R3"),
  ("rename-looked-up-by-column-only", U, "new_name = renames.get((table_id, col_id))",
   "new_name = renames.get((None, col_id))", "C16-R3"),
  ("producer-tuple-swapped", CB, "return (in_value, in_patch.start, table_id, col_id)",
   "return (in_value, in_patch.start, col_id, table_id)", "C16-R3"),
]
