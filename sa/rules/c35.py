"""C35 SCHEDULE yields exactly the scheduled occurrences -- parsing tables only (DESIGN.md 4/C35).

The module's regexes are read through the standard library's own `re._parser`; the module-level
tables are evaluated as constants from the AST. Nothing of functions/schedule.py is executed."""
import ast
import re
from ..fn import World
from ..index import AnalysisError, dotted
from ..astutil import text, short, endswith, calls_in, walk_no_nested, enclosing_chain
from ..callgraph import CallGraph
from . import _h_D as H

EXPLANATION = (
  "Decides, for the parsing half of SCHEDULE: (R1) the slot-type tables agree -- keys of "
  "_SLOT_PARSERS = top-level named groups of _SLOT_RE, and every slot type allowed for a unit "
  "(and the default) is one of them; (R2) every m.group(<name>) names a group of the regex that "
  "matched, inside the slot type's own group for a slot parser, and every int(...) of a group is "
  "applied to a digits-only group that is certain to have matched (mandatory, `or <default>`, or "
  "the other arm of a two-way alternation tested first); (R3) the unit tables agree -- "
  "_round_down_to_unit, evaluated unit by unit (conditional chain, if/return sequence or a "
  "per-unit table of fields), gives every unit of _UNITS its own arm that clears exactly the "
  "time-of-day fields finer than the unit (microseconds included) and turns any other unit "
  "into a ValueError, "
  "dict(zip(..)) unit maps have equal lengths and land in _UNITS, interval aliases and the units "
  "_parse_interval lets through are units, Delta.add_interval handles months/years itself and "
  "hands only timedelta keywords to timedelta; (R4) every raise reachable from Schedule.__init__ "
  "raises ValueError and every lookup in a module-level table is guarded by a membership test; "
  "(R5) because unit letters that differ only in case mean different units (read from "
  "_SHORT_UNITS), the Schedule evaluated by SCHEDULE(spec) is parsed from the spec as written: "
  "no case folding between the spec and the regex match, and a memo of parsed schedules is keyed "
  "by the spec itself. Conditions are read from the CFG (either polarity, early exits, chained "
  "conditional expressions or if/return sequences), operands through the locals that name them. "
  "(R6) Delta.add_to adds the months to the unshifted base and the timedelta afterwards (the two "
  "do not commute). "
  "Not decided: the rest of the series arithmetic (DATEADD itself, the slot ordering assumption), "
  "overflow of huge counts.")

M = "functions.schedule"
TIMEDELTA_KWARGS = {"weeks", "days", "hours", "minutes", "seconds", "milliseconds",
                    "microseconds"}     # datetime.timedelta's keyword parameters (language fact)


def check(run, repo, tier):
  w = World(repo)
  mod = repo.module(M)
  ce = H.ConstEval(mod)
  r1_slot_tables(run, w, mod, ce)
  r2_groups(run, w, mod, ce)
  r3_units(run, w, mod, ce)
  r4_errors(run, w, mod, ce)
  r5_exact_text(run, w, mod, ce)
  r6_months_first(run, w, mod)


def _roles(w, mod):
  """The private module functions the rules anchor on, found by what they do (names are hints):
    parse_slot      dispatches through _SLOT_PARSERS[...]
    parse_interval  matches _INTERVAL_RE
    round_down      called by Schedule.series with the interval unit"""
  key = id(w)
  if key in _ROLE_CACHE:
    return _ROLE_CACHE[key][0]
  funcs = list(mod.functions.values())
  out = {}
  out["parse_slot"] = H._pick(
    [f for f in funcs if any(isinstance(y, ast.Subscript) and text(y.value) == "_SLOT_PARSERS"
                             for y in walk_no_nested(f.node))], "_parse_slot",
    "%s: the function that dispatches on the slot type" % M)
  out["parse_interval"] = H._pick(
    [f for f in funcs if any(isinstance(c.func, ast.Attribute) and
                             text(c.func.value) == "_INTERVAL_RE" for c in calls_in(f.node.body))],
    "_parse_interval", "%s: the function that parses the interval" % M)
  series = w.repo.func(M + ".Schedule.series")
  out["round_down"] = H._pick(
    [mod.functions[dotted(c.func)] for c in calls_in(series.node.body)
     if dotted(c.func) in mod.functions and len(c.args) == 2 and
     text(c.args[1]).endswith("_interval_unit")], "_round_down_to_unit",
    "%s: the function that rounds the start down to the interval unit" % M)
  _ROLE_CACHE[key] = (out, w)
  return out


_ROLE_CACHE = {}


def r6_months_first(run, w, mod):
  """Calendar months and a timedelta do not commute (Apr 1 + 1 month + 30 days is May 31, Apr 1
  + 30 days + 1 month is Jun 1), so the class that keeps both parts must add the months to the
  unshifted base and the timedelta afterwards."""
  R6 = run.rule("C35-R6", "a delta of months and a timedelta is applied months-first: the date "
                "handed to the month addition does not already contain the timedelta part",
                floor=1)
  sites = []
  for cls in mod.classes.values():
    init = cls.methods.get("__init__")
    if init is None:
      continue
    td_fields = {t.attr for s_ in ast.walk(init.node) if isinstance(s_, ast.Assign)
                 for t in s_.targets if isinstance(t, ast.Attribute) and text(t.value) == "self" and
                 isinstance(s_.value, ast.Call) and (dotted(s_.value.func) or "").endswith("timedelta")}
    if not td_fields:
      continue
    for fi in cls.methods.values():
      for c in calls_in(fi.node.body):
        mk = [k for k in c.keywords if k.arg == "months" and
              isinstance(k.value, ast.Attribute) and text(k.value.value) == "self"]
        if mk and c.args:
          sites.append((fi, c, td_fields))
  need_ = sites or None
  if need_ is None:
    raise AnalysisError("%s: the month addition of the months+timedelta class (a call with "
                        "months=self.<field>) not identified in the code as it is now written: "
                        "cannot decide" % M)
  n = 0
  for fi, c, td_fields in sites:
    if any(isinstance(x, (ast.For, ast.While, ast.Try)) for x in walk_no_nested(fi.node)):
      raise AnalysisError("%s: loop or try around the month addition: cannot decide" % fi.qualname)

    def has_td(e, tainted):
      for x in ast.walk(e):
        if isinstance(x, ast.Attribute) and text(x.value) == "self" and x.attr in td_fields:
          return True
        if isinstance(x, ast.Name) and x.id in tainted:
          return True
      return False
    tainted = set()
    stmts = sorted([x for x in walk_no_nested(fi.node) if isinstance(x, (ast.Assign, ast.AugAssign))
                    and x.lineno < c.lineno or
                    (isinstance(x, (ast.Assign, ast.AugAssign)) and x.lineno == c.lineno and
                     x.col_offset < c.col_offset and not any(y is c for y in ast.walk(x)))],
                   key=lambda x: (x.lineno, x.col_offset))
    for st in stmts:
      tg = st.targets if isinstance(st, ast.Assign) else [st.target]
      names = {t.id for t in tg if isinstance(t, ast.Name)}
      if has_td(st.value, tainted):
        tainted |= names            # may-contain: an assignment on any earlier branch counts
      elif isinstance(st, ast.Assign) and not _conditional(fi.node, st):
        tainted -= names
    ok = not has_td(c.args[0], tainted)
    run.ob(R6, fi.qualname, "%s" % short(c, 70),
           "the base of the month addition is free of the timedelta part (months first, then the "
           "timedelta)", ok, fi=fi, node=c)
    n += 1
  return n


def _conditional(fnode, st):
  """is `st` nested in an if (so a clean re-assignment may not happen on every path)"""
  return not any(x is st for x in fnode.body)


def _keep(mod, ce):
  """module helpers the rules look into themselves"""
  names = {"_parse_interval", "_parse_slot", "_round_down_to_unit", "_fail"}
  for v in _ROLE_CACHE.values():
    names |= {f.name for f in v[0].values()}
  return tuple(sorted(names)) + tuple(_func_names_dict(ce, mod, "_SLOT_PARSERS").values())


def _regex(ce, name):
  v = ce.name(name)
  if not isinstance(v, H.Regex):
    raise AnalysisError("%s.%s is not a compiled regex constant" % (M, name))
  return v


def _func_names_dict(ce, mod, name):
  """{key: function name} for a module-level dict literal whose values are function names."""
  node = mod.assigns.get(name)
  if not isinstance(node, ast.Dict):
    raise AnalysisError("%s.%s is not a dict literal" % (M, name))
  out = {}
  for k, v in zip(node.keys, node.values):
    if not (isinstance(k, ast.Constant) and isinstance(v, ast.Name) and v.id in mod.functions):
      raise AnalysisError("%s.%s: entry %s is not <str>: <module function>" % (M, name, short(v)))
    if k.value in out:
      raise AnalysisError("%s.%s: duplicate key %r" % (M, name, k.value))
    out[k.value] = v.id
  return out


def r1_slot_tables(run, w, mod, ce):
  R1 = run.rule("C35-R1", "slot-type tables agree: parsers = top-level groups of the slot regex "
                ">= allowed slot types", floor=8)
  rx = _regex(ce, "_SLOT_RE")
  groups = H.regex_groups(rx)
  top = {n for n, g in groups.items() if g.parent is None and isinstance(n, str)}
  parsers = _func_names_dict(ce, mod, "_SLOT_PARSERS")
  site = "%s._SLOT_PARSERS" % M
  run.ob(R1, site, "keys == top-level named groups of _SLOT_RE",
         "each alternative of the slot regex has a parser and each parser an alternative: "
         "parsers %s, groups %s" % (sorted(parsers), sorted(top)), set(parsers) == top,
         fi=None)
  # the alternatives are alternatives of one anchored branch: exactly one slot type per match
  tops = [groups[n] for n in top]
  same_branch = len({g.branch_path[:1] and g.branch_path[0][0] for g in tops}) == 1 and \
      all(len(g.branch_path) == 1 for g in tops) and \
      len({g.branch_path[0][1] for g in tops}) == len(tops)
  run.ob(R1, "%s._SLOT_RE" % M, "top-level groups are the alternatives of one alternation",
         "a slot part matches exactly one slot type (the parser loop stops at the first group "
         "that matched)", same_branch, fi=None)
  allowed = ce.name("_ALLOWED_SLOTS_BY_UNIT")
  if not isinstance(allowed, H.OrderedPairs):
    raise AnalysisError("%s._ALLOWED_SLOTS_BY_UNIT is not a dict literal" % M)
  units = set(ce.name("_UNITS"))
  for unit, types in allowed:
    ok = isinstance(types, tuple) and set(types) <= set(parsers) and unit in units
    run.ob(R1, "%s._ALLOWED_SLOTS_BY_UNIT" % M, "%r: %r" % (unit, types),
           "the slot types allowed for a unit are slot types that exist (m.group(slot_type) and "
           "_SLOT_PARSERS[slot_type] are then defined) and the unit is a unit", ok, fi=None)
  # the default used by _parse_slot when the unit is not listed, and the dispatch
  ps = w.fn_of(_roles(w, mod)["parse_slot"])
  v = H.View(ps)
  run = H.Guarded(run, v, keep=_keep(mod, ce))
  cfg = ps.cfg
  disp = [(n, c, v.res(c.func)) for (n, c, nm) in ps.calls()
          if isinstance(v.res(c.func), ast.Subscript) and
          text(v.res(c.func).value) == "_SLOT_PARSERS"]
  if len(disp) != 1:
    raise AnalysisError("%s._parse_slot: one dispatch _SLOT_PARSERS[<type>](<match>) expected" % M)
  dn, dc, dfunc = disp[0]
  dkey_at = v.resolve(dc.func)[1]
  loops = [l for l in v.enclosing_loops(dn.stmt) if isinstance(l, ast.For) and
           isinstance(l.target, ast.Name) and
           v.t(dfunc.slice, v.loop_map(l), at=dkey_at) == "_v0"]
  if len(loops) != 1:
    raise AnalysisError("%s._parse_slot: the dispatch key is not the variable of a loop over the "
                        "allowed slot types" % M)
  lp = loops[0]
  tm = v.loop_map(lp)
  allowed_e = v.x(lp.iter)
  dflt = None
  if isinstance(allowed_e, ast.BoolOp) and isinstance(allowed_e.op, ast.Or) and \
      len(allowed_e.values) == 2 and "_ALLOWED_SLOTS_BY_UNIT" in text(allowed_e.values[0]):
    try:
      dflt = ce.ev(allowed_e.values[1])
    except AnalysisError:
      dflt = None
  if dflt is None:
    raise AnalysisError("%s._parse_slot: default slot types not found" % M)
  run.ob(R1, ps.qualname, "default slot types %r" % (dflt,), "the fallback slot types exist",
         isinstance(dflt, tuple) and set(dflt) <= set(parsers), fi=ps.fi)
  unit_p = ps.fi.params()[1]
  run.ob(R1, ps.qualname, "allowed = _ALLOWED_SLOTS_BY_UNIT.get(%s) or <default>" % unit_p,
         "the slot types tried are those allowed for the unit of the interval",
         text(allowed_e.values[0]) == "_ALLOWED_SLOTS_BY_UNIT.get(%s)" % unit_p, fi=ps.fi)
  # the dispatch uses the same name for the group and the parser, on the match of _SLOT_RE
  margs = [v.t(a) for a in dc.args]
  mvar = margs[0] if len(margs) == 1 and not dc.keywords else None
  is_match = mvar is not None and mvar.startswith("_SLOT_RE.match(")
  facts = v.facts_at(dc, start=tm.head, mapping=tm)
  guarded = mvar is not None and ("%s.group(_v0)" % mvar, True) in facts
  outer = [l for l in v.enclosing_loops(lp)]
  removed = {v.loop_head(l) for l in outer}
  stops = not (cfg.reach_after({dn.id}, removed=removed) & {tm.head})
  # no allowed type matched: every way out of the loop that did not dispatch raises
  # (a `found` flag cleared before the loop and set where the parser runs is followed)
  esc = H.flag_path(cfg, tm.head, {dn.id}, removed | {cfg.exit.id}, after=True,
                    known=H.flags_known_at(v, tm.head))
  ok = is_match and guarded and stops and esc is None
  run.ob(R1, ps.qualname, "for t in allowed: if m.group(t): _SLOT_PARSERS[t](m); break / else: "
         "raise", "the parser run is the one of the group that matched, and a slot type that is "
         "not allowed for the unit is rejected", ok,
         witness=None if ok else "match=%s guarded=%s stops=%s escape=%s"
         % (is_match, guarded, stops, cfg.describe_path(esc) if esc else None), fi=ps.fi)


def _match_regex(v, fn, recv, slot_parsers):
  """Which regex constant produced the match object `recv` (receiver of .group) in fn?"""
  e = v.res(recv)
  if isinstance(e, ast.Call) and isinstance(e.func, ast.Attribute) and \
      e.func.attr in ("match", "search", "fullmatch") and isinstance(e.func.value, ast.Name):
    return e.func.value.id
  if isinstance(e, ast.Name) and fn.fi.name in slot_parsers.values() and fn.fi.params() and \
      fn.fi.params()[0] == e.id and not v._nonplain_defs(e.id) - {v.ENTRY}:
    return "_SLOT_RE"     # called as _SLOT_PARSERS[t](m) with m = _SLOT_RE.match(part) (R1)
  return None


def _is_group_read(c):
  return isinstance(c, ast.Call) and isinstance(c.func, ast.Attribute) and \
      c.func.attr == "group" and len(c.args) == 1 and not c.keywords and \
      isinstance(c.args[0], ast.Constant) and isinstance(c.args[0].value, str)


def r2_groups(run, w, mod, ce):
  R2 = run.rule("C35-R2", "group names read from a match exist in the regex that matched (inside "
                "the parser's own slot type) and int() is applied only to digit groups certain to "
                "have matched", floor=20)
  parsers = _func_names_dict(ce, mod, "_SLOT_PARSERS")
  owner = {f: k for k, f in parsers.items()}
  cache = {}
  for fi in sorted(mod.functions.values(), key=lambda f: f.node.lineno):
    fn = w.fn_of(fi)
    reads = [c for c in calls_in(fi.node.body) if _is_group_read(c)]
    if not reads:
      continue
    v = H.View(fn)
    rx_of = {}
    for c in reads:
      rname = _match_regex(v, fn, c.func.value, parsers)
      if rname is None:
        raise AnalysisError("%s: cannot tell which regex produced %s"
                            % (fi.qualname, short(c.func.value)))
      if rname not in cache:
        rx = _regex(ce, rname)
        cache[rname] = (rx, H.regex_groups(rx))
      rx_of[id(c)] = rname
      rx, groups = cache[rname]
      g = groups.get(c.args[0].value)
      ok = g is not None
      where = "a group of %s" % rname
      if ok and fi.name in owner:
        # inside the alternative of this parser's slot type
        p = g
        chain = []
        while p is not None:
          chain.append(p.name)
          p = p.parent
        ok = owner[fi.name] in chain[1:]
        where = "a group inside (?P<%s>...) of %s" % (owner[fi.name], rname)
      run.ob(R2, fi.qualname, "<match>.group(%r)" % (c.args[0].value,),
             "the name read is %s (an unknown name raises IndexError/error, another "
             "alternative's group is always None)" % where, ok, fi=fi, node=c)
    # int(...) applications
    for c in calls_in(fi.node.body):
      if not (dotted(c.func) == "int" and len(c.args) == 1):
        continue
      _int_application(run, R2, fn, v, c, rx_of, cache, owner)


def _group_of_expr(v, e):
  """(group read call, guarded by `or <int>`) for an int() operand, through locals."""
  guarded = False
  e = v.res(e)
  if isinstance(e, ast.BoolOp) and isinstance(e.op, ast.Or) and len(e.values) == 2 and \
      isinstance(e.values[1], ast.Constant) and isinstance(e.values[1].value, int):
    guarded = True
    e = v.res(e.values[0])
  if _is_group_read(e):
    return e, guarded
  return None


def _int_application(run, R2, fn, v, call, rx_of, cache, owner):
  fi = fn.fi
  info = _group_of_expr(v, call.args[0])
  if info is None:
    # int() of something that is not a regex group: nothing to decide here, but say so
    if any(isinstance(x, ast.Call) and isinstance(x.func, ast.Attribute) and x.func.attr == "group"
           for x in ast.walk(v.x(call.args[0]))):
      raise AnalysisError("%s: int() applied to a group expression outside the supported idioms: "
                          "%s" % (fi.qualname, short(call)))
    return
  read, guarded = info
  rname = rx_of.get(id(read))
  if rname is None:
    raise AnalysisError("%s: int() of a group read that is not part of this function"
                        % fi.qualname)
  gname = read.args[0].value
  rx, groups = cache[rname]
  g = groups.get(gname)
  if g is None:
    run.ob(R2, fi.qualname, short(call), "int() of an unknown group", False, fi=fi, node=call)
    return
  digits = H.body_is_digits(g.body, rx.flags)
  # certain to have matched?
  scope_top = owner.get(fi.name)
  certain, why = False, ""
  if guarded:
    certain, why = True, "`or <default>` covers the unmatched case"
  else:
    mand = _mandatory_within(g, scope_top)
    if mand:
      certain, why = True, "the group takes part in every match of its slot type"
    elif (v.t(read), True) in v.facts_at(call) and H.body_min_width(g.body) >= 1:
      certain, why = True, "evaluated only where the group text is known to be non-empty"
    else:
      alt = _other_arm_tested(v, call, read, g, groups)
      if alt is not None:
        certain, why = True, "reached only when %s is empty, the other arm of the same " \
            "alternation" % alt
  run.ob(R2, fi.qualname, "int(<match>.group(%r)%s)" % (gname, " or <int>" if guarded else ""),
         "int() is given text that consists of digits only "
         "(ValueError-free) and is never None (TypeError-free): digits=%s, matched: %s"
         % (digits, why or "NOT ESTABLISHED"), digits and certain, fi=fi, node=call)


def _mandatory_within(g, scope_top):
  """g takes part in every match in which the group named scope_top (or the whole regex when
  None) takes part."""
  p = g
  while p is not None:
    if p.name == scope_top and scope_top is not None:
      return True
    if not p.mandatory:
      return False
    p = p.parent
  return scope_top is None


def _other_arm_tested(v, call, read, g, groups):
  """int(x) is evaluated only where the group of the *other* arm of the two-way alternation g
  belongs to is known to be falsy (`if other: ... else: int(x)`, `if not other: int(x)`, an early
  return ...), both arms being made of that one group up to the point where they differ, and the
  other group unable to match the empty string (so falsy means: did not take part)."""
  recv = v.t(read.func.value)
  for (a, pol) in v.facts_at(call):
    if pol is not False:
      continue
    for name, other in groups.items():
      if not isinstance(name, str) or other is g:
        continue
      if a != "%s.group(%r)" % (recv, name):
        continue
      if other.parent is not g.parent or len(g.branch_path) != 1 or \
          len(other.branch_path) != 1:
        continue
      (ba, ia, na), (bb, ib, nb) = g.branch_path[0], other.branch_path[0]
      if ba != bb or ia == ib or na != 2:
        continue
      if H.body_min_width(other.body) < 1:
        continue       # a group that can match '' is falsy although it matched
      if not (g.arm_mandatory and other.arm_mandatory and g.branch_certain):
        continue
      return name
  return None


def r3_units(run, w, mod, ce):
  R3 = run.rule("C35-R3", "unit tables agree: rounding chain = _UNITS, zip maps have equal "
                "lengths, aliases and parsed units are units, add_interval/timedelta keywords",
                floor=10)
  units = ce.name("_UNITS")
  if not (isinstance(units, tuple) and all(isinstance(u, str) for u in units)):
    raise AnalysisError("%s._UNITS is not a tuple of names" % M)
  rd = w.fn_of(_roles(w, mod)["round_down"])
  _rounding(run, R3, w, mod, ce, rd, units)
  vu = ce.name("_VALID_UNITS")
  run.ob(R3, "%s._VALID_UNITS" % M, "== set(_UNITS)", "the units _parse_interval lets through "
         "are exactly the units the rest of the module handles", vu == set(units), fi=None)
  for name in ("_SINGULAR_UNITS", "_SHORT_UNITS"):
    z = ce.name(name)
    if not isinstance(z, H.ZipDict):
      raise AnalysisError("%s.%s is not dict(zip(..)) any more" % (M, name))
    ok = len(z.a) == len(z.b) and len(set(z.a)) == len(z.a) and set(z.b) <= set(units)
    run.ob(R3, "%s.%s" % (M, name), "dict(zip(%d names, %d units))" % (len(z.a), len(z.b)),
           "zip() silently truncates: both sides have the same length, the names are distinct "
           "and every value is a unit", ok, fi=None)
  al = ce.name("_INTERVAL_ALIASES")
  for k, v in al:
    ok = isinstance(v, tuple) and len(v) == 2 and isinstance(v[0], int) and v[0] >= 1 and \
        v[1] in units
    run.ob(R3, "%s._INTERVAL_ALIASES" % M, "%r: %r" % (k, v), "an alias stands for a positive "
           "count of a known unit", ok, fi=None)
  # _parse_interval: the unit returned is known to be a valid unit
  run0 = run
  pi = w.fn_of(_roles(w, mod)["parse_interval"])
  pv = H.View(pi)
  run = H.Guarded(run0, pv, keep=_keep(mod, ce))
  cfg = pi.cfg
  rets = [(n, pv.res(n.stmt.value)) for n in cfg.nodes if n.kind == "return" and
          n.stmt.value is not None]
  pairs = [(n, e) for (n, e) in rets if isinstance(e, ast.Tuple) and len(e.elts) == 2]
  ok = bool(pairs)
  for (n, e) in pairs:
    at = pv.resolve(n.stmt.value)[1]
    unit_t = pv.t(e.elts[1], at=at)
    ok = ok and ("%s in _VALID_UNITS" % unit_t, True) in pv.cfg_facts(n.id)
  run.ob(R3, pi.qualname, "if unit not in _VALID_UNITS: raise", "a parsed interval unit is a "
         "unit before it is returned", ok, fi=pi.fi)
  # Delta.add_interval: months / years by hand, everything else is a timedelta keyword
  ai = w.fn(M + ".Delta.add_interval")
  av = H.View(ai)
  run = H.Guarded(run0, av, keep=_keep(mod, ce))
  up = ai.fi.params()[2]
  td = [c for c in calls_in(ai.node.body) if dotted(c.func) == "timedelta" and
        any(k.arg is None for k in c.keywords)]
  own = set()
  ok = len(td) == 1
  if ok:
    kw = [k.value for k in td[0].keywords if k.arg is None]
    d = av.res(kw[0]) if len(kw) == 1 else None
    ok = isinstance(d, ast.Dict) and len(d.keys) == 1 and av.t(d.keys[0]) == up and \
        not td[0].args and all(k.arg is None for k in td[0].keywords)
    for (atom, pol) in av.facts_at(td[0]):
      c = H.eq_const(atom)
      ic = H.in_consts(atom)
      if c is not None and c[0] == up and pol is False:
        own.add(c[1])
      elif ic is not None and ic[0] == up and pol is False:
        own.update(ic[1])
      else:
        ok = False       # the timedelta arm is restricted by something else
  ok = ok and (set(units) - own) <= TIMEDELTA_KWARGS and own <= set(units)
  run.ob(R3, ai.qualname, "units handled by hand %s, the rest passed as timedelta(**{unit: n})"
         % sorted(own), "every unit that is not handled explicitly is a keyword datetime."
         "timedelta accepts (anything else would be a TypeError)", ok, fi=ai.fi)


TIME_FIELDS = ("hour", "minute", "second", "microsecond")   # datetime's time-of-day fields,
OWN_FIELD = {"hours": "hour", "minutes": "minute", "seconds": "second"}   # coarse to fine


def _finer_fields(unit):
  """time-of-day fields strictly finer than the unit (all of them for a day or longer)"""
  if unit in OWN_FIELD:
    return set(TIME_FIELDS[TIME_FIELDS.index(OWN_FIELD[unit]) + 1:])
  return set(TIME_FIELDS)


class _Undecided(Exception):
  pass


def _cond_value(test, unit_param, u, ce):
  """Truth value of a condition of _round_down_to_unit for the concrete unit u."""
  def val(e):
    if isinstance(e, ast.Constant):
      return e.value
    if isinstance(e, ast.Name) and e.id == unit_param:
      return u
    if isinstance(e, (ast.Tuple, ast.List, ast.Set)):
      return [val(x) for x in e.elts]
    if isinstance(e, ast.Name):
      c = ce.name(e.id)
      if isinstance(c, H.OrderedPairs):
        return c.keys()
      if isinstance(c, H.ZipDict):
        return c.pairs().keys()
      if isinstance(c, (tuple, list, set, frozenset)):
        return list(c)
    raise _Undecided(short(e))
  if isinstance(test, ast.UnaryOp) and isinstance(test.op, ast.Not):
    return not _cond_value(test.operand, unit_param, u, ce)
  if isinstance(test, ast.BoolOp):
    vals = [_cond_value(x, unit_param, u, ce) for x in test.values]
    return all(vals) if isinstance(test.op, ast.And) else any(vals)
  if isinstance(test, ast.Compare) and len(test.ops) == 1:
    l, r = val(test.left), val(test.comparators[0])
    op = test.ops[0]
    if isinstance(op, ast.Eq):
      return l == r
    if isinstance(op, ast.NotEq):
      return l != r
    if isinstance(op, ast.In):
      return l in r
    if isinstance(op, ast.NotIn):
      return l not in r
  raise _Undecided(short(test))


def _reset_fields(e, unit_param, u, dparam, ce):
  """(kind, fields set to zero, problems) of the rounded value for unit u."""
  if isinstance(e, ast.Call) and dotted(e.func) in ("datetime", "datetime.datetime"):
    kws = {k.arg for k in e.keywords}
    if len(e.args) > 3 or (kws & set(TIME_FIELDS)) or None in kws:
      raise AnalysisError("_round_down_to_unit: datetime(...) form outside the subset: %s"
                          % short(e))
    probs = []
    want = {"years": ["%s.year" % dparam, "1", "1"],
            "months": ["%s.year" % dparam, "%s.month" % dparam, "1"]}.get(u)
    if want is not None and [text(a) for a in e.args] != want:
      probs.append("date part %s" % [text(a) for a in e.args])
    return "new", set(TIME_FIELDS), probs
  if isinstance(e, ast.Call) and isinstance(e.func, ast.Attribute) and e.func.attr == "replace" \
      and not e.args:
    if not any(isinstance(y, ast.Name) and y.id == dparam for y in ast.walk(e.func.value)):
      raise AnalysisError("_round_down_to_unit: replace() is not applied to the given time: %s"
                          % short(e))
    fields, probs = {}, []
    for k in e.keywords:
      if k.arg is not None:
        if not isinstance(k.value, ast.Constant):
          raise AnalysisError("_round_down_to_unit: non-constant field in %s" % short(e))
        fields[k.arg] = k.value.value
      else:
        x = k.value
        if not (isinstance(x, ast.Subscript) and isinstance(x.value, ast.Name)):
          raise AnalysisError("_round_down_to_unit: **%s is outside the subset" % short(x))
        key = x.slice.value if isinstance(x.slice, ast.Constant) else \
            (u if isinstance(x.slice, ast.Name) and x.slice.id == unit_param else None)
        table = ce.name(x.value.id)
        entry = table.get(key) if isinstance(table, H.OrderedPairs) and key is not None else None
        if not isinstance(entry, H.OrderedPairs):
          raise AnalysisError("_round_down_to_unit: cannot read %s for unit %r" % (short(x), u))
        for kk, vv in entry:
          fields[kk] = vv
    for kk, vv in fields.items():
      if vv != 0:
        probs.append("%s=%r" % (kk, vv))
    base = e.func.value
    if u == "weeks" and "isoweekday() % 7" not in text(base):
      probs.append("not moved back to the start of the week")
    if u != "weeks" and text(base) != dparam:
      probs.append("applied to %s" % short(base))
    return "replace", {k for k, vv in fields.items() if vv == 0}, probs
  raise AnalysisError("_round_down_to_unit: rounded value outside the subset: %s" % short(e))


def _rounding(run, R3, w, mod, ce, rd, units):
  """_round_down_to_unit, decided unit by unit: the arm a unit selects (conditional chain,
  if/return sequence, or a table of fields keyed by the unit) resets exactly the time-of-day
  fields finer than the unit; an unknown unit is a ValueError."""
  rv = H.View(rd)
  dparam, up = rd.fi.params()[:2]
  fails = lambda c: dotted(c.func) in mod.functions and \
      _only_raises_valueerror(mod.functions[dotted(c.func)])
  arms = H.decision_arms(rd.node, never_returns=fails)

  def select(u):
    out = []
    for a in arms:
      try:
        if all(_cond_value(t, up, u, ce) == pol for (t, pol) in a.conds):
          out.append(a)
      except _Undecided as e:
        raise AnalysisError("_round_down_to_unit: test outside the subset: %s" % e)
    return out

  seen = []
  for u in units:
    sel = select(u)
    if len(sel) != 1:
      raise AnalysisError("_round_down_to_unit: %d paths for unit %r" % (len(sel), u))
    a = sel[0]
    e = a.value
    rounded = a.kind == "return" and e is not None and not (isinstance(e, ast.Call) and fails(e))
    if rounded:
      seen.append(u)
    wit = None
    ok = rounded
    if rounded:
      kind, fields, probs = _reset_fields(e, up, u, dparam, ce)
      need = _finer_fields(u)
      ok = not probs and (fields >= need if kind == "new" else fields == need)
      if not ok:
        wit = "resets %s, must reset %s%s" % (sorted(fields), sorted(need),
                                              "; " + "; ".join(probs) if probs else "")
    else:
      wit = "falls through to the error arm"
    run.ob(R3, rd.qualname, "unit %r" % u, "every unit an interval can have is rounded by its "
           "own arm, which clears exactly the time-of-day fields finer than the unit "
           "(microseconds included)", ok, witness=wit, fi=rd.fi, node=a.stmt)
  other = select("\0not-a-unit")
  ok = len(other) == 1
  if ok:
    a = other[0]
    e = a.value
    if a.kind == "raise":
      ok = isinstance(e, ast.Call) and (dotted(e.func) == "ValueError" or fails(e))
    elif a.kind == "return":
      ok = isinstance(e, ast.Call) and fails(e)
    else:
      ok = False
  run.ob(R3, rd.qualname, "any other unit", "an unknown unit is a ValueError", ok, fi=rd.fi)


def _only_raises_valueerror(fi):
  body = [s for s in fi.node.body if not (isinstance(s, ast.Expr) and
                                          isinstance(s.value, ast.Constant))]
  return len(body) == 1 and isinstance(body[0], ast.Raise) and \
      isinstance(body[0].exc, ast.Call) and dotted(body[0].exc.func) == "ValueError"


def r4_errors(run, w, mod, ce):
  R4 = run.rule("C35-R4", "every raise reachable from Schedule.__init__ raises ValueError; "
                "table lookups are guarded by membership tests", floor=14)
  # functions reachable from Schedule.__init__ within the module (dispatch through
  # _SLOT_PARSERS[...] included)
  parsers = _func_names_dict(ce, mod, "_SLOT_PARSERS")
  start = w.repo.func(M + ".Schedule.__init__")
  seen, work = {}, [start]
  while work:
    fi = work.pop()
    if fi.qualname in seen:
      continue
    seen[fi.qualname] = fi
    for c in calls_in(fi.node.body):
      d = dotted(c.func)
      tgt = []
      if d in mod.functions:
        tgt.append(mod.functions[d])
      elif d in mod.classes and "__init__" in mod.classes[d].methods:
        tgt.append(mod.classes[d].methods["__init__"])
      elif isinstance(c.func, ast.Subscript) and text(c.func.value) == "_SLOT_PARSERS":
        tgt.extend(mod.functions[f] for f in parsers.values())
      elif isinstance(c.func, ast.Name) and d not in mod.functions and d not in mod.classes and \
          any(isinstance(x, ast.Assign) and isinstance(x.value, ast.Subscript) and
              text(x.value.value) == "_SLOT_PARSERS" and
              any(isinstance(t, ast.Name) and t.id == c.func.id for t in x.targets)
              for x in walk_no_nested(fi.node)):
        tgt.extend(mod.functions[f] for f in parsers.values())
      elif isinstance(c.func, ast.Attribute):
        for ci in mod.classes.values():
          if c.func.attr in ci.methods and not c.func.attr.startswith("__"):
            tgt.append(ci.methods[c.func.attr])
      work.extend(tgt)
  for q in sorted(seen):
    fi = seen[q]
    for s in walk_no_nested(fi.node):
      if isinstance(s, ast.Raise):
        ok = isinstance(s.exc, ast.Call) and dotted(s.exc.func) == "ValueError"
        run.ob(R4, q, short(s, 70), "an invalid schedule string is reported as ValueError", ok,
               fi=fi, node=s)
  # module-level tables subscripted with a computed key need a membership guard
  tables = {n for n, v in mod.assigns.items() if isinstance(v, ast.Dict) or
            (isinstance(v, ast.Call) and dotted(v.func) == "dict")}
  for q in sorted(seen):
    fi = seen[q]
    fn = w.fn_of(fi)
    v = H.View(fn)
    for n in fn.cfg.nodes:
      for e in n.exprs:
        for x in walk_no_nested(e):
          if isinstance(x, ast.Subscript) and isinstance(x.ctx, ast.Load) and \
              isinstance(x.value, ast.Name) and x.value.id in tables and \
              x.value.id in mod.assigns and not isinstance(x.slice, ast.Constant) and \
              not v.reaching(x.value.id, n.id):
            tname = x.value.id
            if tname == "_SLOT_PARSERS":
              continue      # keyed by an allowed slot type: R1
            key = v.t(x.slice)
            ok = ("%s in %s" % (key, tname), True) in v.facts_at(x)
            run.ob(R4, q, "%s[%s]" % (tname, short(x.slice, 40)), "the lookup is preceded by a "
                   "membership test (a missing key would be a KeyError, not a ValueError)", ok,
                   fi=fi, node=x)
  # positional parts[0] / parts[1] after the length check
  init = w.fn(M + ".Schedule.__init__")
  iv = H.View(init)
  spec = init.fi.params()[1]
  uses = []
  for n in init.cfg.nodes:
    for e in n.exprs:
      for x in walk_no_nested(e):
        if isinstance(x, ast.Subscript) and isinstance(x.ctx, ast.Load) and \
            isinstance(x.slice, ast.Constant) and isinstance(x.slice.value, int):
          base = iv.t(x.value)
          if base.startswith("%s.split(" % spec):
            uses.append((x, base))
  ok = bool(uses)
  for (x, base) in uses:
    f = iv.facts_at(x)
    ok = ok and (("2 == len(%s)" % base, True) in f or ("len(%s) < 2" % base, False) in f or
                 ("1 < len(%s)" % base, True) in f or ("2 <= len(%s)" % base, True) in f)
  run.ob(R4, init.qualname, "if len(parts) != 2: raise ValueError", "a spec without ':' is "
         "rejected before its halves are indexed", ok, fi=init.fi)


# ------------------------------------------------------------------------------------------ R5

CASE_FOLDING = ("lower", "upper", "casefold", "title", "capitalize", "swapcase")


def _folds_case(e):
  return any(isinstance(x, ast.Call) and isinstance(x.func, ast.Attribute) and
             x.func.attr in CASE_FOLDING for x in ast.walk(e))


def _mentions(e, name):
  return any(isinstance(x, ast.Name) and x.id == name for x in ast.walk(e))


def r5_exact_text(run, w, mod, ce):
  """The slot part of a spec is case-sensitive (`+2m` months, `+2M` minutes): the Schedule that
  answers SCHEDULE(spec) must be parsed from the spec's own text, and a memo of parsed schedules
  must not identify specs that differ in letter case."""
  R5 = run.rule("C35-R5", "the schedule that is evaluated is parsed from the exact text of the "
                "spec (no case folding on the way, no memo keyed by a case-folded spec)", floor=3)
  # premise, read from the tables: unit letters that differ only by case mean different units
  sensitive = []
  for name in ("_SHORT_UNITS",):
    z = ce.name(name)
    pairs = z.pairs() if isinstance(z, H.ZipDict) else z
    keys = [k for k, _ in pairs]
    folded = {}
    for k, val in pairs:
      folded.setdefault(k.lower(), set()).add(val)
    if any(len(x) > 1 for x in folded.values()):
      sensitive.append(name)
  if not sensitive:
    run.note("C35-R5: no table distinguishes keys by letter case; nothing to decide")
    return
  sch = w.fn(M + ".SCHEDULE")
  v = H.View(sch)
  spec = sch.fi.params()[0]
  ser = [c for c in calls_in(sch.node.body) if isinstance(c.func, ast.Attribute) and
         c.func.attr == "series"]
  if len(ser) != 1:
    raise AnalysisError("%s.SCHEDULE: one <schedule>.series(...) call expected" % M)
  _provenance(run, R5, w, mod, sch, v, ser[0].func.value, spec, 0)
  # inside the parser: spec -> slot texts -> regex match, unfolded
  init = w.fn(M + ".Schedule.__init__")
  iv = H.View(init)
  ispec = init.fi.params()[1]
  calls = [c for c in calls_in(init.node.body)
           if dotted(c.func) == _roles(w, mod)["parse_slot"].name]
  if len(calls) != 1:
    raise AnalysisError("%s.Schedule.__init__: one _parse_slot call expected" % M)
  a0 = iv.arg(calls[0], 0)
  if a0 is None:
    raise AnalysisError("%s.Schedule.__init__: _parse_slot is called without a slot text" % M)
  src = _source_text(iv, calls[0], a0)
  run.ob(R5, init.qualname, "_parse_slot(<part of %s>)" % ispec, "the slot texts handed to the "
         "slot parser are pieces of the spec as written: %s" % short(src, 80),
         _mentions(src, ispec) and not _folds_case(src), fi=init.fi, node=calls[0])
  ps = w.fn_of(_roles(w, mod)["parse_slot"])
  pv = H.View(ps)
  p0 = ps.fi.params()[0]
  ms = [c for c in calls_in(ps.node.body) if isinstance(c.func, ast.Attribute) and
        c.func.attr == "match" and text(c.func.value) == "_SLOT_RE"]
  if len(ms) != 1:
    raise AnalysisError("%s._parse_slot: one _SLOT_RE.match call expected" % M)
  src = _source_text(pv, ms[0], ms[0].args[0])
  run.ob(R5, ps.qualname, "_SLOT_RE.match(<part of %s>)" % p0, "the text matched against the "
         "slot regex (whose `unit` group is looked up case-sensitively in %s) is a piece of the "
         "slot text as written: %s" % (", ".join(sensitive), short(src, 80)),
         _mentions(src, p0) and not _folds_case(src), fi=ps.fi, node=ms[0])


def _source_text(v, call, arg):
  """The argument with locals expanded; a loop / comprehension variable is replaced by the
  iterable it ranges over (enough to see where the text comes from)."""
  e = v.x(arg)
  for _ in range(4):
    changed = False
    for y in list(ast.walk(e)):
      if not isinstance(y, ast.Name):
        continue
      src = _range_of(v, call, y.id)
      if src is not None:
        e = H._Replace(y.id, src).visit(e)
        changed = True
        break
    if not changed:
      break
  return e


def _range_of(v, call, name):
  """iterable a loop / comprehension variable `name` visible at `call` ranges over"""
  st = v.node_of(call).stmt
  for y in ast.walk(st):
    if isinstance(y, ast.comprehension) and any(isinstance(z, ast.Name) and z.id == name
                                                for z in ast.walk(y.target)):
      return v.x(y.iter, at=v.node_of(call).id)
  for l in reversed(v.enclosing_loops(st)):
    if isinstance(l, ast.For) and any(isinstance(z, ast.Name) and z.id == name
                                      for z in ast.walk(l.target)):
      return v.x(l.iter)
  return None


def _provenance(run, R5, w, mod, fn, v, expr, spec, depth):
  """Every value `expr` can have is a Schedule parsed from `spec` itself."""
  if depth > 3:
    raise AnalysisError("%s: provenance of the schedule object is too indirect" % fn.qualname)
  nid = v.point_of(expr)
  alts = _alternatives(v, expr, nid)
  for (e, at) in alts:
    if isinstance(e, ast.Call) and dotted(e.func) in mod.classes:
      a0 = v.arg(e, 0)
      arg = v.x(a0, at=at) if a0 is not None and len(e.args) + len(e.keywords) == 1 else None
      ok = arg is not None and text(arg) == spec
      if not ok and arg is not None and not _folds_case(arg):
        raise AnalysisError("%s: %s is built from %s; cannot tell whether that is the spec as "
                            "written" % (fn.qualname, dotted(e.func), short(arg)))
      run.ob(R5, fn.qualname, "%s(%s)" % (dotted(e.func), short(arg) if arg is not None else "?"),
             "the schedule is parsed from the spec as written (letter case matters in slots)", ok,
             fi=fn.fi, node=e)
    elif isinstance(e, ast.Call) and dotted(e.func) in mod.functions:
      callee = w.fn(M + "." + dotted(e.func))
      b = H.bind_args(e, callee.fi.params())
      if b is None:
        raise AnalysisError("%s: cannot follow the arguments of %s" % (fn.qualname, short(e)))
      hits = [p for p, a in (b or {}).items() if text(v.x(a, at=at)) == spec]
      if len(hits) != 1:
        if b and any(_folds_case(v.x(a, at=at)) for a in b.values()):
          run.ob(R5, fn.qualname, short(e), "the spec is handed on as written", False,
                 fi=fn.fi, node=e)
          continue
        raise AnalysisError("%s: cannot follow the spec into %s" % (fn.qualname, short(e)))
      cv = H.View(callee)
      rets = [s for s in walk_no_nested(callee.node) if isinstance(s, ast.Return)]
      if not rets:
        raise AnalysisError("%s returns nothing" % callee.qualname)
      for r in rets:
        _provenance(run, R5, w, mod, callee, cv, r.value, hits[0], depth + 1)
      _memo_stores(run, R5, w, mod, callee, cv, hits[0])
    elif _memo_read(mod, e) is not None:
      table, key = _memo_read(mod, e)
      _memo_key(run, R5, fn, v, table, key, at, spec, e)
    elif isinstance(e, ast.Constant) and e.value is None:
      continue          # `x = memo.get(k)` / `if x is None: x = Schedule(..)`: the None never
                        # reaches .series() when the other alternatives are fine
    else:
      raise AnalysisError("%s: cannot tell where the schedule object %s comes from"
                          % (fn.qualname, short(e)))


def _alternatives(v, expr, nid):
  """[(value expr, node id)] for every binding of the local `expr` that may reach nid (plain
  assignments only), or the expression itself."""
  if not isinstance(expr, ast.Name) or nid is None:
    return [(expr, nid)]
  defs = v.reaching(expr.id, nid)
  if not defs:
    return [(expr, nid)]
  out = []
  for d in sorted(defs):
    val = v._plain_value(expr.id, d)
    if val is None:
      raise AnalysisError("%s: %s is bound by something other than a plain assignment"
                          % (v.fn.qualname, expr.id))
    if isinstance(val, ast.Name):
      out.extend(_alternatives(v, val, d))
    else:
      out.append((val, d))
  return out


def _memo_read(mod, e):
  """(table name, key expr) when e reads a module-level dict: T.get(k) / T[k]"""
  if isinstance(e, ast.Call) and isinstance(e.func, ast.Attribute) and e.func.attr == "get" and \
      isinstance(e.func.value, ast.Name) and e.func.value.id in mod.assigns and e.args:
    return e.func.value.id, e.args[0]
  if isinstance(e, ast.Subscript) and isinstance(e.value, ast.Name) and e.value.id in mod.assigns:
    return e.value.id, e.slice
  return None


def _memo_key(run, R5, fn, v, table, key, at, spec, node):
  k = v.x(key, at=at)
  same = text(k) == spec
  if not same and not _folds_case(k):
    raise AnalysisError("%s: memo %s is keyed by %s; cannot tell whether distinct specs get "
                        "distinct keys" % (fn.qualname, table, short(k)))
  run.ob(R5, fn.qualname, "%s[%s]" % (table, short(k, 50)), "parsed schedules are remembered "
         "under the spec as written: two specs that differ only in letter case (`+2m` / `+2M`) "
         "are different schedules", same, fi=fn.fi, node=node)


def _memo_stores(run, R5, w, mod, fn, v, spec):
  for n in fn.cfg.nodes:
    s = n.stmt
    if n.kind == "stmt" and isinstance(s, ast.Assign):
      for t in s.targets:
        if isinstance(t, ast.Subscript) and isinstance(t.value, ast.Name) and \
            t.value.id in mod.assigns and not v.reaching(t.value.id, n.id):
          _memo_key(run, R5, fn, v, t.value.id, t.slice, n.id, spec, s)


S = "sandbox/grist/functions/schedule.py"
VARIANTS = [
  ("timedelta-before-months", S,
   "    return datetime.combine(DATEADD(dtime, months=self._months), dtime.timetz()) + self._timedelta\n",
   "    dtime = dtime + self._timedelta\n"
   "    return datetime.combine(DATEADD(dtime, months=self._months), dtime.timetz())\n", "C35-R6"),
  ("timedelta-inside-month-addition", S,
   "DATEADD(dtime, months=self._months), dtime.timetz()) + self._timedelta",
   "DATEADD(dtime + self._timedelta, months=self._months), dtime.timetz())", "C35-R6"),
  ("parser-key-misspelt", S, "  'mday': _parse_slot_mday,", "  'month_day': _parse_slot_mday,",
   "C35-R1"),
  ("allowed-slot-type-unknown", S, "  'hours': ('mins', 'delta'),", "  'hours': ('minutes', 'delta'),",
   "C35-R1"),
  ("new-slot-alternative-without-parser", S,
   "r'^(?:(?P<date>%s)|(?P<mday>%s)|(?P<wday>%s)|(?P<time>%s)|(?P<mins>%s)|(?P<delta>%s))$' %\n"
   "    (_DATE_RE, _MDAY_RE, _WDAY_RE, _TIME_RE, _MINS_RE, _DELTA_RE), re.IGNORECASE)",
   "r'^(?:(?P<date>%s)|(?P<mday>%s)|(?P<wday>%s)|(?P<time>%s)|(?P<mins>%s)|(?P<delta>%s)"
   "|(?P<noon>noon))$' %\n"
   "    (_DATE_RE, _MDAY_RE, _WDAY_RE, _TIME_RE, _MINS_RE, _DELTA_RE), re.IGNORECASE)", "C35-R1"),
  ("default-slot-type-unknown", S, "_ALLOWED_SLOTS_BY_UNIT.get(parent_unit) or ('delta',)",
   "_ALLOWED_SLOTS_BY_UNIT.get(parent_unit) or ('deltas',)", "C35-R1"),
  ("mday-parser-reads-date-group", S, "  mday = int(m.group(\"month_day2\"))",
   "  mday = int(m.group(\"month_day\"))", "C35-R2"),
  ("minutes-default-dropped", S, "  minutes = int(m.group(\"minutes\") or 0)",
   "  minutes = int(m.group(\"minutes\"))", "C35-R2"),
  ("month-num-accepts-letters", S, "(?P<month_num>\\d+)/)", "(?P<month_num>\\w+)/)", "C35-R2"),
  ("month-num-made-optional", S, "(?P<month_name>[a-z]+)-|(?P<month_num>\\d+)/)(?P<month_day>\\d+)",
   "(?P<month_name>[a-z]+)-|(?P<month_num>\\d+)?/)(?P<month_day>\\d+)", "C35-R2"),
  ("interval-num-optional", S, "r'^(?P<num>\\d+)[-\\s]+(?P<unit>[a-z]+)$'",
   "r'^(?P<num>\\d*)[-\\s]+(?P<unit>[a-z]+)$'", "C35-R2"),
  ("group-name-misspelt", S, "  unit = m.group(\"unit\")\n  if unit not in _SHORT_UNITS:",
   "  unit = m.group(\"units\")\n  if unit not in _SHORT_UNITS:", "C35-R2"),
  ("rounding-forgets-minutes", S,
   "      else dtime.replace(second=0, microsecond=0)                              if unit == 'minutes'\n",
   "", "C35-R3"),
  ("seeded-field-table-minutes-keep-microseconds", S,
   "def _round_down_to_unit(dtime, unit):\n"
   "  \"\"\"\n"
   "  Rounds datetime down to the given unit. Weeks are rounded to start of Sunday.\n"
   "  \"\"\"\n"
   "  tz = dtime.tzinfo\n"
   "  return ( datetime(dtime.year, 1, 1, tzinfo=tz)                               if unit == 'years'\n"
   "      else datetime(dtime.year, dtime.month, 1, tzinfo=tz)                     if unit == 'months'\n"
   "      else (dtime - timedelta(days=dtime.isoweekday() % 7))\n"
   "           .replace(hour=0, minute=0, second=0, microsecond=0)                 if unit == 'weeks'\n"
   "      else dtime.replace(hour=0, minute=0, second=0, microsecond=0)            if unit == 'days'\n"
   "      else dtime.replace(minute=0, second=0, microsecond=0)                    if unit == 'hours'\n"
   "      else dtime.replace(second=0, microsecond=0)                              if unit == 'minutes'\n"
   "      else dtime.replace(microsecond=0)                                        if unit == 'seconds'\n"
   "      else _fail(\"Invalid unit %s\" % unit)\n"
   "  )\n",
   "_TIME_FIELDS_TO_RESET = {\n"
   "  'days':     dict(hour=0, minute=0, second=0, microsecond=0),\n"
   "  'hours':    dict(minute=0, second=0, microsecond=0),\n"
   "  'minutes':  dict(second=0),\n"
   "  'seconds':  dict(microsecond=0),\n"
   "}\n\n"
   "def _round_down_to_unit(dtime, unit):\n"
   "  tz = dtime.tzinfo\n"
   "  if unit == 'years':\n"
   "    return datetime(dtime.year, 1, 1, tzinfo=tz)\n"
   "  if unit == 'months':\n"
   "    return datetime(dtime.year, dtime.month, 1, tzinfo=tz)\n"
   "  if unit == 'weeks':\n"
   "    dtime -= timedelta(days=dtime.isoweekday() % 7)\n"
   "    unit = 'days'\n"
   "  if unit not in _TIME_FIELDS_TO_RESET:\n"
   "    _fail(\"Invalid unit %s\" % unit)\n"
   "  return dtime.replace(**_TIME_FIELDS_TO_RESET[unit])\n", "C35-R3"),
  ("minutes-keep-microseconds", S, "else dtime.replace(second=0, microsecond=0) ",
   "else dtime.replace(second=0)                ", "C35-R3"),
  ("hours-keep-seconds", S, "else dtime.replace(minute=0, second=0, microsecond=0) ",
   "else dtime.replace(minute=0, microsecond=0)           ", "C35-R3"),
  ("days-also-reset-for-hours", S, "else dtime.replace(minute=0, second=0, microsecond=0) ",
   "else dtime.replace(hour=0, minute=0, second=0, microsecond=0) ", "C35-R3"),
  ("short-units-one-short", S, "dict(zip(('y', 'm', 'w', 'd', 'H', 'M', 'S'), _UNITS))",
   "dict(zip(('y', 'm', 'w', 'd', 'H', 'M'), _UNITS))", "C35-R3"),
  ("alias-unknown-unit", S, "  'daily':    (1, 'days'),", "  'daily':    (1, 'day'),", "C35-R3"),
  ("new-unit-not-a-timedelta-keyword", S,
   "_UNITS = ('years', 'months', 'weeks', 'days', 'hours', 'minutes', 'seconds')",
   "_UNITS = ('years', 'quarters', 'months', 'weeks', 'days', 'hours', 'minutes', 'seconds')",
   "C35-R3"),
  ("unit-check-dropped", S,
   "  if unit not in _VALID_UNITS:\n"
   "    raise ValueError(\"Unknown unit '%s' in interval '%s'\" % (unit, interval_str))\n", "",
   "C35-R3"),
  ("unknown-month-is-keyerror", S,
   "    if name not in MONTH_OFFSETS:\n      raise ValueError(\"Unknown month '%s'\" % month_name)\n",
   "", "C35-R4"),
  ("duplicate-unit-raises-keyerror", S,
   "            raise ValueError(\"Duplicate unit %s in '%s'\" % (unit, slot_str))",
   "            raise KeyError(\"Duplicate unit %s in '%s'\" % (unit, slot_str))", "C35-R4"),
  ("spec-lowercased-before-parsing", S, "  return Schedule(schedule).series(",
   "  return Schedule(schedule.lower()).series(", "C35-R5"),
  ("slot-texts-lowercased", S, "for t in parts[1].split(\",\")]",
   "for t in parts[1].lower().split(\",\")]", "C35-R5"),
  ("seeded-parse-cache-keyed-by-lowercased-spec", S,
   "  return Schedule(schedule).series(start or NOW(), end, count=count)\n",
   "  return _get_schedule(schedule).series(start or NOW(), end, count=count)\n\n"
   "_schedule_cache = {}\n\n"
   "def _get_schedule(spec_string):\n"
   "  key = spec_string.strip().lower()\n"
   "  sched = _schedule_cache.get(key)\n"
   "  if sched is None:\n"
   "    sched = Schedule(spec_string)\n"
   "    _schedule_cache[key] = sched\n"
   "  return sched\n", "C35-R5"),
  ("spec-without-colon-unchecked", S,
   "    if len(parts) != 2:\n"
   "      raise ValueError(\"schedule must have the form INTERVAL: SLOTS, ...\")\n", "", "C35-R4"),
]
