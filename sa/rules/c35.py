"""C35 SCHEDULE yields exactly the scheduled occurrences -- parsing tables only (DESIGN.md 4/C35).

The module's regexes are read through the standard library's own `re._parser`; the module-level
tables are evaluated as constants from the AST. Nothing of functions/schedule.py is executed."""
import ast
import re
from ..fn import World
from ..index import AnalysisError, dotted
from ..astutil import text, short, endswith, calls_in, walk_no_nested, enclosing_chain
from ..callgraph import CallGraph
from . import _h_D as H

EXPLANATION = (
  "Decides, for the parsing half of SCHEDULE: (R1) the slot-type tables agree -- keys of "
  "_SLOT_PARSERS = top-level named groups of _SLOT_RE, and every slot type allowed for a unit "
  "(and the default) is one of them; (R2) every m.group(<name>) names a group of the regex that "
  "matched, inside the slot type's own group for a slot parser, and every int(...) of a group is "
  "applied to a digits-only group that is certain to have matched (mandatory, `or <default>`, or "
  "the other arm of a two-way alternation tested first); (R3) the unit tables agree -- the "
  "conditional chain of _round_down_to_unit covers exactly _UNITS and ends in a ValueError, "
  "dict(zip(..)) unit maps have equal lengths and land in _UNITS, interval aliases and the units "
  "_parse_interval lets through are units, Delta.add_interval handles months/years itself and "
  "hands only timedelta keywords to timedelta; (R4) every raise reachable from Schedule.__init__ "
  "raises ValueError and every lookup in a module-level table is guarded by a membership test. "
  "Not decided: the series arithmetic (Delta.add_to, DATEADD, the slot ordering assumption), "
  "overflow of huge counts.")

M = "functions.schedule"
TIMEDELTA_KWARGS = {"weeks", "days", "hours", "minutes", "seconds", "milliseconds",
                    "microseconds"}     # datetime.timedelta's keyword parameters (language fact)


def check(run, repo, tier):
  w = World(repo)
  mod = repo.module(M)
  ce = H.ConstEval(mod)
  r1_slot_tables(run, w, mod, ce)
  r2_groups(run, w, mod, ce)
  r3_units(run, w, mod, ce)
  r4_errors(run, w, mod, ce)


def _regex(ce, name):
  v = ce.name(name)
  if not isinstance(v, H.Regex):
    raise AnalysisError("%s.%s is not a compiled regex constant" % (M, name))
  return v


def _func_names_dict(ce, mod, name):
  """{key: function name} for a module-level dict literal whose values are function names."""
  node = mod.assigns.get(name)
  if not isinstance(node, ast.Dict):
    raise AnalysisError("%s.%s is not a dict literal" % (M, name))
  out = {}
  for k, v in zip(node.keys, node.values):
    if not (isinstance(k, ast.Constant) and isinstance(v, ast.Name) and v.id in mod.functions):
      raise AnalysisError("%s.%s: entry %s is not <str>: <module function>" % (M, name, short(v)))
    if k.value in out:
      raise AnalysisError("%s.%s: duplicate key %r" % (M, name, k.value))
    out[k.value] = v.id
  return out


def r1_slot_tables(run, w, mod, ce):
  R1 = run.rule("C35-R1", "slot-type tables agree: parsers = top-level groups of the slot regex "
                ">= allowed slot types", floor=8)
  rx = _regex(ce, "_SLOT_RE")
  groups = H.regex_groups(rx)
  top = {n for n, g in groups.items() if g.parent is None and isinstance(n, str)}
  parsers = _func_names_dict(ce, mod, "_SLOT_PARSERS")
  site = "%s._SLOT_PARSERS" % M
  run.ob(R1, site, "keys == top-level named groups of _SLOT_RE",
         "each alternative of the slot regex has a parser and each parser an alternative: "
         "parsers %s, groups %s" % (sorted(parsers), sorted(top)), set(parsers) == top,
         fi=None)
  # the alternatives are alternatives of one anchored branch: exactly one slot type per match
  tops = [groups[n] for n in top]
  same_branch = len({g.branch_path[:1] and g.branch_path[0][0] for g in tops}) == 1 and \
      all(len(g.branch_path) == 1 for g in tops) and \
      len({g.branch_path[0][1] for g in tops}) == len(tops)
  run.ob(R1, "%s._SLOT_RE" % M, "top-level groups are the alternatives of one alternation",
         "a slot part matches exactly one slot type (the parser loop stops at the first group "
         "that matched)", same_branch, fi=None)
  allowed = ce.name("_ALLOWED_SLOTS_BY_UNIT")
  if not isinstance(allowed, H.OrderedPairs):
    raise AnalysisError("%s._ALLOWED_SLOTS_BY_UNIT is not a dict literal" % M)
  units = set(ce.name("_UNITS"))
  for unit, types in allowed:
    ok = isinstance(types, tuple) and set(types) <= set(parsers) and unit in units
    run.ob(R1, "%s._ALLOWED_SLOTS_BY_UNIT" % M, "%r: %r" % (unit, types),
           "the slot types allowed for a unit are slot types that exist (m.group(slot_type) and "
           "_SLOT_PARSERS[slot_type] are then defined) and the unit is a unit", ok, fi=None)
  # the default used by _parse_slot when the unit is not listed
  ps = w.fn(M + "._parse_slot")
  dflt = None
  for s in walk_no_nested(ps.node):
    if isinstance(s, ast.Assign) and isinstance(s.value, ast.BoolOp) and \
        isinstance(s.value.op, ast.Or) and len(s.value.values) == 2 and \
        "_ALLOWED_SLOTS_BY_UNIT" in text(s.value.values[0]):
      try:
        dflt = ce.ev(s.value.values[1])
      except AnalysisError:
        dflt = None
      var = text(s.targets[0])
  if dflt is None:
    raise AnalysisError("%s._parse_slot: default slot types not found" % M)
  run.ob(R1, ps.qualname, "default slot types %r" % (dflt,), "the fallback slot types exist",
         isinstance(dflt, tuple) and set(dflt) <= set(parsers), fi=ps.fi)
  # the dispatch uses the same name for the group and the parser
  loops = [s for s in walk_no_nested(ps.node) if isinstance(s, ast.For) and text(s.iter) == var]
  ok = False
  if len(loops) == 1:
    tv = text(loops[0].target)
    tests = [s for s in loops[0].body if isinstance(s, ast.If)]
    ok = len(tests) == 1 and text(tests[0].test) == "m.group(%s)" % tv and \
        any(text(c.func) == "_SLOT_PARSERS[%s]" % tv and [text(a) for a in c.args] == ["m"]
            for c in calls_in(tests[0].body)) and \
        isinstance(tests[0].body[-1], ast.Break) and bool(loops[0].orelse) and \
        any(isinstance(x, ast.Raise) for x in loops[0].orelse)
  run.ob(R1, ps.qualname, "for t in allowed: if m.group(t): _SLOT_PARSERS[t](m); break / else: "
         "raise", "the parser run is the one of the group that matched, and a slot type that is "
         "not allowed for the unit is rejected", ok, fi=ps.fi)


def _match_var_regex(fn, mod, ce, slot_parsers, var):
  """Which regex constant produced the match object `var` in function fn?"""
  for s in walk_no_nested(fn.node):
    if isinstance(s, ast.Assign) and text(s.targets[0]) == var and \
        isinstance(s.value, ast.Call) and isinstance(s.value.func, ast.Attribute) and \
        s.value.func.attr in ("match", "search", "fullmatch") and \
        isinstance(s.value.func.value, ast.Name):
      return s.value.func.value.id
  if fn.fi.name in slot_parsers.values() and fn.fi.params() and fn.fi.params()[0] == var:
    return "_SLOT_RE"     # called as _SLOT_PARSERS[t](m) with m = _SLOT_RE.match(part) (R1)
  return None


def r2_groups(run, w, mod, ce):
  R2 = run.rule("C35-R2", "group names read from a match exist in the regex that matched (inside "
                "the parser's own slot type) and int() is applied only to digit groups certain to "
                "have matched", floor=20)
  parsers = _func_names_dict(ce, mod, "_SLOT_PARSERS")
  owner = {f: k for k, f in parsers.items()}
  cache = {}
  for fi in sorted(mod.functions.values(), key=lambda f: f.node.lineno):
    fn = w.fn_of(fi)
    reads = []     # (call m.group('x'), match var)
    for c in calls_in(fi.node.body):
      if isinstance(c.func, ast.Attribute) and c.func.attr == "group" and \
          isinstance(c.func.value, ast.Name) and len(c.args) == 1 and \
          isinstance(c.args[0], ast.Constant) and isinstance(c.args[0].value, str):
        reads.append((c, c.func.value.id))
    if not reads:
      continue
    for (c, mv) in reads:
      rname = _match_var_regex(fn, mod, ce, parsers, mv)
      if rname is None:
        raise AnalysisError("%s: cannot tell which regex produced %s" % (fi.qualname, mv))
      if rname not in cache:
        rx = _regex(ce, rname)
        cache[rname] = (rx, H.regex_groups(rx))
      rx, groups = cache[rname]
      g = groups.get(c.args[0].value)
      ok = g is not None
      where = "a group of %s" % rname
      if ok and fi.name in owner:
        # inside the alternative of this parser's slot type
        p = g
        chain = []
        while p is not None:
          chain.append(p.name)
          p = p.parent
        ok = owner[fi.name] in chain[1:]
        where = "a group inside (?P<%s>...) of %s" % (owner[fi.name], rname)
      run.ob(R2, fi.qualname, "%s.group(%r)" % (mv, c.args[0].value),
             "the name read is %s (an unknown name raises IndexError/error, another "
             "alternative's group is always None)" % where, ok, fi=fi, node=c)
    # int(...) applications
    for c in calls_in(fi.node.body):
      if not (dotted(c.func) == "int" and len(c.args) == 1):
        continue
      _int_application(run, R2, fn, c, reads, cache, owner, mod, ce, parsers)


def _group_of_expr(fn, e, reads):
  """(group name, match var, guarded_by_or_default, via variable name or None)"""
  guarded = False
  if isinstance(e, ast.BoolOp) and isinstance(e.op, ast.Or) and len(e.values) == 2 and \
      isinstance(e.values[1], ast.Constant) and isinstance(e.values[1].value, int):
    guarded = True
    e = e.values[0]
  via = None
  if isinstance(e, ast.Name):
    vals = [s.value for s in walk_no_nested(fn.node) if isinstance(s, ast.Assign) and
            len(s.targets) == 1 and text(s.targets[0]) == e.id]
    if len(vals) != 1:
      return None
    via = e.id
    e = vals[0]
  for (c, mv) in reads:
    if e is c:
      return (c.args[0].value, mv, guarded, via)
  return None


def _int_application(run, R2, fn, call, reads, cache, owner, mod, ce, parsers):
  fi = fn.fi
  info = _group_of_expr(fn, call.args[0], reads)
  if info is None:
    # int() of something that is not a regex group: nothing to decide here, but say so
    if any(isinstance(x, ast.Call) and isinstance(x.func, ast.Attribute) and x.func.attr == "group"
           for x in ast.walk(call.args[0])):
      raise AnalysisError("%s: int() applied to a group expression outside the supported idioms: "
                          "%s" % (fi.qualname, short(call)))
    return
  gname, mv, guarded, via = info
  rname = _match_var_regex(fn, mod, ce, parsers, mv)
  rx, groups = cache[rname]
  g = groups.get(gname)
  if g is None:
    run.ob(R2, fi.qualname, short(call), "int() of an unknown group", False, fi=fi, node=call)
    return
  digits = H.body_is_digits(g.body, rx.flags)
  # certain to have matched?
  scope_top = owner.get(fi.name)
  certain, why = False, ""
  if guarded:
    certain, why = True, "`or <default>` covers the unmatched case"
  else:
    mand = _mandatory_within(g, scope_top)
    if mand:
      certain, why = True, "the group takes part in every match of its slot type"
    else:
      alt = _other_arm_tested(fn, call, g, groups, reads, via)
      if alt is not None:
        certain, why = True, "else-branch of `if %s`, the other arm of the same alternation" % alt
  run.ob(R2, fi.qualname, short(call), "int() is given text that consists of digits only "
         "(ValueError-free) and is never None (TypeError-free): digits=%s, matched: %s"
         % (digits, why or "NOT ESTABLISHED"), digits and certain, fi=fi, node=call)


def _mandatory_within(g, scope_top):
  """g takes part in every match in which the group named scope_top (or the whole regex when
  None) takes part."""
  p = g
  while p is not None:
    if p.name == scope_top and scope_top is not None:
      return True
    if not p.mandatory:
      return False
    p = p.parent
  return scope_top is None


def _other_arm_tested(fn, call, g, groups, reads, via):
  """int(x) sits in the else-branch of `if <y>` where y holds the group of the *other* arm of
  the two-way alternation g belongs to, both arms being made of that one group up to the point
  where they differ, and y's group cannot match the empty string."""
  st = H.stmt_of(fn.node, call)
  chain = enclosing_chain(fn.node, st)
  for (s, fld) in reversed(chain):
    if isinstance(s, ast.If) and fld == "orelse" and isinstance(s.test, ast.Name):
      info = _group_of_expr(fn, s.test, reads)
      if info is None:
        continue
      other = groups.get(info[0])
      if other is None or other is g:
        continue
      if other.parent is not g.parent or len(g.branch_path) != 1 or \
          len(other.branch_path) != 1:
        continue
      (ba, ia, na), (bb, ib, nb) = g.branch_path[0], other.branch_path[0]
      if ba != bb or ia == ib or na != 2:
        continue
      if H.body_min_width(other.body) < 1:
        continue       # a group that can match '' is falsy although it matched
      if not (g.arm_mandatory and other.arm_mandatory and g.branch_certain):
        continue
      return s.test.id
  return None


def r3_units(run, w, mod, ce):
  R3 = run.rule("C35-R3", "unit tables agree: rounding chain = _UNITS, zip maps have equal "
                "lengths, aliases and parsed units are units, add_interval/timedelta keywords",
                floor=10)
  units = ce.name("_UNITS")
  if not (isinstance(units, tuple) and all(isinstance(u, str) for u in units)):
    raise AnalysisError("%s._UNITS is not a tuple of names" % M)
  rd = w.fn(M + "._round_down_to_unit")
  rets = [s for s in walk_no_nested(rd.node) if isinstance(s, ast.Return)]
  if len(rets) != 1 or not isinstance(rets[0].value, ast.IfExp):
    raise AnalysisError("%s._round_down_to_unit is not one conditional chain" % M)
  up = rd.fi.params()[1]
  seen = []
  e = rets[0].value
  while isinstance(e, ast.IfExp):
    t = e.test
    if not (isinstance(t, ast.Compare) and len(t.ops) == 1 and isinstance(t.ops[0], ast.Eq) and
            text(t.left) == up and isinstance(t.comparators[0], ast.Constant)):
      raise AnalysisError("_round_down_to_unit: test outside the subset: %s" % short(t))
    seen.append(t.comparators[0].value)
    e = e.orelse
  run.ob(R3, rd.qualname, "chain covers %s" % (seen,), "every unit an interval can have is "
         "rounded by its own arm (none falls through to the error arm, none is tested twice)",
         sorted(seen) == sorted(units) and len(set(seen)) == len(seen), fi=rd.fi)
  fails = isinstance(e, ast.Call) and dotted(e.func) in mod.functions and \
      _only_raises_valueerror(mod.functions[dotted(e.func)])
  run.ob(R3, rd.qualname, "final arm: %s" % short(e), "an unknown unit is a ValueError", fails,
         fi=rd.fi)
  vu = ce.name("_VALID_UNITS")
  run.ob(R3, "%s._VALID_UNITS" % M, "== set(_UNITS)", "the units _parse_interval lets through "
         "are exactly the units the rest of the module handles", vu == set(units), fi=None)
  for name in ("_SINGULAR_UNITS", "_SHORT_UNITS"):
    z = ce.name(name)
    if not isinstance(z, H.ZipDict):
      raise AnalysisError("%s.%s is not dict(zip(..)) any more" % (M, name))
    ok = len(z.a) == len(z.b) and len(set(z.a)) == len(z.a) and set(z.b) <= set(units)
    run.ob(R3, "%s.%s" % (M, name), "dict(zip(%d names, %d units))" % (len(z.a), len(z.b)),
           "zip() silently truncates: both sides have the same length, the names are distinct "
           "and every value is a unit", ok, fi=None)
  al = ce.name("_INTERVAL_ALIASES")
  for k, v in al:
    ok = isinstance(v, tuple) and len(v) == 2 and isinstance(v[0], int) and v[0] >= 1 and \
        v[1] in units
    run.ob(R3, "%s._INTERVAL_ALIASES" % M, "%r: %r" % (k, v), "an alias stands for a positive "
           "count of a known unit", ok, fi=None)
  # _parse_interval: unit is mapped through the singular table and then must be a valid unit
  pi = w.fn(M + "._parse_interval")
  cfg = pi.cfg
  gates = [n.id for n in cfg.nodes if n.kind == "if" and
           text(n.stmt.test) == "unit not in _VALID_UNITS" and
           any(isinstance(x, ast.Raise) for x in n.stmt.body)]
  rets = [n.id for n in cfg.nodes if n.kind == "return" and isinstance(n.stmt.value, ast.Tuple)]
  run.ob(R3, pi.qualname, "if unit not in _VALID_UNITS: raise", "a parsed interval unit is a "
         "unit before it is returned", bool(gates) and bool(rets) and
         all(cfg.dominated_by(r, gates) for r in rets), fi=pi.fi)
  # Delta.add_interval: months / years by hand, everything else is a timedelta keyword
  ai = w.fn(M + ".Delta.add_interval")
  up = ai.fi.params()[2]
  own = set()
  for s in walk_no_nested(ai.node):
    if isinstance(s, ast.If) and isinstance(s.test, ast.Compare) and \
        text(s.test.left) == up and isinstance(s.test.ops[0], ast.Eq) and \
        isinstance(s.test.comparators[0], ast.Constant):
      own.add(s.test.comparators[0].value)
  td = [c for c in calls_in(ai.node.body) if dotted(c.func) == "timedelta" and
        any(k.arg is None for k in c.keywords)]
  ok = len(td) == 1 and (set(units) - own) <= TIMEDELTA_KWARGS and own <= set(units)
  run.ob(R3, ai.qualname, "units handled by hand %s, the rest passed as timedelta(**{unit: n})"
         % sorted(own), "every unit that is not handled explicitly is a keyword datetime."
         "timedelta accepts (anything else would be a TypeError)", ok, fi=ai.fi)


def _only_raises_valueerror(fi):
  body = [s for s in fi.node.body if not (isinstance(s, ast.Expr) and
                                          isinstance(s.value, ast.Constant))]
  return len(body) == 1 and isinstance(body[0], ast.Raise) and \
      isinstance(body[0].exc, ast.Call) and dotted(body[0].exc.func) == "ValueError"


def r4_errors(run, w, mod, ce):
  R4 = run.rule("C35-R4", "every raise reachable from Schedule.__init__ raises ValueError; "
                "table lookups are guarded by membership tests", floor=14)
  # functions reachable from Schedule.__init__ within the module (dispatch through
  # _SLOT_PARSERS[...] included)
  parsers = _func_names_dict(ce, mod, "_SLOT_PARSERS")
  start = w.repo.func(M + ".Schedule.__init__")
  seen, work = {}, [start]
  while work:
    fi = work.pop()
    if fi.qualname in seen:
      continue
    seen[fi.qualname] = fi
    for c in calls_in(fi.node.body):
      d = dotted(c.func)
      tgt = []
      if d in mod.functions:
        tgt.append(mod.functions[d])
      elif d in mod.classes and "__init__" in mod.classes[d].methods:
        tgt.append(mod.classes[d].methods["__init__"])
      elif isinstance(c.func, ast.Subscript) and text(c.func.value) == "_SLOT_PARSERS":
        tgt.extend(mod.functions[f] for f in parsers.values())
      elif isinstance(c.func, ast.Attribute):
        for ci in mod.classes.values():
          if c.func.attr in ci.methods and not c.func.attr.startswith("__"):
            tgt.append(ci.methods[c.func.attr])
      work.extend(tgt)
  for q in sorted(seen):
    fi = seen[q]
    for s in walk_no_nested(fi.node):
      if isinstance(s, ast.Raise):
        ok = isinstance(s.exc, ast.Call) and dotted(s.exc.func) == "ValueError"
        run.ob(R4, q, short(s, 70), "an invalid schedule string is reported as ValueError", ok,
               fi=fi, node=s)
  # module-level tables subscripted with a computed key need a membership guard
  tables = {n for n, v in mod.assigns.items() if isinstance(v, ast.Dict) or
            (isinstance(v, ast.Call) and dotted(v.func) == "dict")}
  for q in sorted(seen):
    fi = seen[q]
    fn = w.fn_of(fi)
    cfg = fn.cfg
    for n in cfg.nodes:
      for e in n.exprs:
        for x in walk_no_nested(e):
          if isinstance(x, ast.Subscript) and isinstance(x.ctx, ast.Load) and \
              isinstance(x.value, ast.Name) and x.value.id in tables and \
              x.value.id in mod.assigns and not isinstance(x.slice, ast.Constant):
            tname, key = x.value.id, text(x.slice)
            if tname == "_SLOT_PARSERS":
              continue      # keyed by an allowed slot type: R1
            guards = set()
            for g in cfg.nodes:
              if g.kind != "if":
                continue
              t = g.stmt.test
              if isinstance(t, ast.Compare) and len(t.ops) == 1 and text(t.left) == key and \
                  text(t.comparators[0]) == tname:
                if isinstance(t.ops[0], ast.NotIn) and \
                    all(isinstance(b, ast.Raise) for b in g.stmt.body[-1:]):
                  guards.add(g.id)       # falls through only when key in table
                elif isinstance(t.ops[0], ast.In):
                  # only the body of the guard is protected
                  body_nodes = {m.id for m in cfg.nodes if m.stmt is not None and
                                any(m.stmt is y for b in g.stmt.body for y in ast.walk(b))}
                  if n.id in body_nodes:
                    guards.add(g.id)
            # the key is not rebound between guard and use
            ok = bool(guards) and cfg.dominated_by(n.id, guards)
            run.ob(R4, q, "%s[%s]" % (tname, key), "the lookup is preceded by a membership "
                   "test (a missing key would be a KeyError, not a ValueError)", ok, fi=fi,
                   node=x)
  # positional parts[0] / parts[1] after the length check
  init = w.fn(M + ".Schedule.__init__")
  cfg = init.cfg
  gate = [n.id for n in cfg.nodes if n.kind == "if" and
          text(n.stmt.test) in ("len(parts) != 2", "len(parts) < 2") and
          any(isinstance(b, ast.Raise) for b in n.stmt.body)]
  uses = [n.id for n in cfg.nodes if n.stmt is not None and n.kind == "stmt" and
          any(isinstance(x, ast.Subscript) and text(x.value) == "parts"
              for e in n.exprs for x in ast.walk(e))]
  run.ob(R4, init.qualname, "if len(parts) != 2: raise ValueError", "a spec without ':' is "
         "rejected before its halves are indexed", bool(gate) and bool(uses) and
         all(cfg.dominated_by(u, gate) for u in uses), fi=init.fi)


S = "sandbox/grist/functions/schedule.py"
VARIANTS = [
  ("parser-key-misspelt", S, "  'mday': _parse_slot_mday,", "  'month_day': _parse_slot_mday,",
   "C35-R1"),
  ("allowed-slot-type-unknown", S, "  'hours': ('mins', 'delta'),", "  'hours': ('minutes', 'delta'),",
   "C35-R1"),
  ("new-slot-alternative-without-parser", S,
   "r'^(?:(?P<date>%s)|(?P<mday>%s)|(?P<wday>%s)|(?P<time>%s)|(?P<mins>%s)|(?P<delta>%s))$' %\n"
   "    (_DATE_RE, _MDAY_RE, _WDAY_RE, _TIME_RE, _MINS_RE, _DELTA_RE), re.IGNORECASE)",
   "r'^(?:(?P<date>%s)|(?P<mday>%s)|(?P<wday>%s)|(?P<time>%s)|(?P<mins>%s)|(?P<delta>%s)"
   "|(?P<noon>noon))$' %\n"
   "    (_DATE_RE, _MDAY_RE, _WDAY_RE, _TIME_RE, _MINS_RE, _DELTA_RE), re.IGNORECASE)", "C35-R1"),
  ("default-slot-type-unknown", S, "_ALLOWED_SLOTS_BY_UNIT.get(parent_unit) or ('delta',)",
   "_ALLOWED_SLOTS_BY_UNIT.get(parent_unit) or ('deltas',)", "C35-R1"),
  ("mday-parser-reads-date-group", S, "  mday = int(m.group(\"month_day2\"))",
   "  mday = int(m.group(\"month_day\"))", "C35-R2"),
  ("minutes-default-dropped", S, "  minutes = int(m.group(\"minutes\") or 0)",
   "  minutes = int(m.group(\"minutes\"))", "C35-R2"),
  ("month-num-accepts-letters", S, "(?P<month_num>\\d+)/)", "(?P<month_num>\\w+)/)", "C35-R2"),
  ("month-num-made-optional", S, "(?P<month_name>[a-z]+)-|(?P<month_num>\\d+)/)(?P<month_day>\\d+)",
   "(?P<month_name>[a-z]+)-|(?P<month_num>\\d+)?/)(?P<month_day>\\d+)", "C35-R2"),
  ("interval-num-optional", S, "r'^(?P<num>\\d+)[-\\s]+(?P<unit>[a-z]+)$'",
   "r'^(?P<num>\\d*)[-\\s]+(?P<unit>[a-z]+)$'", "C35-R2"),
  ("group-name-misspelt", S, "  unit = m.group(\"unit\")\n  if unit not in _SHORT_UNITS:",
   "  unit = m.group(\"units\")\n  if unit not in _SHORT_UNITS:", "C35-R2"),
  ("rounding-forgets-minutes", S,
   "      else dtime.replace(second=0, microsecond=0)                              if unit == 'minutes'\n",
   "", "C35-R3"),
  ("short-units-one-short", S, "dict(zip(('y', 'm', 'w', 'd', 'H', 'M', 'S'), _UNITS))",
   "dict(zip(('y', 'm', 'w', 'd', 'H', 'M'), _UNITS))", "C35-R3"),
  ("alias-unknown-unit", S, "  'daily':    (1, 'days'),", "  'daily':    (1, 'day'),", "C35-R3"),
  ("new-unit-not-a-timedelta-keyword", S,
   "_UNITS = ('years', 'months', 'weeks', 'days', 'hours', 'minutes', 'seconds')",
   "_UNITS = ('years', 'quarters', 'months', 'weeks', 'days', 'hours', 'minutes', 'seconds')",
   "C35-R3"),
  ("unit-check-dropped", S,
   "  if unit not in _VALID_UNITS:\n"
   "    raise ValueError(\"Unknown unit '%s' in interval '%s'\" % (unit, interval_str))\n", "",
   "C35-R3"),
  ("unknown-month-is-keyerror", S,
   "    if name not in MONTH_OFFSETS:\n      raise ValueError(\"Unknown month '%s'\" % month_name)\n",
   "", "C35-R4"),
  ("duplicate-unit-raises-keyerror", S,
   "            raise ValueError(\"Duplicate unit %s in '%s'\" % (unit, slot_str))",
   "            raise KeyError(\"Duplicate unit %s in '%s'\" % (unit, slot_str))", "C35-R4"),
  ("spec-without-colon-unchecked", S,
   "    if len(parts) != 2:\n"
   "      raise ValueError(\"schedule must have the form INTERVAL: SLOTS, ...\")\n", "", "C35-R4"),
]
