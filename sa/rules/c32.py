"""C32 CSV import keeps every cell -- structural clauses."""
import ast
from ..fn import World
from ..index import AnalysisError, dotted
from ..astutil import text, short, endswith, calls_in, walk_no_nested, names_loaded
from ..dataflow import DefUse
from ._h_F import (ifn, sole_arg, Res, res_of, call_arg, absent, canon, strip_wrappers, iterations,
                   loop_body_nodes, every_iteration, need, repo_callees)

EXPLANATION = (
  "Decides that no cell can be dropped by construction: the column count given to "
  "parse_data.get_table_data is derived from the very row list it is given, not from a "
  "constant-bounded sample of it (R1); get_table_data pads short rows to the converter count and "
  "feeds every row to every converter, stopping early only for an explicit NUM_ROWS (R2); each "
  "column converter stores exactly one value per cell on every path, conversion failures included "
  "(R3); the column filter drops only columns with no header and no non-empty cell (R4); the file "
  "handed to the csv reader is opened without universal-newline translation, so carriage returns "
  "inside quoted cells survive (R5). Not decided: the csv module's own tokenisation, header "
  "guessing heuristics.")


def check(run, repo, tier):
  w = World(repo)
  r1_width(run, w)
  r2_table_data(run, w)
  r3_converter(run, w)
  r4_filter(run, w)
  r5_stream(run, w)


def _sample_names(fn):
  """Local names bound to a bounded slice of another local list (x = rows[:n])."""
  out = {}
  for s in fn.node.body:
    for n in walk_no_nested(s):
      if isinstance(n, ast.Assign) and isinstance(n.targets[0], ast.Name) and \
          isinstance(n.value, ast.Subscript) and isinstance(n.value.slice, ast.Slice) and \
          n.value.slice.upper is not None and isinstance(n.value.value, ast.Name):
        out[n.targets[0].id] = n.value.value.id
  return out


def r1_width(run, w):
  R1 = run.rule("C32-R1", "the column count passed to get_table_data depends on the full row list "
                "it is given, not only on a bounded sample", floor=2)
  fn = ifn(w, "imports.import_csv._parse_open_file")
  cfg = fn.cfg
  calls = [(n, c) for (n, c, nm) in fn.calls() if endswith(nm, "get_table_data")]
  if len(calls) != 1:
    raise AnalysisError("_parse_open_file: expected one get_table_data call")
  n, c = calls[0]
  r = res_of(w, fn)
  rows_arg, width_arg = call_arg(c, 0, "rows"), call_arg(c, 1, "num_columns")
  if rows_arg is None or width_arg is None:
    raise AnalysisError("get_table_data call: rows / width arguments not found")
  if not isinstance(rows_arg, ast.Name):
    raise AnalysisError("get_table_data rows argument is not a local name")
  rows = rows_arg.id
  du = DefUse(fn)
  samples = _sample_names(fn)
  # the width expression: len(<var>), possibly held in a local first
  if isinstance(width_arg, ast.Name):
    b = r.binding(n.id, width_arg.id)
    if b is not None and not isinstance(b[0], ast.IfExp):
      width_arg = b[0]
  ok_shape = isinstance(width_arg, ast.Call) and dotted(width_arg.func) == "len" and \
      len(width_arg.args) == 1 and isinstance(width_arg.args[0], ast.Name)
  if not ok_shape:
    raise AnalysisError("width argument is not len(<local>)")
  hv = width_arg.args[0].id
  # the last definition of rows that reaches the call
  rows_defs = [d for d in du.defs.get(rows, ()) if cfg.dominated_by(n.id, {d})]
  rows_last = [d for d in rows_defs if not (cfg.reach_after({d}) & set(rows_defs) -
                                            {d}) or True]
  # definitions of the header list that dominate the call and mention the full row list, with no
  # redefinition of the row list between them and the call
  good = []
  for d in du.defs.get(hv, ()):
    node = cfg.nodes[d]
    if not cfg.dominated_by(n.id, {d}):
      continue
    used = set()
    for e in node.exprs:
      used |= names_loaded(e)
    if rows not in used:
      continue
    # no later rebinding of rows on the way to the call
    later_rows = cfg.reach_after({d}) & du.defs.get(rows, set()) & \
        cfg.reach({n.id}, forward=False)
    # and no later rebinding of the header list that forgets the full rows
    later_h = [x for x in (cfg.reach_after({d}) & du.defs.get(hv, set()) &
                           cfg.reach({n.id}, forward=False)) if x != d]
    if not later_rows and not later_h:
      good.append(d)
  wit = None
  if not good:
    srcs = sorted({nm for d in du.defs.get(hv, ()) for e in cfg.nodes[d].exprs
                   for nm in names_loaded(e) if nm in samples})
    wit = "every definition of %s reaching the call is computed from %s only" % (
      hv, ", ".join("%s = %s[:..]" % (s_, samples[s_]) for s_ in srcs) or "other values")
  run.ob(R1, fn.qualname, "get_table_data(%s, len(%s), ...)" % (rows, hv),
         "the last definition of %s before the call is computed over the full list %s" % (hv, rows),
         bool(good), witness=wit, fi=fn.fi, node=c)
  # the column filter zips the converted columns with the same header list
  zips = [z for z in calls_in(fn.node) if dotted(z.func) == "zip" and len(z.args) == 2 and
          isinstance(z.args[1], ast.Name)]
  tv = n.stmt.targets[0].id if isinstance(n.stmt, ast.Assign) and \
      isinstance(n.stmt.targets[0], ast.Name) else None
  def is_converted(z):
    a = z.args[0]
    if tv is not None and text(a) == tv:
      return True
    return a is c or (isinstance(a, ast.Call) and endswith(fn.name(a), "get_table_data"))
  paired = [z for z in zips if is_converted(z)]
  need(paired, "the zip() pairing the converted columns with their headers", fn)
  ok = all(z.args[1].id == hv for z in paired)
  run.ob(R1, fn.qualname, "zip(%s, %s)" % (tv, hv), "converted columns are paired with the header "
         "list whose length sized them (zip cannot truncate)", ok, fi=fn.fi)
  # the rows handed on are all rows from the data offset (an unbounded slice)
  rdefs = _defs(fn.node, rows)
  need(rdefs, "the definitions of the row list %s" % rows, fn)
  slices = [v for v in rdefs if isinstance(v, ast.Subscript) and isinstance(v.slice, ast.Slice)]
  for v in rdefs:
    if v not in slices and not (isinstance(v, ast.Call) and dotted(v.func) == "list") and \
        not isinstance(v, (ast.ListComp, ast.List)):
      raise AnalysisError("_parse_open_file: %s = %s: not understood" % (rows, short(v, 50)))
  ok = all(v.slice.upper is None and v.slice.step is None for v in slices)
  run.ob(R1, fn.qualname, "%s = list(reader); %s = %s[data_offset:]" % (rows, rows, rows),
         "all rows of the file from the data offset on are converted", ok, fi=fn.fi)


def _defs(fnode, name):
  return [n.value for s in fnode.body for n in walk_no_nested(s)
          if isinstance(n, ast.Assign) and any(isinstance(t, ast.Name) and t.id == name
                                               for t in n.targets)]


def _one_per(r, e, nid, base, depth=0):
  """(Returns the chain of Elements, None when the collection visibly does NOT hold one element
  per source element -- filtered / conditional append / empty --, and raises AnalysisError when
  the way it is built cannot be described.)
  Does collection `e` (at node nid) hold exactly one element per element of a base iterable
  (base(expr, node id) -> bool), directly or through intermediate lists built one-per-element?
  Comprehensions without filters and append-loops that append exactly once per completed
  iteration count. Returns the list of Elements on success (for inspecting what is stored)."""
  els = r.elements(e, nid)
  if els is None or depth > 4:
    raise AnalysisError("%s: how %s is built is not understood" % (r.fn.qualname, short(e, 50)))
  if not els:
    return None                  # visibly empty
  if len(els) != 1 or len(els[0].loops) != 1 or els[0].how not in ("comp", "append"):
    raise AnalysisError("%s: %s is built in more than one step: not understood"
                        % (r.fn.qualname, short(e, 50)))
  el = els[0]
  if el.conds:
    return None                  # visibly filtered: fewer elements than the source
  if el.how == "append":
    loop = r.enclosing(el.node.stmt, (ast.For,))
    if not loop:
      raise AnalysisError("%s: append outside a loop: not understood" % r.fn.qualname)
    if not every_iteration(r, loop[-1], el.node.id):
      return None                # visibly not once per element
  it = el.loops[0][1]
  at = el.node.id if el.node is not None else nid
  if el.how == "append":
    hs = r.nodes_of(r.enclosing(el.node.stmt, (ast.For,))[-1])
    at = hs[0].id if hs else at
  if base(it, at):
    return [el]
  sub = _one_per(r, strip_wrappers(it), at, base, depth + 1)
  return None if sub is None else [el] + sub


def r2_table_data(run, w):
  R2 = run.rule("C32-R2", "get_table_data pads short rows to the number of converters and feeds "
                "every row to every converter", floor=4)
  fn = ifn(w, "parse_data.get_table_data")
  r = res_of(w, fn)
  cfg = r.cfg
  ps = fn.fi.params()
  rows, ncols = ps[0], ps[1]
  # ---- roles: the feed loop `for cell, conv in zip(<row>, <column converters>): conv.convert_and_add(cell)`
  feeds = []
  for n in cfg.nodes:
    if n.kind != "for":
      continue
    it = n.stmt.iter
    if not (isinstance(it, ast.Call) and dotted(it.func) == "zip" and len(it.args) == 2 and
            isinstance(n.stmt.target, ast.Tuple) and len(n.stmt.target.elts) == 2):
      continue
    cellv, convv = [text(x) for x in n.stmt.target.elts]
    if any(isinstance(c.func, ast.Attribute) and c.func.attr == "convert_and_add" and
           text(c.func.value) == convv and sole_arg(c) is not None and
           text(sole_arg(c)) == cellv
           for c in calls_in(n.stmt.body)):
      feeds.append(n)
  if len({id(n.stmt) for n in feeds}) != 1:
    absent(w, fn, "the loop feeding each cell of a row to its column converter")
    raise AnalysisError("get_table_data: feed loop not found")
  feed = feeds[0]
  rowarg, ccarg = feed.stmt.iter.args
  if not (isinstance(rowarg, ast.Name) and isinstance(ccarg, ast.Name)):
    raise AnalysisError("get_table_data: feed loop does not zip two locals")
  rowvar, CC = rowarg.id, ccarg.id
  outer = r.enclosing(feed.stmt, (ast.For,))
  def is_rows(it):
    it = strip_wrappers(it)
    if isinstance(it, ast.Call) and dotted(it.func) == "enumerate" and it.args:
      it = it.args[0]
    return text(it) == rows
  lp = [l for l in outer if is_rows(l.iter) and rowvar in
        [x.id for x in ast.walk(l.target) if isinstance(x, ast.Name)]]
  if len(lp) != 1:
    raise AnalysisError("get_table_data: row loop not found")
  lp = lp[0]
  lp_heads = {n.id for n in r.nodes_of(lp)}
  body = loop_body_nodes(r, lp)
  # ---- one column converter per converter, one converter per requested column
  def guess_call(it, at):
    v = r.expand(it, at)
    return isinstance(v, ast.Call) and endswith(dotted(v.func), "_guess_basic_types") and \
        call_arg(v, 1, "num_columns") is not None and \
        text(call_arg(v, 1, "num_columns")) == ncols
  chain = _one_per(r, ast.Name(id=CC, ctx=ast.Load()), feed.id, guess_call)
  g = ifn(w, "parse_data._guess_basic_types")
  gr = res_of(w, g)
  gp = g.fi.params()
  def range_n(it, at):
    v = gr.expand(it, at)
    return isinstance(v, ast.Call) and dotted(v.func) == "range" and len(v.args) == 1 and \
        text(v.args[0]) == gp[1]
  g_ok = bool(gr.returns()) and not gr.falls_off_end()
  for (n, v) in gr.returns(expand=False):
    g_ok = g_ok and _one_per(gr, v, n.id, range_n) is not None
  run.ob(R2, fn.qualname, "converters = _guess_basic_types(..., %s)" % ncols,
         "one converter per requested column", chain is not None and g_ok, fi=fn.fi)
  ok = chain is not None
  if ok:
    e = chain[0].elt
    tg = chain[0].loops[0][0]
    ok = isinstance(e, ast.Call) and endswith(fn.name(e) or "", "ColumnConverter") and \
        sole_arg(e) is not None and text(sole_arg(e)) == text(tg) and \
        len(r.defs.get(CC, ())) == 1
  run.ob(R2, fn.qualname, "col_converters = [ColumnConverter(c) for c in converters]",
         "one column converter per converter", ok, fi=fn.fi)
  # the name of the converter list itself (for the padding amount)
  CV = None
  if chain is not None and len(chain) >= 1:
    it = strip_wrappers(chain[0].loops[0][1])
    if isinstance(it, ast.Name):
      CV = it.id
  adds = [n for n in cfg.nodes if n.id in loop_body_nodes(r, feed.stmt) and
          any(isinstance(c.func, ast.Attribute) and c.func.attr == "convert_and_add"
              for c in calls_in(n.exprs))]
  run.ob(R2, fn.qualname, "for cell, conv in zip(row, col_converters): conv.convert_and_add(cell)",
         "every cell of the (padded) row reaches its column's converter",
         len(adds) == 1 and every_iteration(r, feed.stmt, adds[0].id), fi=fn.fi)
  # ---- padding: on every path from the start of a row's iteration to the feed loop the row is
  # extended by [""] * (len(converters) - len(row)), unless that amount is known not positive
  stop = tuple(x for x in (CV, CC, rowvar) if x)
  amounts = {"len(%s) - len(%s)" % (c, rowvar) for c in (CV, CC) if c}
  pads = set()
  for n in cfg.nodes:
    if n.id not in body:
      continue
    for c in calls_in(n.exprs):
      if fn.name(c) == rowvar + ".extend" and len(c.args) == 1:
        a = r.expand(c.args[0], n.id, stop=stop)
        if isinstance(a, ast.BinOp) and isinstance(a.op, ast.Mult):
          for (lst, k) in ((a.left, a.right), (a.right, a.left)):
            if isinstance(lst, ast.List) and len(lst.elts) == 1 and \
                isinstance(lst.elts[0], ast.Constant) and lst.elts[0].value == "" and \
                text(k) in amounts:
              pads.add(n.id)
  def amt(e, node):
    return r.norm(e, node.id, stop=stop) in amounts
  def lens(a, b, node):
    return r.norm(a, node.id, stop=stop) == "len(%s)" % rowvar and \
        r.norm(b, node.id, stop=stop) in {"len(%s)" % c for c in (CV, CC) if c}
  def nothing_missing(want):
    """atom predicate for tests whose outcome `want` says the row is not shorter than the table"""
    def pred(x, node):
      if not (isinstance(x, ast.Compare) and len(x.ops) == 1):
        return False
      l, op, rr = x.left, x.ops[0], x.comparators[0]
      zero = isinstance(rr, ast.Constant) and rr.value == 0
      if want is False:
        return (isinstance(op, ast.Gt) and zero and amt(l, node)) or \
            (isinstance(op, ast.Lt) and lens(l, rr, node)) or \
            (isinstance(op, ast.Gt) and lens(rr, l, node))
      return (isinstance(op, ast.LtE) and zero and amt(l, node)) or \
          (isinstance(op, ast.GtE) and lens(l, rr, node)) or \
          (isinstance(op, ast.LtE) and lens(rr, l, node))
    return pred
  first = {s for h in lp_heads for s in cfg.succ[h] if s in body}
  pad_ok = bool(pads) and (
    r.guarded(feed.id, nothing_missing(False), False, starts=first, removed=pads) or
    r.guarded(feed.id, nothing_missing(True), True, starts=first, removed=pads))
  if not pad_ok:
    # padding done somewhere the rule cannot see (a call that receives the row, or some other way
    # of lengthening it) is undecided; a row that visibly reaches the feed loop as it came is not
    opaque = [c for n in cfg.nodes if n.id in body and n.id != feed.id for c in calls_in(n.exprs)
              if any(isinstance(x, ast.Name) and x.id == rowvar
                     for a in list(c.args) + [k.value for k in c.keywords] for x in ast.walk(a))
              and (repo_callees(w, fn, c) or (isinstance(c.func, ast.Attribute) and
                                               c.func.attr in ("extend", "append", "insert")
                                               and text(c.func.value) == rowvar))]
    rebinds = [d for d in r.defs.get(rowvar, ()) if d in body]
    if (opaque and not pads) or rebinds:
      raise AnalysisError("get_table_data: how short rows are lengthened is not understood (%s)"
                          % (short(opaque[0], 60) if opaque else "row rebound in the loop"))
  run.ob(R2, fn.qualname, "if missing > 0: row.extend([''] * missing)",
         "rows shorter than the table are padded before they are fed, so zip never truncates the "
         "converters", pad_ok, fi=fn.fi)
  # ---- early exits from the row loop only for an explicit NUM_ROWS limit
  def limit(a, node):
    # the caller asked for a row limit: <num_rows> is truthy / > 0
    a = r.expand(a, node.id)
    if isinstance(a, ast.Name):
      return a.id == ps[2]
    return isinstance(a, ast.Compare) and len(a.ops) == 1 and text(a.left) == ps[2] and \
        isinstance(a.ops[0], ast.Gt) and isinstance(a.comparators[0], ast.Constant) and \
        a.comparators[0].value == 0
  bad = []
  for n in cfg.nodes:
    if n.id in body and n.kind in ("break", "continue", "return"):
      # a continue of an inner loop is not an exit of the row loop
      inner = [l for l in r.enclosing(n.stmt, (ast.For, ast.While))]
      if n.kind in ("break", "continue") and inner and inner[-1] is not lp:
        continue
      if not r.guarded(n.id, limit, True):
        bad.append(n)
  run.ob(R2, fn.qualname, "row loop leaves early only under the %s option" % ps[2],
         "no data row is skipped unless the caller limited the row count", not bad, fi=fn.fi)
  # ---- what is returned: one column per column converter
  def is_cc(it, at):
    return text(strip_wrappers(it)) == CC
  ok = bool(r.returns()) and not r.falls_off_end()
  for (n, v) in r.returns(expand=False):
    ch = _one_per(r, v, n.id, is_cc)
    ok = ok and ch is not None and isinstance(ch[0].elt, ast.Call) and \
        isinstance(ch[0].elt.func, ast.Attribute) and ch[0].elt.func.attr == "get_grist_column" \
        and text(ch[0].elt.func.value) == text(ch[0].loops[0][0])
  run.ob(R2, fn.qualname, "return [conv.get_grist_column() for conv in col_converters]",
         "one column is returned per column converter", ok, fi=fn.fi)


def r3_converter(run, w):
  R3 = run.rule("C32-R3", "ColumnConverter.convert_and_add stores exactly one value per call on "
                "every path; get_grist_column returns that list", floor=2)
  fn = ifn(w, "parse_data.ColumnConverter.convert_and_add")
  cfg = fn.xcfg
  apps = fn.nodes_calling(lambda c, nm, f: nm == "self._all_col_values.append", cfg)
  # at most once per path
  need(apps, "where a cell's value is stored (self._all_col_values.append)", fn)
  once = all(not (cfg.reach_after({a}) & apps) for a in apps)
  run.ob(R3, fn.qualname, "self._all_col_values.append(...) exactly once on every path",
         "a converted value, or the text of a value that failed to convert, is stored for every "
         "cell", bool(apps) and cfg.dominated_by(cfg.exit.id, apps) and once, fi=fn.fi)
  handlers = [n for n in cfg.nodes if n.kind == "handler"]
  ok = any(h.stmt.type is not None and text(h.stmt.type) in ("Exception", "BaseException") or
           h.stmt.type is None for h in handlers)
  run.ob(R3, fn.qualname, "except Exception: store str(value)", "a conversion failure of any kind "
         "keeps the cell as text", ok, fi=fn.fi)
  g = ifn(w, "parse_data.ColumnConverter.get_grist_column")
  gr = res_of(w, g)
  rets = gr.returns()
  ok = bool(rets) and not gr.falls_off_end() and all(
    isinstance(v, ast.Dict) and any(text(x) == "self._all_col_values" for x in v.values)
    for (n, v) in rets)
  fills = False
  for (it, tg, bodyx, owner) in iterations(g.node):
    at = gr.node_of_expr(it)
    t = gr.expand(it, at[0].id) if at else it
    if isinstance(t, ast.Call) and dotted(t.func) == "zip" and t.args and \
        text(t.args[0]) == "self._converted_indices":
      fills = True
  run.ob(R3, g.qualname, "data = self._all_col_values (converted slots filled by index)",
         "the column returned has one entry per cell received", ok and fills, fi=g.fi)


def r4_filter(run, w):
  R4 = run.rule("C32-R4", "a column is dropped only when it has no header and no non-empty cell",
                floor=1)
  fn = ifn(w, "imports.import_csv._parse_open_file")
  r = res_of(w, fn)
  cfg = r.cfg
  # the loop pairing the converted columns with their headers
  calls = [(n, c) for (n, c, nm) in fn.calls() if endswith(nm, "get_table_data")]
  loops = []
  for n in cfg.nodes:
    if n.kind == "for" and isinstance(n.stmt.target, ast.Tuple) and \
        len(n.stmt.target.elts) == 2:
      it = r.expand(n.stmt.iter, n.id)
      if isinstance(it, ast.Call) and dotted(it.func) == "zip" and len(it.args) == 2 and \
          isinstance(it.args[0], ast.Call) and endswith(dotted(it.args[0].func), "get_table_data"):
        loops.append(n)
  if len({id(n.stmt) for n in loops}) != 1:
    absent(w, fn, "the loop over zip(<converted columns>, <headers>)")
    raise AnalysisError("_parse_open_file: column filter loop not found")
  head = loops[0]
  lp = head.stmt
  cv, hv = [text(e) for e in lp.target.elts]
  body = loop_body_nodes(r, lp)
  heads = {n.id for n in r.nodes_of(lp)}
  keeps = {n.id for n in cfg.nodes if n.id in body and
           any(isinstance(c.func, ast.Attribute) and c.func.attr in ("append", "extend")
               for c in calls_in(n.exprs))}
  need(keeps, "where a kept column is collected", fn)
  first = {s for h in heads for s in cfg.succ[h] if s in body}
  def no_header(a, node):
    return text(a) == hv
  def all_empty(a, node):
    if not (isinstance(a, ast.Call) and dotted(a.func) == "all" and len(a.args) == 1 and
            isinstance(a.args[0], (ast.GeneratorExp, ast.ListComp))):
      return False
    g = a.args[0]
    if len(g.generators) != 1 or g.generators[0].ifs:
      return False
    t = text(g.generators[0].target)
    e, pol = canon(g.elt)
    cell_empty = (not pol and text(e) == t) or \
        (pol and isinstance(e, ast.Compare) and isinstance(e.ops[0], ast.Eq) and
         {text(e.left), text(e.comparators[0])} in ({t, "''"}, {t, "u''"}))
    itx = r.expand(g.generators[0].iter, node.id)
    return cell_empty and any(isinstance(x, ast.Name) and x.id == cv for x in ast.walk(itx))
  # an iteration that ends without keeping the column must have seen: no header, all cells empty
  ok = bool(keeps) and all(
    r.guarded(h, no_header, False, starts=first, removed=keeps) and
    r.guarded(h, all_empty, True, starts=first, removed=keeps) for h in heads)
  # and the loop is never left early
  for b in body:
    for s_ in cfg.succ[b]:
      if s_ not in body and s_ not in heads and s_ != cfg.raise_exit.id:
        ok = False
  run.ob(R4, fn.qualname, "if not header and all(val == '' for val in col['data']): continue",
         "only header-less, entirely empty columns are removed", ok, fi=fn.fi)


def r5_stream(run, w):
  R5 = run.rule("C32-R5", "the text stream handed to the csv reader is opened without newline "
                "translation (codecs.open, or open(..., newline=''))", floor=1)
  mod = w.repo.module("imports.import_csv")
  n_ob = 0
  for name, fi in sorted(mod.functions.items()):
    fn = ifn(w, fi.qualname)
    r = res_of(w, fn)
    for (n, c, nm) in fn.calls():
      if not endswith(nm, "_parse_open_file"):
        continue
      h = call_arg(c, 0, "file_obj")
      if h is None:
        continue
      # what the handle is: `with <open call> as h`, or h = <open call>
      opener = None
      if isinstance(h, ast.Call):
        opener = h
      elif isinstance(h, ast.Name):
        for wn in r.cfg.nodes:
          if wn.kind == "with" and r.cfg.dominated_by(n.id, {wn.id}):
            for it in wn.stmt.items:
              if it.optional_vars is not None and text(it.optional_vars) == h.id and \
                  wn.id in r.reaching(n.id, h.id)[0]:
                opener = it.context_expr
        if opener is None:
          b = r.binding(n.id, h.id)
          if b is not None:
            opener = b[0]
      if not isinstance(opener, ast.Call):
        continue          # a stream supplied by the caller (parameter, in-memory buffer)
      on = fn.name(opener) or ""
      if on == "codecs.open":
        ok, why = True, None
      elif on in ("open", "io.open"):
        mode = call_arg(opener, 1, "mode")
        if mode is not None and isinstance(mode, ast.Constant) and "b" in str(mode.value):
          raise AnalysisError("%s: a binary stream is handed to the csv reader" % fi.qualname)
        nl = call_arg(opener, 5, "newline")
        ok = isinstance(nl, ast.Constant) and nl.value == ""
        why = None if ok else ("text-mode open() without newline='' translates \\r\\n and \\r "
                               "inside quoted cells before the csv module sees them")
      else:
        continue          # some other stream factory: not decided here
      n_ob += 1
      run.ob(R5, fi.qualname, "with %s(...) as f: _parse_open_file(f, ...)" % on,
             "carriage returns inside quoted cells reach the csv reader unchanged", ok,
             witness=why, fi=fi, node=opener)
  if not n_ob:
    raise AnalysisError("import_csv: no place where a file is opened and handed to "
                        "_parse_open_file was found")


CSV = "sandbox/grist/imports/import_csv.py"
PD = "sandbox/grist/parse_data.py"
VARIANTS = [
  ("width-from-sample", CSV, "  headers = import_utils.expand_headers(headers, 0, rows)\n", "", "C32-R1"),
  ("width-from-sample-rows", CSV, "  headers = import_utils.expand_headers(headers, 0, rows)\n",
   "  headers = import_utils.expand_headers(headers, 0, sample_rows)\n", "C32-R1"),
  ("rows-bounded", CSV, "  rows = rows[data_offset:]\n", "  rows = rows[data_offset:100000]\n", "C32-R1"),
  ("no-padding", PD, """    if missing_values > 0:
      row.extend([""] * missing_values)
""", "", "C32-R2"),
  ("skip-blank-rows", PD, """    # Make sure we have a value for every column.
""", """    if not any(row):
      continue
    # Make sure we have a value for every column.
""", "C32-R2"),
  ("empty-cells-not-stored", PD, "      conv.convert_and_add(cell)\n", "      if cell != '':\n        conv.convert_and_add(cell)\n", "C32-R2"),
  ("fewer-column-converters", PD, "  col_converters = [ColumnConverter(c) for c in converters]",
   "  col_converters = [ColumnConverter(c) for c in converters if c is not None]", "C32-R2"),
  ("converter-drops-failed", PD, """    except Exception:
      self._all_col_values.append(str(value))""", """    except Exception:
      pass""", "C32-R3"),
  ("converter-narrow-except", PD, """    except Exception:
      self._all_col_values.append(str(value))""", """    except ValueError:
      self._all_col_values.append(str(value))""", "C32-R3"),
  ("universal-newlines", CSV, 'with codecs.open(file_path, mode="r", encoding=encoding, errors="custom") as f:',
   'with open(file_path, mode="r", encoding=encoding, errors="custom") as f:', "C32-R5"),
  ("filter-drops-headerless", CSV, 'if not header and all(val == "" for val in col_data["data"]):',
   'if not header or all(val == "" for val in col_data["data"]):', "C32-R4"),
]
