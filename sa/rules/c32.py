"""C32 CSV import keeps every cell -- structural clauses."""
import ast
from ..fn import World
from ..index import AnalysisError, dotted
from ..astutil import text, short, endswith, calls_in, walk_no_nested, names_loaded
from ..dataflow import DefUse

EXPLANATION = (
  "Decides that no cell can be dropped by construction: the column count given to "
  "parse_data.get_table_data is derived from the very row list it is given, not from a "
  "constant-bounded sample of it (R1); get_table_data pads short rows to the converter count and "
  "feeds every row to every converter, stopping early only for an explicit NUM_ROWS (R2); each "
  "column converter stores exactly one value per cell on every path, conversion failures included "
  "(R3); the column filter drops only columns with no header and no non-empty cell (R4). Not "
  "decided: the csv module's own tokenisation, header guessing heuristics.")


def check(run, repo, tier):
  w = World(repo)
  r1_width(run, w)
  r2_table_data(run, w)
  r3_converter(run, w)
  r4_filter(run, w)


def _sample_names(fn):
  """Local names bound to a bounded slice of another local list (x = rows[:n])."""
  out = {}
  for s in fn.node.body:
    for n in walk_no_nested(s):
      if isinstance(n, ast.Assign) and isinstance(n.targets[0], ast.Name) and \
          isinstance(n.value, ast.Subscript) and isinstance(n.value.slice, ast.Slice) and \
          n.value.slice.upper is not None and isinstance(n.value.value, ast.Name):
        out[n.targets[0].id] = n.value.value.id
  return out


def r1_width(run, w):
  R1 = run.rule("C32-R1", "the column count passed to get_table_data depends on the full row list "
                "it is given, not only on a bounded sample", floor=2)
  fn = w.fn("imports.import_csv._parse_open_file")
  cfg = fn.cfg
  calls = [(n, c) for (n, c, nm) in fn.calls() if endswith(nm, "get_table_data")]
  if len(calls) != 1:
    raise AnalysisError("_parse_open_file: expected one get_table_data call")
  n, c = calls[0]
  rows_arg, width_arg = c.args[0], c.args[1]
  if not isinstance(rows_arg, ast.Name):
    raise AnalysisError("get_table_data rows argument is not a local name")
  rows = rows_arg.id
  du = DefUse(fn)
  samples = _sample_names(fn)
  # the width expression: len(<var>)
  ok_shape = isinstance(width_arg, ast.Call) and dotted(width_arg.func) == "len" and \
      isinstance(width_arg.args[0], ast.Name)
  if not ok_shape:
    raise AnalysisError("width argument is not len(<local>)")
  hv = width_arg.args[0].id
  # the last definition of rows that reaches the call
  rows_defs = [d for d in du.defs.get(rows, ()) if cfg.dominated_by(n.id, {d})]
  rows_last = [d for d in rows_defs if not (cfg.reach_after({d}) & set(rows_defs) -
                                            {d}) or True]
  # definitions of the header list that dominate the call and mention the full row list, with no
  # redefinition of the row list between them and the call
  good = []
  for d in du.defs.get(hv, ()):
    node = cfg.nodes[d]
    if not cfg.dominated_by(n.id, {d}):
      continue
    used = set()
    for e in node.exprs:
      used |= names_loaded(e)
    if rows not in used:
      continue
    # no later rebinding of rows on the way to the call
    later_rows = cfg.reach_after({d}) & du.defs.get(rows, set()) & \
        cfg.reach({n.id}, forward=False)
    # and no later rebinding of the header list that forgets the full rows
    later_h = [x for x in (cfg.reach_after({d}) & du.defs.get(hv, set()) &
                           cfg.reach({n.id}, forward=False)) if x != d]
    if not later_rows and not later_h:
      good.append(d)
  wit = None
  if not good:
    srcs = sorted({nm for d in du.defs.get(hv, ()) for e in cfg.nodes[d].exprs
                   for nm in names_loaded(e) if nm in samples})
    wit = "every definition of %s reaching the call is computed from %s only" % (
      hv, ", ".join("%s = %s[:..]" % (s_, samples[s_]) for s_ in srcs) or "other values")
  run.ob(R1, fn.qualname, "get_table_data(%s, len(%s), ...)" % (rows, hv),
         "the last definition of %s before the call is computed over the full list %s" % (hv, rows),
         bool(good), witness=wit, fi=fn.fi, node=c)
  # the column filter zips the converted columns with the same header list
  zips = [z for z in calls_in(fn.node) if dotted(z.func) == "zip" and len(z.args) == 2 and
          isinstance(z.args[1], ast.Name)]
  tv = n.stmt.targets[0].id if isinstance(n.stmt, ast.Assign) and \
      isinstance(n.stmt.targets[0], ast.Name) else None
  ok = any(text(z.args[0]) == tv and z.args[1].id == hv for z in zips)
  run.ob(R1, fn.qualname, "zip(%s, %s)" % (tv, hv), "converted columns are paired with the header "
         "list whose length sized them (zip cannot truncate)", ok, fi=fn.fi)
  # the rows handed on are all rows from the data offset (an unbounded slice)
  ok = any(isinstance(v, ast.Subscript) and isinstance(v.slice, ast.Slice) and
           v.slice.upper is None and v.slice.step is None and isinstance(v.value, ast.Name)
           for v in _defs(fn.node, rows)) and \
      any(isinstance(v, ast.Call) and dotted(v.func) == "list" for v in _defs(fn.node, rows))
  run.ob(R1, fn.qualname, "%s = list(reader); %s = %s[data_offset:]" % (rows, rows, rows),
         "all rows of the file from the data offset on are converted", ok, fi=fn.fi)


def _defs(fnode, name):
  return [n.value for s in fnode.body for n in walk_no_nested(s)
          if isinstance(n, ast.Assign) and any(isinstance(t, ast.Name) and t.id == name
                                               for t in n.targets)]


def r2_table_data(run, w):
  R2 = run.rule("C32-R2", "get_table_data pads short rows to the number of converters and feeds "
                "every row to every converter", floor=4)
  fn = w.fn("parse_data.get_table_data")
  ps = fn.fi.params()
  rows, ncols = ps[0], ps[1]
  loops = [s for s in fn.node.body if isinstance(s, ast.For) and
           ((isinstance(s.iter, ast.Call) and dotted(s.iter.func) == "enumerate" and
             text(s.iter.args[0]) == rows) or text(s.iter) == rows)]
  if len(loops) != 1:
    raise AnalysisError("get_table_data: row loop not found")
  lp = loops[0]
  rowvar = text(lp.target.elts[1]) if isinstance(lp.target, ast.Tuple) else text(lp.target)
  # roles, not spellings: `converters` is the local bound to _guess_basic_types(..., num_columns);
  # `col_converters` the local bound to one ColumnConverter per element of it
  cv_names = [t.id for s in fn.node.body for n in walk_no_nested(s) if isinstance(n, ast.Assign)
              and isinstance(n.value, ast.Call) and endswith(fn.name(n.value) or "", "_guess_basic_types")
              for t in n.targets if isinstance(t, ast.Name)]
  if len(cv_names) != 1:
    raise AnalysisError("get_table_data: the local holding _guess_basic_types(...) not found")
  CV = cv_names[0]
  conv_defs = _defs(fn.node, CV)
  ok = all(isinstance(v, ast.Call) and len(v.args) == 2 and text(v.args[1]) == ncols
           for v in conv_defs)
  g = w.fn("parse_data._guess_basic_types")
  gp = g.fi.params()
  ok = ok and any(isinstance(n, ast.ListComp) and isinstance(n.generators[0].iter, ast.Call) and
                  dotted(n.generators[0].iter.func) == "range" and
                  text(n.generators[0].iter.args[0]) == gp[1] for n in ast.walk(g.node))
  run.ob(R2, fn.qualname, "converters = _guess_basic_types(..., %s)" % ncols,
         "one converter per requested column", ok, fi=fn.fi)
  cc_names = [t.id for s in fn.node.body for n in walk_no_nested(s) if isinstance(n, ast.Assign)
              and isinstance(n.value, ast.ListComp) and len(n.value.generators) == 1 and
              not n.value.generators[0].ifs and text(n.value.generators[0].iter) == CV and
              isinstance(n.value.elt, ast.Call) and
              endswith(fn.name(n.value.elt) or "", "ColumnConverter")
              for t in n.targets if isinstance(t, ast.Name)]
  ok = len(cc_names) == 1 and len(_defs(fn.node, cc_names[0])) == 1
  run.ob(R2, fn.qualname, "col_converters = [ColumnConverter(c) for c in converters]",
         "one column converter per converter", ok, fi=fn.fi)
  CC = cc_names[0] if cc_names else "col_converters"
  # padding: row.extend([""] * (len(converters) - len(row))) before the zip
  cfg = fn.cfg
  pads = set()
  for n in cfg.nodes:
    for c in calls_in(n.exprs):
      if fn.name(c) == rowvar + ".extend":
        pads.add(n.id)
  feeds = [(n, s) for n in cfg.nodes if n.kind == "for" and isinstance(n.stmt.iter, ast.Call) and
           dotted(n.stmt.iter.func) == "zip" and
           [text(a) for a in n.stmt.iter.args] == [rowvar, CC]
           for s in [n.stmt]]
  ok = len(feeds) == 1 and any(fn.name(c) and fn.name(c).endswith(".convert_and_add")
                               for c in calls_in(feeds[0][1].body))
  run.ob(R2, fn.qualname, "for cell, conv in zip(row, col_converters): conv.convert_and_add(cell)",
         "every cell of the (padded) row reaches its column's converter", ok, fi=fn.fi)
  # the pad amount is len(converters) - len(row), applied when positive, before feeding
  pad_ok = False
  du = DefUse(fn)
  for s in ast.walk(lp):
    if isinstance(s, ast.If) and any(fn.name(c) == rowvar + ".extend" for c in calls_in(s.body)):
      t = s.test
      mv = None
      if isinstance(t, ast.Compare) and isinstance(t.ops[0], ast.Gt) and \
          isinstance(t.comparators[0], ast.Constant) and t.comparators[0].value == 0:
        mv = text(t.left)
      if mv is not None:
        # the tested amount, with named intermediate values inlined, is len(converters) - len(row)
        amount = text(du.inline(t.left, stop=(CV, CC, rowvar)))
        if amount.replace(" ", "") in ("len(%s)-len(%s)" % (CV, rowvar),
                                       "len(%s)-len(%s)" % (CC, rowvar)):
          ext = [c for c in calls_in(s.body) if fn.name(c) == rowvar + ".extend"][0]
          a = ext.args[0]
          stop = (CV, CC, rowvar)
          pad_ok = isinstance(a, ast.BinOp) and isinstance(a.op, ast.Mult) and \
              amount in (text(du.inline(a.left, stop=stop)), text(du.inline(a.right, stop=stop)))
  feed_ids = {n.id for (n, s) in feeds}
  pad_tests = {n.id for n in cfg.nodes if n.kind == "if" and
               any(fn.name(c) == rowvar + ".extend" for c in calls_in(n.stmt.body))}
  run.ob(R2, fn.qualname, "if missing > 0: row.extend([''] * missing)",
         "rows shorter than the table are padded before they are fed, so zip never truncates the "
         "converters", pad_ok and bool(pad_tests) and
         all(cfg.dominated_by(f, pad_tests) for f in feed_ids) and
         not (cfg.reach_after(feed_ids) & pads - cfg.reach_after(pad_tests)), fi=fn.fi)
  # early exits from the row loop only for an explicit NUM_ROWS limit
  bad = []
  def scan(stmts, conds):
    for s in stmts:
      if isinstance(s, (ast.Break, ast.Continue, ast.Return)):
        if not any(ps[2] in names_loaded(c) for c in conds):
          bad.append(s)
      elif isinstance(s, ast.If):
        scan(s.body, conds + [s.test])
        scan(s.orelse, conds + [s.test])
      elif isinstance(s, (ast.For, ast.While, ast.With, ast.Try)):
        for b in (getattr(s, "body", []), getattr(s, "orelse", []), getattr(s, "finalbody", [])):
          scan(b, conds)
  scan(lp.body, [])
  run.ob(R2, fn.qualname, "row loop leaves early only under the %s option" % ps[2],
         "no data row is skipped unless the caller limited the row count", not bad, fi=fn.fi)


def r3_converter(run, w):
  R3 = run.rule("C32-R3", "ColumnConverter.convert_and_add stores exactly one value per call on "
                "every path; get_grist_column returns that list", floor=2)
  fn = w.fn("parse_data.ColumnConverter.convert_and_add")
  cfg = fn.xcfg
  apps = fn.nodes_calling(lambda c, nm, f: nm == "self._all_col_values.append", cfg)
  ok = bool(apps) and cfg.dominated_by(cfg.exit.id, apps) and \
      cfg.raise_exit.id not in cfg.reach({cfg.entry.id}, removed=apps) or False
  # at most once per path
  once = all(not (cfg.reach_after({a}) & apps) for a in apps)
  # on the success path the value slot is later filled: index recorded before the placeholder
  run.ob(R3, fn.qualname, "self._all_col_values.append(...) exactly once on every path",
         "a converted value, or the text of a value that failed to convert, is stored for every "
         "cell", bool(apps) and cfg.dominated_by(cfg.exit.id, apps) and once, fi=fn.fi)
  handlers = [n for n in cfg.nodes if n.kind == "handler"]
  ok = any(h.stmt.type is not None and text(h.stmt.type) in ("Exception", "BaseException") or
           h.stmt.type is None for h in handlers)
  run.ob(R3, fn.qualname, "except Exception: store str(value)", "a conversion failure of any kind "
         "keeps the cell as text", ok, fi=fn.fi)
  g = w.fn("parse_data.ColumnConverter.get_grist_column")
  rets = [s for s in ast.walk(g.node) if isinstance(s, ast.Return)]
  ok = len(rets) == 1 and isinstance(rets[0].value, ast.Dict) and \
      any(text(v) == "self._all_col_values" for v in rets[0].value.values)
  ok = ok and any(isinstance(s, ast.For) and isinstance(s.iter, ast.Call) and
                  dotted(s.iter.func) == "zip" and
                  text(s.iter.args[0]) == "self._converted_indices" for s in ast.walk(g.node))
  run.ob(R3, g.qualname, "data = self._all_col_values (converted slots filled by index)",
         "the column returned has one entry per cell received", ok, fi=g.fi)


def r4_filter(run, w):
  R4 = run.rule("C32-R4", "a column is dropped only when it has no header and no non-empty cell",
                floor=1)
  fn = w.fn("imports.import_csv._parse_open_file")
  loops = [s for s in ast.walk(fn.node) if isinstance(s, ast.For) and
           isinstance(s.iter, ast.Call) and dotted(s.iter.func) == "zip" and
           isinstance(s.target, ast.Tuple)]
  ok = False
  for lp in loops:
    cv, hv = [text(e) for e in lp.target.elts]
    skips = [s for s in lp.body if isinstance(s, ast.If) and
             any(isinstance(b, ast.Continue) for b in s.body)]
    others = [s for s in ast.walk(lp) if isinstance(s, (ast.Break, ast.Return))]
    if len(skips) == 1 and not others:
      t = skips[0].test
      if isinstance(t, ast.BoolOp) and isinstance(t.op, ast.And) and len(t.values) == 2:
        a, b = t.values
        ok = text(a) == "not " + hv and isinstance(b, ast.Call) and dotted(b.func) == "all" and \
            isinstance(b.args[0], ast.GeneratorExp) and \
            text(b.args[0].elt).replace("'", '"') in ('val == ""', 'not val') and \
            cv in text(b.args[0].generators[0].iter)
  run.ob(R4, fn.qualname, "if not header and all(val == '' for val in col['data']): continue",
         "only header-less, entirely empty columns are removed", ok, fi=fn.fi)


CSV = "sandbox/grist/imports/import_csv.py"
PD = "sandbox/grist/parse_data.py"
VARIANTS = [
  ("width-from-sample", CSV, "  headers = import_utils.expand_headers(headers, 0, rows)\n", "", "C32-R1"),
  ("width-from-sample-rows", CSV, "  headers = import_utils.expand_headers(headers, 0, rows)\n",
   "  headers = import_utils.expand_headers(headers, 0, sample_rows)\n", "C32-R1"),
  ("rows-bounded", CSV, "  rows = rows[data_offset:]\n", "  rows = rows[data_offset:100000]\n", "C32-R1"),
  ("no-padding", PD, """    if missing_values > 0:
      row.extend([""] * missing_values)
""", "", "C32-R2"),
  ("skip-blank-rows", PD, """    # Make sure we have a value for every column.
""", """    if not any(row):
      continue
    # Make sure we have a value for every column.
""", "C32-R2"),
  ("converter-drops-failed", PD, """    except Exception:
      self._all_col_values.append(str(value))""", """    except Exception:
      pass""", "C32-R3"),
  ("converter-narrow-except", PD, """    except Exception:
      self._all_col_values.append(str(value))""", """    except ValueError:
      self._all_col_values.append(str(value))""", "C32-R3"),
  ("filter-drops-headerless", CSV, 'if not header and all(val == "" for val in col_data["data"]):',
   'if not header or all(val == "" for val in col_data["data"]):', "C32-R4"),
]
