"""C29 Read-only calls leave the document untouched -- effect analysis over the call graph.

Design notes (DESIGN.md section 4, C29):
  * R1 is the design's R1 (effect analysis from the read-only entry points registered in main.run,
    cut at Engine.get_formula_value). Besides doc-action and log-write effects it also looks for
    direct state writes (column mutators, add_records / load_table / rebuild_usercode, schema
    writes) and for dirtying calls (invalidate_*): the latter are allowed only inside the lookup
    helper machinery, which a read-only call may create on demand (private `#lookup...` columns,
    withheld from fetch_table and from the change flusher -- C02-R5/R8).
  * R2 is the guard the cut relies on (checkpoint / undo in finally / _sync_request restored).
  * R3 is the design's R2: the on-demand recalculation edge (_use_node -> _recompute) is cut under
    the stated assumption "engine at rest => recompute_map empty", checked as the post-condition
    shape of a successful apply_user_actions.
  * R4 (added): the guard of R2 only helps if _undo_to_checkpoint reverts the right actions: the
    slice of out_actions.undo it replays starts at the checkpoint component that *is* the undo
    length (read from _get_undo_checkpoint's own tuple), runs to the end and is replayed whole.
  * R3 also decides that the auto-removal pass is repeated after every recalculation until it
    reports nothing: the property's observable "a following Calculate emits no changes" needs an
    engine at rest with nothing queued, not only an empty recompute_map.
  Attribute reads that run code (Record fields, Engine.autocomplete_context) are invisible to a
  call graph; the ones the read-only entry points rely on are listed as explicit seeds below.
  R2-R4 are decided on the inlined, alias-normalised form of the anchored functions (_h_A.py).
"""
import ast
from ..fn import World
from ..index import AnalysisError, dotted
from ..astutil import text, short, endswith, calls_in, walk_no_nested, names_loaded
from ..callgraph import CallGraph
from .. import events as E
from .. import types as T
from ..dataflow import DefUse
from ._h_A import canonicalise
from ._h_A import (FactReach, Facts, branch_succ, loop_breaks, nodes_of_stmts, nodes_for, kwarg,
                   is_const, stmts_in, inliner, expander, bind_call, call_arg, real_loops, Owners,
                   followed, returns_of, value_at, strip_wrappers, built_list, need, obj_sites,
                   undissolved, MUTATING, opaque_parts)

EXPLANATION = (
  "Effect analysis over the resolved call graph from the seven read-only entry points exported by "
  "main.run. R1: outside two cut edges, no function reachable from a read-only entry point "
  "contains a doc-action emission (gateway, apply_doc_action, apply_user_actions, DocActions / "
  "user-action dispatch), a write to the action log (anything under out_actions), a direct state "
  "write (column mutators, add_records, load_table, rebuild_usercode, schema), or a dirtying call "
  "(invalidate_*) other than the lookup helpers' own. R2: the first cut, Engine.get_formula_value, "
  "is guarded: checkpoint before evaluation, undo to that checkpoint in `finally` on normal and "
  "exceptional exits, _sync_request restored; _recompute_one_cell has no other read-only caller. "
  "R3: the second cut, the on-demand recalculation edge _use_node -> _recompute, is inert under "
  "the assumption 'engine at rest => recompute_map empty', checked as the shape of a successful "
  "apply_user_actions: _update_loop without ignore_other_changes only returns with an empty "
  "recompute_map, _bring_all_up_to_date runs it that way, and every possibly dirtying step of "
  "apply_user_actions is followed by _bring_all_up_to_date, and the auto-removal pass is repeated "
  "after every recalculation until it reports nothing (nothing stays queued for a later Calculate "
  "to emit). R4: the revert the first cut relies "
  "on replays exactly the undo actions recorded since the checkpoint (_undo_to_checkpoint slices "
  "out_actions.undo from the checkpointed *undo* length to the end and hands all of it to "
  "ApplyUndoActions). R5: the containers the bundle epilogue drains into doc actions without "
  "evaluating formulas (found structurally: DocModel._auto_remove_set, drained by "
  "apply_auto_removes) and that formula code can write outside a user action (setAutoRemove, "
  "reached from UserTable.getSummarySourceGroup and the metadata auto-remove formulas) are copied "
  "before the evaluation in get_formula_value and restored from that copy on every exit. "
  "Not decided: the state after a "
  "FAILED bundle (rollback leaves dirty cells a read-only call may recompute), effects of code "
  "reached only through attribute access not listed as a seed, and effects inside user formulas "
  "(opaque; they run only behind the two cuts).")

ENTRY_NAMES = ("fetch_table", "fetch_meta_tables", "get_formula_error", "evaluate_formula",
               "get_formula_prompt", "autocomplete", "find_col_from_values")

GUARDED = "engine.Engine.get_formula_value"
ON_DEMAND = "engine.Engine._recompute"
CUTS = {GUARDED: "evaluation bracketed by checkpoint / undo (R2)",
        ON_DEMAND: "on-demand recalculation, inert at rest (R3)"}

# The second cut is the *edge* from a read to the recalculation machinery: it is the same edge when
# the body of _recompute is written in place in _use_node.
USE_NODE = "engine.Engine._use_node"
ON_DEMAND_MACHINERY = ("engine.Engine._update_loop", "engine.Engine._recompute_step",
                       "engine.Engine._flush_changes")

# Code run by attribute access (no Call node), per entry point that relies on it.
PROPERTY_SEEDS = {
  "autocomplete": [
    ("engine.Engine.autocomplete_context", "property read in Engine.autocomplete"),
    ("table.Table._add_field_to_record_classes.record_field",
     "Record field access: rlcompleter / eval_suggestion getattr on the sample and example record"),
    ("table.Table._add_field_to_record_classes.recordset_field",
     "RecordSet field access through a reference-list field"),
    ("records.Record.__getattr__", "getattr fallback on a Record"),
    ("records.RecordSet.__getattr__", "getattr fallback on a RecordSet"),
  ],
}

# Functions allowed to contain a dirtying call: the lookup helper machinery (its nodes are private
# helper columns created on demand) and the engine's own forwarders.
DIRTY_OWNERS_MODULES = ("lookup",)
DIRTY_FORWARDERS = ("engine.Engine.invalidate_records", "engine.Engine.invalidate_column",
                    "depend.Graph.invalidate_deps")
DIRTY_CALLS = ("invalidate_records", "invalidate_column", "invalidate_deps")


def check(run, repo, tier):
  canonicalise(repo)
  w = World(repo)
  cg = CallGraph(w)
  r1_effects(run, w, cg)
  r2_guard(run, w)
  r3_at_rest(run, w, cg)
  r4_revert_since_checkpoint(run, w)
  r5_queued_effects(run, w, cg)


# ------------------------------------------------------------------------------------------
def effect_sites(w, fi, fn=None):
  """[(kind, ast node)] primitive effect sites lexically in function fi (or in the given Fn over a
  rewritten copy of it)."""
  fn = fn or w.fn_of(fi)
  fi = fn.fi
  out = []
  dnames = set(w.doc_action_names())
  for s in fi.node.body:
    for x in walk_no_nested(s, into_lambda=True):
      if isinstance(x, ast.Call):
        nm = fn.name(x)
        f = x.func
        if E.is_gateway_call(x, nm, fn):
          out.append(("doc-action", x))
        elif E.is_engine_call("apply_doc_action")(x, nm, fn) or \
            E.is_engine_call("apply_user_actions")(x, nm, fn) or \
            E.is_engine_call("_apply_one_user_action")(x, nm, fn):
          out.append(("doc-action", x))
        elif isinstance(f, ast.Call) and dotted(f.func) == "getattr" and f.args and \
            (endswith(fn.name(f.args[0]) or "", "doc_actions", "user_actions") or
             fn.type_of(f.args[0]) in (T.DOCACTIONS, T.USERACTIONS)):
          out.append(("doc-action", x))
        elif isinstance(f, ast.Attribute) and f.attr in dnames and \
            fn.type_of(f.value) == T.DOCACTIONS:
          out.append(("doc-action", x))
        if nm is not None and "out_actions" in nm.split(".")[:-1]:
          out.append(("log-write", x))
        if E.is_column_mutation(x, nm, fn) or E.is_engine_mutation(x, nm, fn):
          out.append(("state-write", x))
        if isinstance(f, ast.Attribute) and f.attr in DIRTY_CALLS:
          if fi.module.name not in DIRTY_OWNERS_MODULES and fi.qualname not in DIRTY_FORWARDERS:
            out.append(("dirtying", x))
      elif isinstance(x, (ast.Assign, ast.AugAssign, ast.Delete, ast.AnnAssign)):
        tg = x.targets if isinstance(x, (ast.Assign, ast.Delete)) else [x.target]
        for t in tg:
          for el in (t.elts if isinstance(t, (ast.Tuple, ast.List)) else [t]):
            base = el
            while isinstance(base, ast.Subscript):
              base = base.value
            if isinstance(base, ast.Name) and el is base:
              continue          # binding a local name writes nothing
            d = fn.aliases.dotted(base) if isinstance(base, (ast.Attribute, ast.Name)) else None
            if d is not None and "out_actions" in d.split("."):
              if d.split(".")[-1] == "out_actions" and el is base and \
                  fi.qualname == "engine.Engine.__init__":
                continue
              out.append(("log-write", x))
            if isinstance(el, ast.Subscript) and fn.type_of(el.value) in E.SCHEMA_TAGS:
              out.append(("state-write", x))
            if isinstance(el, ast.Attribute) and el.attr == "schema" and \
                fn.type_of(el.value) == T.ENGINE:
              out.append(("state-write", x))
  return out


def forward(cg, repo, seeds, cut):
  """{qualname: parent qualname or None} reachable from seeds, not entering `cut`."""
  seen = {}
  work = []
  for s in seeds:
    if s not in seen:
      seen[s] = None
      work.append(s)
  while work:
    x = work.pop()
    if x in cut:
      continue
    fi = repo.funcs.get(x)
    if fi is None:
      continue
    for q in sorted(cg.callees(fi)):
      if x == USE_NODE and q in ON_DEMAND_MACHINERY:
        continue        # the on-demand recalculation written in place: the same cut edge (R3)
      if q not in seen:
        seen[q] = x
        work.append(q)
  return seen


def chain_to(seen, q):
  out = [q]
  while seen.get(out[-1]) is not None:
    out.append(seen[out[-1]])
  return " <- ".join(out)


def r1_effects(run, w, cg):
  R1 = run.rule("C29-R1", "no read-only entry point reaches a doc-action, log-write, state-write "
                "or dirtying effect outside the guarded evaluation and the on-demand recalculation "
                "edge", floor=7)
  repo = w.repo
  for c_ in CUTS:
    need(c_ in repo.funcs, "the cut %s (%s) vanished: without it the effect analysis would run "
         "into the evaluation machinery" % (c_, CUTS[c_]))
  runf = w.fn("main.run")
  eff_cache = {}
  n_funcs = set()
  for name in ENTRY_NAMES:
    q = "main.run.%s" % name
    if q not in repo.funcs:
      raise AnalysisError("read-only entry point %s is no longer registered in main.run" % name)
    fi = repo.funcs[q]
    if not any(dotted(d) == "export" for d in fi.decorators()):
      raise AnalysisError("main.run.%s is no longer exported" % name)
    seeds = [q]
    for (pq, why) in PROPERTY_SEEDS.get(name, []):
      if pq not in repo.funcs:
        raise AnalysisError("property seed %s vanished (%s)" % (pq, why))
      seeds.append(pq)
    seen = forward(cg, repo, seeds, set(CUTS))
    if len(seen) < 3:
      raise AnalysisError("call graph from %s is degenerate (%d functions)" % (q, len(seen)))
    n_funcs |= set(seen)
    bad = []
    for fq in sorted(seen):
      if fq in CUTS:
        continue
      f2 = repo.funcs.get(fq)
      if f2 is None:
        continue
      if fq not in eff_cache:
        eff_cache[fq] = effect_sites(w, f2)
      for (kind, node) in eff_cache[fq]:
        bad.append((fq, kind, node))
    ok = not bad
    wit = None
    eff_fi, eff_node = fi, None
    if bad:
      def depth(b):
        return chain_to(seen, b[0]).count(" <- ")
      fq, kind, node = min(bad, key=depth)
      eff_fi, eff_node = repo.funcs[fq], node
      wit = "%s effect `%s` in %s; call chain: %s" % (kind, short(node, 70), fq, chain_to(seen, fq))
    run.ob(R1, q, "read-only entry point %s (cut at %s)"
           % (name, ", ".join(c.split(".")[-1] for c in sorted(CUTS))),
           "nothing a read-only call can reach emits a doc action, writes the action log, writes "
           "document state or marks cells dirty", ok, witness=wit, fi=eff_fi, node=eff_node)
    # which cuts this entry point actually relies on (evidence only)
    used = sorted(c.split(".")[-1] for c in CUTS if c in seen)
    run.note("C29-R1 %s: %d functions, cuts reached: %s" % (name, len(seen), ", ".join(used) or "none"))
  run.extra["functions_reachable_from_readonly_entries"] = len(n_funcs)
  run.extra["calls_resolved"] = cg._resolved
  run.extra["calls_unresolved_or_external"] = cg._unresolved
  # sanity of the effect detector itself: the gateway and the rollback must be seen as effectful
  for q, kind in (("useractions.UserActions._do_doc_action", "log-write"),
                  ("engine.Engine._undo_to_checkpoint", "log-write"),
                  ("docactions.DocActions.BulkUpdateRecord", "state-write"),
                  ("engine.Engine._update_table_model", "dirtying")):
    # (helpers the effect was moved into are dissolved first: the detector, not the layout of the
    # code, is what is being tested)
    kinds = {k for (k, n) in effect_sites(w, repo.func(q), fn=inliner(w).fn(q))}
    if kind not in kinds:
      raise AnalysisError("effect detector no longer recognises the %s effect of %s" % (kind, q))
  # and the cuts must be what separates the entry points from effects (otherwise the rule is vacuous)
  seen_all = forward(cg, repo, ["main.run.%s" % n for n in ENTRY_NAMES], set())
  reached_eff = [fq for fq in seen_all if fq in repo.funcs and effect_sites(w, repo.funcs[fq])]
  if not reached_eff:
    raise AnalysisError("without the cuts no effect is reachable either: call graph degraded")
  run.extra["effectful_functions_behind_cuts"] = len(reached_eff)


# ------------------------------------------------------------------------------------------
def r2_guard(run, w):
  R2 = run.rule("C29-R2", "Engine.get_formula_value: checkpoint before evaluation, undo to it in "
                "finally on every exit, _sync_request restored; no unguarded read-only caller of "
                "_recompute_one_cell", floor=5)
  inl = inliner(w)
  own = Owners(w)
  gv = inl.fn(GUARDED)
  ex = expander(gv)
  cfg = gv.xcfg
  cps = [(n, n.stmt.targets[0].id) for n in cfg.nodes if n.kind == "stmt" and
         isinstance(n.stmt, ast.Assign) and len(n.stmt.targets) == 1 and
         isinstance(n.stmt.targets[0], ast.Name) and
         isinstance(n.stmt.value, ast.Call) and
         endswith(gv.name(n.stmt.value), "self._get_undo_checkpoint")]
  ev = gv.nodes_calling(lambda c, nm, f: endswith(nm, "self._recompute_one_cell"), cfg)
  if len(cps) != 1 or not ev:
    raise AnalysisError("get_formula_value: checkpoint or evaluation not found")
  cpn, cpv = cps[0]
  exits = {cfg.exit.id, cfg.raise_exit.id}
  run.ob(R2, gv.qualname, "<cp> = self._get_undo_checkpoint() before _recompute_one_cell",
         "the checkpoint describes the action log before the formula ran",
         all(cfg.dominated_by(e, {cpn.id}) for e in ev) and
         not (cfg.reach_after(ev) & {cpn.id}), fi=gv.fi, node=cpn.stmt)
  utf = w.repo.func("engine.Engine._undo_to_checkpoint")
  def undoes(c, nm, f):
    if not endswith(nm, "self._undo_to_checkpoint"):
      return False
    a = call_arg(c, utf, utf.params()[1])
    return a is not None and ex.norm(a) == ex.norm(ast.Name(id=cpv, ctx=ast.Load()))
  undo = gv.nodes_calling(undoes, cfg)
  if not undo:
    und = undissolved(w, gv, cfg)
    need(not und, "get_formula_value: calls `%s`, which cannot be followed; whether the doc "
         "actions of the evaluation are reverted cannot be decided" % (short(und[0]) if und else ""))
  for e in sorted(ev):
    ok = bool(undo) and cfg.postdominated_by(e, undo, exits=exits)
    wit = None if ok else cfg.describe_path(cfg.path(e, exits, removed=undo, after=True))
    run.ob(R2, gv.qualname, "_recompute_one_cell(...) -> finally: self._undo_to_checkpoint(<cp>)",
           "doc actions produced by the formula (lookupOrAddDerived and the like) are reverted "
           "whether evaluation returns or raises", ok, witness=wit, fi=gv.fi,
           node=cfg.nodes[e].stmt)
  sets = [n for n in cfg.nodes if n.kind == "stmt" and isinstance(n.stmt, ast.Assign) and
          any(text(t) == "self._sync_request" for t in n.stmt.targets)]
  ons = {n.id for n in sets if not is_const(ex.expand(n.stmt.value), False)}
  offs = {n.id for n in sets if is_const(ex.expand(n.stmt.value), False)}
  if ons and not offs:
    und = undissolved(w, gv, cfg)
    need(not und, "get_formula_value: calls `%s`, which cannot be followed; whether _sync_request "
         "is reset cannot be decided" % (short(und[0]) if und else ""))
  for o in sorted(ons):
    ok = bool(offs) and cfg.postdominated_by(o, offs, exits=exits)
    run.ob(R2, gv.qualname, "self._sync_request = True ... finally: self._sync_request = False",
           "the synchronous-request mode does not outlive the read-only evaluation", ok,
           fi=gv.fi, node=cfg.nodes[o].stmt)
  # the evaluated cell's value is returned, not stored
  muts = E.mutation_nodes(gv, cfg)
  run.ob(R2, gv.qualname, "no column write in get_formula_value", "the recomputed value is "
         "returned to the caller, never stored", not muts, fi=gv.fi, nontrivial=False)
  # who may evaluate a single cell
  owners = {GUARDED: "guarded read-only evaluation",
            "engine.Engine._recompute_step": "the recalculation step"}
  for fi in w.repo.all_functions():
    for c in calls_in(fi.node.body):
      if isinstance(c.func, ast.Attribute) and c.func.attr == "_recompute_one_cell":
        os_ = own.of(fi, set(owners))
        ok = os_ <= set(owners)
        if ok:
          followed(inl, fi, os_)
        run.ob(R2, fi.qualname, "call of _recompute_one_cell", "a single cell is evaluated only by "
               "the recalculation step or under the read-only guard", ok, fi=fi,
               node=c, nontrivial=False)
  # the rollback is effective only inside a bundle's action group; outside, out_actions is the
  # group of the last bundle -- still a valid target for the checkpoint arithmetic (C01-R5, R4).


# ------------------------------------------------------------------------------------------
DIRTY_KINDS = ("doc-action", "state-write", "dirtying")


def _may_dirty(w, cg, fn, call):
  """True / False: the call can / cannot reach code that writes document state or marks cells
  dirty (effect analysis over everything it may invoke); None: its callee cannot be resolved."""
  nm = fn.name(call) or ""
  if nm in NOT_DIRTYING or nm.split(".")[0] in ("log", "logging", "traceback", "sys", "time"):
    return False
  if isinstance(call.func, ast.Name) and call.func.id in ("len", "bool", "list", "set", "dict",
                                                          "sorted", "isinstance", "str", "repr"):
    return False
  tg = cg.resolve(fn, call)
  if not tg:
    return None
  reach = forward(cg, w.repo, [f.qualname for f in tg], set())
  for q in reach:
    fi = w.repo.funcs.get(q)
    if fi is not None and any(k in DIRTY_KINDS for (k, x) in effect_sites(w, fi)):
      return True
  return False


# ------------------------------------------------------------------------------------------
def r3_at_rest(run, w, cg):
  R3 = run.rule("C29-R3", "a successful apply_user_actions leaves recompute_map empty: the update "
                "loop only returns empty-handed, the full recalculation runs it unrestricted, and "
                "every dirtying step of apply_user_actions is followed by a full recalculation",
                floor=5)
  run.assume("engine at rest (after a successful bundle or load) => recompute_map is empty and no "
             "auto-removal is queued (so a Calculate emits nothing); "
             "removal of unused lookup helpers after the loop dirties nothing (they have no "
             "dependents: remove_node_if_unused)")
  inl = inliner(w)
  # (a) _update_loop
  ul = inl.fn("engine.Engine._update_loop")
  uex = expander(ul)
  cfg = ul.cfg
  if "ignore_other_changes" not in ul.fi.params():
    raise AnalysisError("_update_loop: parameter ignore_other_changes vanished")
  whiles = real_loops(ul.node.body, ast.While)
  outer = [s for s in whiles
           if not any(s is not o and any(s is x for x in ast.walk(o)) for o in whiles)]
  if len(outer) != 1:
    raise AnalysisError("_update_loop: outer while loop not found")
  wl = outer[0]
  ok_test = uex.norm(wl.test) in ("self.recompute_map", "len(self.recompute_map) > 0",
                                  "len(self.recompute_map) != 0", "bool(self.recompute_map)") \
      and not wl.orelse
  need(ok_test, "_update_loop: the outer loop is not `while self.recompute_map:` (`while %s:`); "
       "when it ends cannot be followed" % short(wl.test))
  run.ob(R3, ul.qualname, "while self.recompute_map:", "the loop runs as long as any cell is dirty",
         ok_test, fi=ul.fi, node=wl, nontrivial=False)
  fr = Facts(cfg, {"ignore_other_changes"}, ex=uex)
  seen = fr.run([(cfg.entry.id, {"ignore_other_changes": False})])
  brk_nodes = set()
  for b in loop_breaks(wl):
    brk_nodes |= nodes_for(cfg, b)
  rets = {n.id for n in cfg.nodes if n.kind == "return"}
  hit = sorted((brk_nodes | rets) & set(seen))
  wn = nodes_for(cfg, wl)
  ok = ok_test and not hit and cfg.exit.id in seen and cfg.dominated_by(cfg.exit.id, wn)
  run.ob(R3, ul.qualname, "no break / return leaves the loop unless ignore_other_changes",
         "an unrestricted update loop returns normally only when recompute_map is empty", ok,
         fi=ul.fi, node=cfg.nodes[hit[0]].stmt if hit else wl,
         witness=None if ok else "line %d leaves the loop with dirty cells left"
         % (cfg.nodes[hit[0]].lineno if hit else wl.lineno))
  # nothing after the loop dirties cells
  after = cfg.reach_after(wn) - nodes_of_stmts(cfg, wl.body) - wn
  calls_after = [c for n in after for c in calls_in(cfg.nodes[n].exprs)
                 if (ul.name(c) or "") not in NOT_DIRTYING]
  for c in calls_after:
    need(_may_dirty(w, cg, ul, c) is not None, "_update_loop: cannot tell whether `%s`, called "
         "after the loop, marks cells dirty" % short(c))
  calls_after = [c for c in calls_after if _may_dirty(w, cg, ul, c)]
  run.ob(R3, ul.qualname, "no call after the loop", "nothing runs between the loop's exit test "
         "and the return", not calls_after, fi=ul.fi, nontrivial=False)
  # (b) _bring_all_up_to_date runs it unrestricted
  ba = inl.fn("engine.Engine._bring_all_up_to_date")
  bex = expander(ba)
  bcfg = ba.cfg
  loops = [(n, c) for (n, c, nm) in ba.calls() if nm == "self._update_loop"]
  if not loops:
    raise AnalysisError("_bring_all_up_to_date: _update_loop call not found")
  for (n, c) in loops:
    a = call_arg(c, ul.fi, "ignore_other_changes")
    need(a is not None and isinstance(bex.expand(a), ast.Constant), "_bring_all_up_to_date: the "
         "ignore_other_changes argument of `%s` is not a constant" % short(c))
    run.ob(R3, ba.qualname, "self._update_loop(<all dirty nodes>)", "the full recalculation does "
           "not stop at the requested work items",
           a is not None and is_const(bex.expand(a), False), fi=ba.fi, node=c)
  ok = bcfg.postdominated_by(bcfg.entry.id, {n.id for (n, c) in loops})
  run.ob(R3, ba.qualname, "every normal path runs the update loop", "a full recalculation always "
         "recalculates", ok, fi=ba.fi)
  # (c) apply_user_actions: dirtying steps are followed by a full recalculation
  au = inl.fn("engine.Engine.apply_user_actions")
  acfg = au.cfg
  recalc = au.nodes_calling(lambda c, nm, f: nm == "self._bring_all_up_to_date")
  if not recalc:
    raise AnalysisError("apply_user_actions: _bring_all_up_to_date call not found")
  for n in acfg.nodes:
    if n.stmt is None or n.id in recalc:
      continue
    cs = [c for c in calls_in(n.exprs) if au.name(c) not in NOT_DIRTYING]
    if not cs:
      continue
    reporting = [c for c in cs if endswith(au.name(c), "docmodel.apply_auto_removes")]
    if reporting and len(cs) == 1:
      # a step that *reports* whether it did anything (contract checked below): only a truthy
      # report needs the recalculation -- whatever way the report is tested
      c = reporting[0]
      atom = None
      if n.kind in ("while", "if"):
        atom = text(c)
        starts = [(n.id, {})]
      elif n.kind == "stmt" and isinstance(n.stmt, ast.Assign) and len(n.stmt.targets) == 1 and \
          isinstance(n.stmt.targets[0], ast.Name) and n.stmt.value is c:
        atom = n.stmt.targets[0].id
        starts = [(m, {}) for m in acfg.normal_succ(n.id)]
      if atom is not None:
        fr = Facts(acfg, {atom})
        seen = fr.run(starts, stop=recalc)
        arrivals = list(seen.get(acfg.exit.id, []))
        again = seen.get(n.id, [])
        arrivals += again[1:] if n.kind in ("while", "if") else again
        ok = all(f.get(atom) is False for f in arrivals) and bool(set(seen) & recalc)
        what = "while self.docmodel.apply_auto_removes(): ... self._bring_all_up_to_date()"
        why = ("whenever apply_auto_removes (which may remove records) reports work done, a full "
               "recalculation follows before it is asked again or the bundle ends")
      else:
        ok = acfg.postdominated_by(n.id, recalc)
        what = "%s ... self._bring_all_up_to_date()" % short(cs[0], 60)
        why = "a step that may dirty cells is followed by a full recalculation before returning"
    elif n.kind == "while":
      t, f = branch_succ(acfg, n.id)
      ok = bool(t) and not (acfg.reach(t, removed=recalc) & ({n.id, acfg.exit.id}))
      what = "while %s: ... self._bring_all_up_to_date()" % short(n.stmt.test, 50)
      why = ("whenever the loop test (which may remove records) reports work done, a full "
             "recalculation follows before it is asked again")
    else:
      ok = acfg.postdominated_by(n.id, recalc)
      if not ok:
        # only a step that is known to be able to dirty cells counts
        verdicts = [_may_dirty(w, cg, au, c) for c in cs]
        need(None not in verdicts, "apply_user_actions: cannot tell whether `%s`, which is not "
             "followed by a full recalculation, marks cells dirty"
             % short(cs[verdicts.index(None)] if None in verdicts else cs[0]))
        ok = not any(verdicts)
      what = "%s ... self._bring_all_up_to_date()" % short(cs[0], 60)
      why = "a step that may dirty cells is followed by a full recalculation before returning"
    wit = None
    if not ok:
      wit = acfg.describe_path(acfg.path(n.id, {acfg.exit.id}, removed=recalc, after=True))
    run.ob(R3, au.qualname, what, why, ok, witness=wit, fi=au.fi, node=n.stmt)
  # the removal pass is repeated until it reports nothing: a recalculation may queue further
  # auto-removals (cascades); left queued at rest, they would be emitted by the next Calculate
  asks = au.nodes_calling(lambda c, nm, f: endswith(nm, "docmodel.apply_auto_removes"))
  if not asks:
    raise AnalysisError("apply_user_actions: apply_auto_removes call not found")
  for r in sorted(recalc):
    ok = acfg.postdominated_by(r, asks)
    run.ob(R3, au.qualname, "self._bring_all_up_to_date() ... self.docmodel.apply_auto_removes() again",
           "after every full recalculation the queued auto-removals are applied (again) before the "
           "bundle ends, until a pass reports nothing: nothing is left queued for a later Calculate "
           "to emit", ok, fi=au.fi, node=acfg.nodes[r].stmt,
           witness=None if ok else acfg.describe_path(acfg.path(r, {acfg.exit.id}, removed=asks,
                                                                after=True)))
  # the loop test's contract: falsy means nothing was removed
  ar = inl.fn("docmodel.DocModel.apply_auto_removes")
  aex = expander(ar)
  rmf = w.repo.func("docmodel.DocModel.remove")
  rem = [c for c in calls_in(ar.node.body) if ar.name(c) == "self.remove"]
  rets = [(r, v) for (n, r, v) in returns_of(ar)]
  if not rets or len(rem) != 1:
    raise AnalysisError("apply_auto_removes: its removal call / return value cannot be followed")
  removed = call_arg(rem[0], rmf, rmf.params()[1])
  rtxt = aex.norm(removed) if removed is not None else None
  for (r, v) in rets:
    x = v
    if isinstance(x, ast.Call) and dotted(x.func) == "bool" and len(x.args) == 1:
      x = x.args[0]
    elif isinstance(x, ast.Compare) and len(x.ops) == 1 and isinstance(x.ops[0], (ast.Gt, ast.NotEq)) \
        and is_const(x.comparators[0], 0) and isinstance(x.left, ast.Call) and \
        dotted(x.left.func) == "len" and len(x.left.args) == 1:
      x = x.left.args[0]
    ok = x is not None and rtxt is not None and text(x) == rtxt
    need(ok or not opaque_parts(w, ar.fi, v), "apply_auto_removes: cannot follow what it returns "
         "(`%s`)" % short(v))
    run.ob(R3, ar.qualname, "return bool(<the records removed>)", "apply_auto_removes reports "
           "work exactly when it removed something", ok, fi=ar.fi, node=r)


# ------------------------------------------------------------------------------------------
def r4_revert_since_checkpoint(run, w):
  R4 = run.rule("C29-R4", "_undo_to_checkpoint replays exactly the undo actions recorded since the "
                "checkpoint: the slice of out_actions.undo starting at the checkpointed undo length, "
                "to its end, all of it, through ApplyUndoActions", floor=3)
  inl = inliner(w)
  gc = inl.fn("engine.Engine._get_undo_checkpoint")
  gex = expander(gc)
  rets = [(r, v) for (n, r, v) in returns_of(gc) if v is not None]
  if len(rets) != 1 or not isinstance(rets[0][1], ast.Tuple):
    raise AnalysisError("_get_undo_checkpoint no longer returns one tuple")
  comps = []
  for e in rets[0][1].elts:
    if isinstance(e, ast.Call) and dotted(e.func) == "len" and len(e.args) == 1 and \
        isinstance(e.args[0], ast.Attribute) and endswith(dotted(e.args[0].value), "out_actions"):
      comps.append(e.args[0].attr)
    else:
      comps.append(None)
  need(comps.count("undo") == 1 or None not in comps, "_get_undo_checkpoint: cannot follow the "
       "components of the checkpoint (`%s`)" % short(rets[0][1]))
  run.ob(R4, gc.qualname, "return (..., len(self.out_actions.undo), ...)", "the checkpoint "
         "remembers how many undo actions the log held", comps.count("undo") == 1, fi=gc.fi,
         node=rets[0][0], nontrivial=False)
  if comps.count("undo") != 1:
    return
  k = comps.index("undo")
  ut = inl.fn("engine.Engine._undo_to_checkpoint")
  uex = expander(ut)
  cfg = ut.cfg
  du = DefUse(ut, cfg)
  cp = ut.fi.params()[1]
  auf = w.repo.func("useractions.UserActions.ApplyUndoActions")
  applies = [(n, c) for (n, c, nm) in ut.calls() if endswith(nm, "ApplyUndoActions")]
  if not applies:
    raise AnalysisError("_undo_to_checkpoint: ApplyUndoActions call not found")
  for (n, c) in applies:
    a = call_arg(c, auf, auf.params()[1])
    v = value_at(ut, cfg, du, n.id, a) if a is not None else None
    # [get_action_repr(x) for x in <slice>] / map(get_action_repr, <slice>) / list(...)
    src, ok_elems = None, False
    v2 = strip_wrappers(v, names=("list", "tuple")) if v is not None else None
    bl = built_list(ut, cfg, du, n.id, a.id) if isinstance(a, ast.Name) else None
    if bl is not None:
      elt, tgt, it, _lp = bl
      elt = uex.expand(elt)
      ok_elems = isinstance(tgt, ast.Name) and isinstance(elt, ast.Call) and \
          endswith(dotted(elt.func), "get_action_repr") and \
          len(elt.args) + len(elt.keywords) == 1 and \
          text((elt.args + [kk.value for kk in elt.keywords])[0]) == tgt.id
      src = uex.expand(it)
    elif isinstance(v2, (ast.ListComp, ast.GeneratorExp)) and len(v2.generators) == 1:
      g = v2.generators[0]
      ok_elems = not g.ifs and isinstance(g.target, ast.Name) and isinstance(v2.elt, ast.Call) and \
          endswith(dotted(v2.elt.func), "get_action_repr") and \
          len(v2.elt.args) + len(v2.elt.keywords) == 1 and \
          text((v2.elt.args + [kk.value for kk in v2.elt.keywords])[0]) == g.target.id
      src = g.iter
    elif isinstance(v2, ast.Call) and dotted(v2.func) == "map" and len(v2.args) == 2 and \
        endswith(dotted(v2.args[0]), "get_action_repr"):
      ok_elems = True
      src = v2.args[1]
    if src is None:
      raise AnalysisError("_undo_to_checkpoint: cannot follow what is handed to ApplyUndoActions "
                          "(`%s`)" % short(v))
    src = strip_wrappers(src, names=("list", "tuple"))
    run.ob(R4, ut.qualname, "ApplyUndoActions([get_action_repr(a) for a in <undo slice>])",
           "every undo action of the slice is replayed (no filter), in its serialised form",
           ok_elems, fi=ut.fi, node=c)
    need(not opaque_parts(w, ut.fi, src), "_undo_to_checkpoint: cannot follow which undo actions "
         "are replayed (`%s`)" % short(src))
    ok = isinstance(src, ast.Subscript) and isinstance(src.slice, ast.Slice) and \
        endswith(dotted(src.value), "out_actions.undo") and src.slice.upper is None and \
        src.slice.step is None and src.slice.lower is not None and \
        text(src.slice.lower) == "%s[%d]" % (cp, k)
    run.ob(R4, ut.qualname, "self.out_actions.undo[<checkpointed undo length>:]",
           "the actions reverted are those recorded after the checkpoint was taken -- counted in "
           "the undo list itself, whose length differs from the stored list's whenever calc "
           "actions or removals are in the log", ok, fi=ut.fi, node=c,
           witness=None if ok else "the slice replayed is `%s`; component %d of the checkpoint is "
           "the undo length" % (short(src), k))


# ------------------------------------------------------------------------------------------
# What formula code can reach without going through a user action (whose doc actions the checkpoint
# reverts) or the two cuts: the methods of the table object handed to formulas, record field
# access, and the formula functions of the metadata tables.
FORMULA_SURFACE_PREFIXES = ("table.UserTable.", "docmodel.MetaTableExtras.")
FORMULA_SURFACE = ("table.Table._add_field_to_record_classes.record_field",
                   "table.Table._add_field_to_record_classes.recordset_field",
                   "records.Record.__getattr__", "records.RecordSet.__getattr__")
EVALUATION_CUT = ("engine.Engine._update_loop", "engine.Engine._recompute",
                  "engine.Engine._recompute_step", "engine.Engine.apply_user_actions")
COPIERS = ("set", "frozenset", "list", "tuple", "sorted", "dict")


def _is_copy_of(e, pred):
  """Is e a fresh container with the contents of something satisfying pred: set(x), list(x),
  x.copy(), set(x) | set() ...?"""
  if isinstance(e, ast.Call) and dotted(e.func) in COPIERS and len(e.args) == 1 and not e.keywords:
    return pred(e.args[0]) or _is_copy_of(e.args[0], pred)
  if isinstance(e, ast.Call) and isinstance(e.func, ast.Attribute) and e.func.attr == "copy" and \
      not e.args:
    return pred(e.func.value)
  if isinstance(e, (ast.SetComp, ast.ListComp)) and len(e.generators) == 1 and \
      not e.generators[0].ifs and text(e.elt) == text(e.generators[0].target):
    return pred(e.generators[0].iter)
  return False


def _escapes(cfg, start, through, exits, no_raise):
  """Is one of `exits` reachable after node `start` without passing a node of `through`? Nodes in
  `no_raise` are assumed to complete normally."""
  seen, work = set(), list(cfg.succ[start])
  while work:
    x = work.pop()
    if x in seen or x in through:
      continue
    seen.add(x)
    if x in exits:
      return True
    work.extend(cfg.normal_succ(x) if x in no_raise else cfg.succ[x])
  return False


def r5_queued_effects(run, w, cg):
  R5 = run.rule("C29-R5", "state through which formula code queues a later doc action without "
                "emitting one (the auto-removal marks) is saved before the read-only evaluation "
                "and restored on every exit of Engine.get_formula_value", floor=2)
  repo = w.repo
  inl = inliner(w)
  # ---- (a) the queues: containers of the engine / docmodel that the epilogue of a bundle drains
  #          into doc actions without evaluating formulas
  au = inl.fn("engine.Engine.apply_user_actions")
  queues = {}
  for (n, c, nm) in au.calls():
    for F in cg.resolve(au, c):
      if F.cls is None or F.cls.qualname not in (T.ENGINE, T.DOCMODEL) or F.qualname in CUTS or \
          F.qualname in EVALUATION_CUT:
        continue
      reach = forward(cg, repo, [F.qualname], set(EVALUATION_CUT))
      ua_methods = {f.qualname for f in w.useraction_methods().values()}
      emits = any(q in ua_methods for q in reach) or \
          any(k == "doc-action" for q in reach if q in repo.funcs
              for (k, x) in effect_sites(w, repo.funcs[q]))
      if not emits:
        continue
      for x in ast.walk(F.node):
        if isinstance(x, ast.Attribute) and isinstance(x.value, ast.Name) and x.value.id == "self":
          tag = w.typer.attrs.get((F.cls.qualname, x.attr)) or ""
          if tag.startswith(("set:", "list:", "dict:")):
            queues.setdefault((F.cls.qualname, x.attr), set()).add(F.qualname)
  need(queues, "apply_user_actions: no container drained into doc actions by the bundle epilogue "
       "was found (the auto-removal queue moved?)")
  seeds = [q for q in repo.funcs if q.startswith(FORMULA_SURFACE_PREFIXES) or q in FORMULA_SURFACE]
  need(len(seeds) >= 5, "the formula-facing surface (table.UserTable, record fields, metadata "
       "formula functions) was not found")
  cut = set(CUTS) | set(EVALUATION_CUT) | {"engine.Engine.apply_doc_action"} | \
      {q for q in repo.funcs if q.startswith("useractions.UserActions.")}
  surface = forward(cg, repo, seeds, cut)
  gv = inl.fn(GUARDED)
  ex = expander(gv)
  cfg = gv.xcfg
  du = DefUse(gv, cfg)
  ev = gv.nodes_calling(lambda c, nm, f: endswith(nm, "self._recompute_one_cell"), cfg)
  need(ev, "get_formula_value: evaluation not found")
  exits = {cfg.exit.id, cfg.raise_exit.id}
  # a failure of the rollback itself is outside this rule (the engine is then inconsistent anyway)
  undo_nodes = gv.nodes_calling(lambda c, nm, f: endswith(nm, "self._undo_to_checkpoint"), cfg)
  for (cq, attr), consumers in sorted(queues.items()):
    ci = repo.cls(cq)
    def is_q(e):
      return isinstance(e, ast.Attribute) and e.attr == attr
    # ---- (b) who writes the queue
    markers, setters, getters, alias_getters = [], {}, set(), set()
    for fi in repo.all_functions():
      fex = None
      for site in obj_sites(fi, attr):
        kind = site[0]
        what = site[1] if kind == "call" else kind
        if kind == "read" or (kind == "call" and what not in MUTATING):
          continue
        if kind == "escape":
          continue            # judged below (getters) or harmless (passed to sorted(), returned)
        if fi.name == "__init__" or fi.qualname in consumers:
          continue
        if kind == "rebind":
          # <x>.<attr> = <copy of a parameter>: a restore accessor
          node = site[1]
          asg = [st for st in stmts_in(fi.node.body, ast.Assign)
                 if any(t is node for t in st.targets)]
          fex = fex or expander(w.fn_of(fi))
          ps = [p_ for p_ in fi.params() if p_ not in ("self", "cls")]
          v = fex.expand(asg[0].value) if asg else None
          src = [p_ for p_ in ps if v is not None and
                 (text(v) == p_ or _is_copy_of(v, lambda y, p_=p_: text(y) == p_))]
          if len(src) == 1:
            setters[fi.qualname] = src[0]
            continue
        if not any(fi is m_ for m_ in markers):
          markers.append(fi)
    for fi in ci.methods.values():
      rs = [(r, v) for (n_, r, v) in returns_of(w.fn_of(fi)) if v is not None]
      if rs and all(_is_copy_of(v, is_q) for (r, v) in rs):
        getters.add(fi.qualname)
      elif rs and all(is_q(v) for (r, v) in rs):
        alias_getters.add(fi.qualname)
    reachable = sorted(fi.qualname for fi in markers if fi.qualname in surface)
    run.note("C29-R5 %s.%s: drained by %s; written by %s; reachable from formula code: %s"
             % (cq, attr, ", ".join(sorted(consumers)), ", ".join(sorted(f.qualname for f in markers)),
                ", ".join(reachable) or "none"))
    if not reachable:
      run.ob(R5, cq, "%s is not written from formula code" % attr, "formula code cannot queue a "
             "later doc action through this container", True, nontrivial=False)
      continue
    # ---- (c) saved before the evaluation, restored on every exit
    def resolves_to(c, quals):
      tg = {f.qualname for f in cg.resolve(gv, c)}
      return bool(tg) and tg <= set(quals)
    saves = []          # (node, local, is a copy?)
    for n in cfg.nodes:
      if n.kind == "stmt" and isinstance(n.stmt, ast.Assign) and len(n.stmt.targets) == 1 and \
          isinstance(n.stmt.targets[0], ast.Name):
        v = n.stmt.value
        if isinstance(v, ast.Call) and resolves_to(v, getters):
          saves.append((n, n.stmt.targets[0].id, True))
        elif isinstance(v, ast.Call) and resolves_to(v, alias_getters):
          saves.append((n, n.stmt.targets[0].id, False))
        elif _is_copy_of(ex.expand(v), is_q) and not isinstance(ex.expand(v), ast.Name):
          saves.append((n, n.stmt.targets[0].id, True))
        elif is_q(ex.expand(v)):
          saves.append((n, n.stmt.targets[0].id, False))
    restores = {}       # node id -> local restored
    for n in cfg.nodes:
      for c in calls_in(n.exprs):
        tg = [f for f in cg.resolve(gv, c)]
        if tg and all(f.qualname in setters for f in tg):
          a = call_arg(c, tg[0], setters[tg[0].qualname])
          a = strip_wrappers(a, names=COPIERS) if a is not None else None
          if isinstance(a, ast.Name):
            restores[n.id] = a.id
      if n.kind == "stmt" and isinstance(n.stmt, ast.Assign) and \
          any(is_q(t) for t in n.stmt.targets):
        a = strip_wrappers(n.stmt.value, names=COPIERS)
        if isinstance(a, ast.Name):
          restores[n.id] = a.id
    if not saves or not restores:
      und = undissolved(w, gv, cfg)
      need(not und, "get_formula_value: calls `%s`, which cannot be followed; whether %s is saved "
           "and restored there cannot be decided" % (short(und[0]) if und else "", attr))
    ok_save = False
    ok_restore = False
    wit = None
    for (sn, local, is_copy) in saves:
      good = {r for r, v in restores.items() if v == local}
      reb = du.rebinders(local) - {sn.id}
      s_ok = is_copy and all(cfg.dominated_by(e, {sn.id}) for e in ev) and \
          not (cfg.reach_after(ev) & {sn.id}) and not reb
      r_ok = bool(good) and not any(_escapes(cfg, e, good, exits, undo_nodes) for e in ev)
      if not is_copy:
        wit = "the value saved is the container itself, not a copy: marks added later show in it"
      elif not r_ok and s_ok:
        wit = "an exit of get_formula_value is reachable after the evaluation without restoring " \
            "%s from `%s`" % (attr, local)
      ok_save = ok_save or s_ok
      ok_restore = ok_restore or (s_ok and r_ok)
    run.ob(R5, gv.qualname, "<saved> = copy of %s before _recompute_one_cell" % attr,
           "what formula code queues through %s during a read-only evaluation can be told apart "
           "from what was queued before" % attr, ok_save, fi=gv.fi,
           witness=None if ok_save else (wit or "no copy of %s is taken before the evaluation; "
                                         "written from formula code by %s" % (attr, reachable[0])))
    run.ob(R5, gv.qualname, "_recompute_one_cell(...) -> finally: %s restored from <saved>" % attr,
           "marks made by the evaluated formula (summary group formulas, metadata auto-remove "
           "formulas) are forgotten whether evaluation returns or raises: the next bundle removes "
           "nothing on behalf of a read-only call", ok_restore, fi=gv.fi,
           witness=None if ok_restore else (wit or "%s is not restored on every exit" % attr))


# Calls in apply_user_actions that cannot mark cells dirty (one reason each).
NOT_DIRTYING = {
  "action_obj.ActionGroup": "constructs the empty action group",
  "User": "user object",
  "set": "empty set",
  "self._get_undo_checkpoint": "reads list lengths",
  "self.out_actions.retValues.append": "records a return value",
  "self.out_actions.flush_calc_changes": "converts recorded changes to actions",
  "self.out_actions.check_sanity": "assertion",
  "sys.exc_info": "exception info",
  "log.info": "logging", "log.error": "logging", "log.debug": "logging", "log.warning": "logging",
  "traceback.format_exc": "formatting",
  "self._prevent_recompute_map.clear": "exemption bookkeeping",
  "self.assert_schema_consistent": "assertion (read-only fetches)",
  "self._undo_to_checkpoint": "failure path: re-raises; a failed bundle is outside this rule",
}


EN = "sandbox/grist/engine.py"
FP = "sandbox/grist/formula_prompt.py"
AC = "sandbox/grist/autocomplete_context.py"
VARIANTS = [
  ("fetch-table-refreshes-time", EN,
   """    table = self.tables[table_id]
    column_values = {}

    query_cols = []""",
   """    table = self.tables[table_id]
    column_values = {}
    self.update_current_time()

    query_cols = []""", "C29-R1"),
  ("find-col-removes-stale-objects", EN,
   """    log.info('Found column from values in %.3fs', time.time() - start_time)
    return [c[1] for c in matched_cols]""",
   """    log.info('Found column from values in %.3fs', time.time() - start_time)
    self.user_actions.RemoveStaleObjects()
    return [c[1] for c in matched_cols]""", "C29-R1"),
  ("evaluate-formula-unguarded", FP,
   "  result = engine.get_formula_value(table_id, col_id, row_id, record_attributes=attributes)",
   "  table = engine.tables[table_id]\n"
   "  result = engine._recompute_one_cell(table, table.get_column(col_id), row_id,\n"
   "                                      record_attributes=attributes)", "C29-R1"),
  ("prompt-invalidates-column", FP,
   """    col = table.get_column(col_id)
    values = [col.raw_get(row_id) for row_id in table.row_ids]""",
   """    col = table.get_column(col_id)
    engine.invalidate_column(col)
    values = [col.raw_get(row_id) for row_id in table.row_ids]""", "C29-R1"),
  ("suggestion-example-stored", AC,
   """  # Convert the value to a string and truncate the length if needed.
  return repr_example(result)[:arepr.maxother]""",
   """  # Convert the value to a string and truncate the length if needed.
  rec._table._engine.out_actions.retValues.append(result)
  return repr_example(result)[:arepr.maxother]""", "C29-R1"),
  ("formula-error-clears-cell", EN,
   """        error_in_cell = objtypes.decode_object(col.raw_get(row_id))
        assert isinstance(error_in_cell, objtypes.RaisedException)""",
   """        error_in_cell = objtypes.decode_object(col.raw_get(row_id))
        col.set(row_id, result)
        assert isinstance(error_in_cell, objtypes.RaisedException)""", "C29-R1"),
  ("undo-not-in-finally", EN,
   """    try:
      return self._recompute_one_cell(table, col, row_id, record_attributes=record_attributes)
    finally:
      # It is possible for formula evaluation to have side-effects that produce DocActions (e.g.
      # lookupOrAddDerived() creates those). In case of get_formula_error(), these aren't fully
      # processed (e.g. don't get applied to DocStorage), so it's important to reverse them.
      self._sync_request = False
      self._undo_to_checkpoint(checkpoint)""",
   """    try:
      result = self._recompute_one_cell(table, col, row_id, record_attributes=record_attributes)
      self._undo_to_checkpoint(checkpoint)
      return result
    finally:
      self._sync_request = False""", "C29-R2"),
  ("checkpoint-after-evaluation", EN,
   """    checkpoint = self._get_undo_checkpoint()
    # Formulas may also mark records for automatic removal (docmodel.setAutoRemove()); remember
    # the marks so that this evaluation leaves them as they were.
    auto_removes = self.docmodel.get_auto_removes()
    # Makes calls to REQUEST synchronous, since raising a RequestingError can't work here.
    self._sync_request = True
    try:
      return self._recompute_one_cell(table, col, row_id, record_attributes=record_attributes)
    finally:""",
   """    # Formulas may also mark records for automatic removal (docmodel.setAutoRemove()); remember
    # the marks so that this evaluation leaves them as they were.
    auto_removes = self.docmodel.get_auto_removes()
    # Makes calls to REQUEST synchronous, since raising a RequestingError can't work here.
    self._sync_request = True
    try:
      result = self._recompute_one_cell(table, col, row_id, record_attributes=record_attributes)
      checkpoint = self._get_undo_checkpoint()
      return result
    finally:""", "C29-R2"),
  ("sync-request-left-on", EN,
   """      # processed (e.g. don't get applied to DocStorage), so it's important to reverse them.
      self._sync_request = False
      self._undo_to_checkpoint(checkpoint)""",
   """      # processed (e.g. don't get applied to DocStorage), so it's important to reverse them.
      self._undo_to_checkpoint(checkpoint)""", "C29-R2"),
  ("revert-from-stored-length", EN,
   "      undo_actions = self.out_actions.undo[len_undo:]",
   "      undo_actions = self.out_actions.undo[len_stored:]", "C29-R4"),
  ("revert-skips-last-undo", EN,
   "      undo_actions = self.out_actions.undo[len_undo:]",
   "      undo_actions = self.out_actions.undo[len_undo:-1]", "C29-R4"),
  ("auto-remove-marks-not-saved-or-restored", EN,
   """    auto_removes = self.docmodel.get_auto_removes()
    # Makes calls to REQUEST synchronous, since raising a RequestingError can't work here.
    self._sync_request = True
    try:
      return self._recompute_one_cell(table, col, row_id, record_attributes=record_attributes)
    finally:
      # It is possible for formula evaluation to have side-effects that produce DocActions (e.g.
      # lookupOrAddDerived() creates those). In case of get_formula_error(), these aren't fully
      # processed (e.g. don't get applied to DocStorage), so it's important to reverse them.
      self._sync_request = False
      self._undo_to_checkpoint(checkpoint)
      self.docmodel.set_auto_removes(auto_removes)
""",
   """    # Makes calls to REQUEST synchronous, since raising a RequestingError can't work here.
    self._sync_request = True
    try:
      return self._recompute_one_cell(table, col, row_id, record_attributes=record_attributes)
    finally:
      # It is possible for formula evaluation to have side-effects that produce DocActions (e.g.
      # lookupOrAddDerived() creates those). In case of get_formula_error(), these aren't fully
      # processed (e.g. don't get applied to DocStorage), so it's important to reverse them.
      self._sync_request = False
      self._undo_to_checkpoint(checkpoint)
""", "C29-R5"),
  ("auto-remove-marks-not-restored", EN,
   "      self._undo_to_checkpoint(checkpoint)\n      self.docmodel.set_auto_removes(auto_removes)\n",
   "      self._undo_to_checkpoint(checkpoint)\n", "C29-R5"),
  ("auto-remove-marks-restored-only-on-success", EN,
   """    try:
      return self._recompute_one_cell(table, col, row_id, record_attributes=record_attributes)
    finally:
      # It is possible for formula evaluation to have side-effects that produce DocActions (e.g.
      # lookupOrAddDerived() creates those). In case of get_formula_error(), these aren't fully
      # processed (e.g. don't get applied to DocStorage), so it's important to reverse them.
      self._sync_request = False
      self._undo_to_checkpoint(checkpoint)
      self.docmodel.set_auto_removes(auto_removes)
""",
   """    try:
      result = self._recompute_one_cell(table, col, row_id, record_attributes=record_attributes)
      self.docmodel.set_auto_removes(auto_removes)
      return result
    finally:
      self._sync_request = False
      self._undo_to_checkpoint(checkpoint)
""", "C29-R5"),
  ("auto-remove-marks-saved-by-alias", "sandbox/grist/docmodel.py",
   "    return set(self._auto_remove_set)\n", "    return self._auto_remove_set\n", "C29-R5"),
  ("auto-remove-marks-saved-after-evaluation", EN,
   """    auto_removes = self.docmodel.get_auto_removes()
    # Makes calls to REQUEST synchronous, since raising a RequestingError can't work here.
    self._sync_request = True
    try:
      return self._recompute_one_cell(table, col, row_id, record_attributes=record_attributes)
    finally:""",
   """    # Makes calls to REQUEST synchronous, since raising a RequestingError can't work here.
    self._sync_request = True
    try:
      return self._recompute_one_cell(table, col, row_id, record_attributes=record_attributes)
    finally:
      auto_removes = self.docmodel.get_auto_removes()""", "C29-R5"),
  ("auto-remove-restore-merges-instead-of-replacing", "sandbox/grist/docmodel.py",
   "    self._auto_remove_set = set(records)\n", "    self._auto_remove_set.update(records)\n",
   "C29-R5"),
  ("update-loop-gives-up", EN,
   """      if self.recompute_map and self._recompute_done_counter == 0:
        raise Exception('data engine not making progress updating formulas')""",
   """      if self.recompute_map and self._recompute_done_counter == 0:
        break""", "C29-R3"),
  ("full-recalc-restricted", EN,
   """      work_items = self._make_sorted_work_items(self.recompute_map.keys())
      self._update_loop(work_items)
      # Check if any potentially unused LookupMaps are still unused, and if so, delete them.""",
   """      work_items = self._make_sorted_work_items(self.recompute_map.keys())
      self._update_loop(work_items, ignore_other_changes=True)
      # Check if any potentially unused LookupMaps are still unused, and if so, delete them.""",
   "C29-R3"),
  ("auto-removes-not-recalculated", EN,
   """    while self.docmodel.apply_auto_removes():
      self._bring_all_up_to_date()
""",
   """    self.docmodel.apply_auto_removes()
""", "C29-R3"),
  ("auto-removes-single-round", EN,
   """    while self.docmodel.apply_auto_removes():
      self._bring_all_up_to_date()
""",
   """    if self.docmodel.apply_auto_removes():
      self._bring_all_up_to_date()
""", "C29-R3"),
  ("no-recalc-after-user-actions", EN,
   """    # Note that recalculations and auto-removals get included after processing all useractions.
    self._bring_all_up_to_date()

    # Apply any triggered record removals. If anything does get removed, recalculate what's needed.
    while self.docmodel.apply_auto_removes():
      self._bring_all_up_to_date()

    self.out_actions.flush_calc_changes()""",
   """    # Apply any triggered record removals. If anything does get removed, recalculate what's needed.
    while self.docmodel.apply_auto_removes():
      self._bring_all_up_to_date()

    self.out_actions.flush_calc_changes()""", "C29-R3"),
]
