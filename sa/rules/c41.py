"""C41 fetch_table queries return exactly the matching rows -- structure of the one filter.

Engine.fetch_table is a single function; what can be wrong with it is its shape: which rows are
visited and in what order, which outcome of which test keeps a row, what value is compared, which
columns are emitted. Each clause below is a necessary condition of the property and is decided
from the CFG and def-use of the function, by role (what a local is bound to and how it is used),
not by the names or the nesting the code happens to use today.
"""
import ast
import itertools
from ..fn import World
from ..index import AnalysisError, dotted
from ..astutil import text, short, endswith, calls_in, walk_no_nested
from ..dataflow import DefUse
from .. import guards as G

EXPLANATION = (
  "Decides, for Engine.fetch_table: (R1) rows are visited in ascending row id order "
  "(Table.RowIDs.__iter__ yields the counter of an ascending range) and the returned id list is an "
  "empty list that only grows by appending the visited row inside that loop; (R2) a row is kept "
  "exactly when every queried column matched: each query item is turned into one (column, values) "
  "pair on every non-failing path, the step to the next pair is taken only when the stored value "
  "(raw_get of that pair's column for that row) is `in` that pair's values, every other way out of "
  "the pair loop skips the append, and the unhashable cases (set(values), membership in a set) sit "
  "in TypeError handlers that cannot reach the append; (R3) by a truth table over the six atoms "
  "of the column filter (formulas, private, is_formula, is_private, col_id == 'id', virtual) that a "
  "column is emitted exactly when (formulas or not formula) and (private or not private) and not "
  "id and not virtual, with its stored values for exactly the kept rows; (R4) the reply is "
  "TableData(table_id, kept ids, emitted columns). Not decided: behaviour of raw_get and of the "
  "column objects themselves.")

LEVEL = "other"
TECHNIQUE = ("CFG path and guard analysis + def-use role resolution + exhaustive truth-table "
             "evaluation of the column filter, over Engine.fetch_table")


def _loop_body_entries(cfg, loop_stmt):
  """CFG nodes entered from the loop head when the loop takes another element."""
  out = set()
  for h in _headers(cfg, loop_stmt):
    for s in cfg.succ[h]:
      st = cfg.nodes[s].stmt
      if st is not None and any(st is y for b in loop_stmt.body for y in ast.walk(b)):
        out.add(s)
  if not out:
    raise AnalysisError("loop body entry not found for the loop at line %d" % loop_stmt.lineno)
  return out


def _headers(cfg, loop_stmt):
  return {n.id for n in cfg.nodes if n.kind == "for" and n.stmt is loop_stmt}


def _inside(loop_stmt, node, include_else=True):
  parts = list(loop_stmt.body) + (list(loop_stmt.orelse) if include_else else [])
  return any(node is x for b in parts for x in ast.walk(b))


def check(run, repo, tier):
  # decided on the code as written; when a private helper was extracted from fetch_table the
  # rules are asked again on the view with such helpers inlined (sa/rules/_h_E.py)
  from . import _h_E
  _h_E.decide(run, repo, [_fetch_table_rules], anchors={"fetch_table", "__iter__"}, world=World(repo))


def _fetch_table_rules(run, w):
  fn = w.fn("engine.Engine.fetch_table")
  ps = fn.fi.params()
  for p in ("table_id", "formulas", "private", "query"):
    if p not in ps:
      raise AnalysisError("fetch_table no longer has the parameter %r" % p)
  cfg, x = fn.cfg, fn.xcfg
  du = DefUse(fn)
  R1 = run.rule("C41-R1", "rows are visited in ascending row id order and the returned id list "
                "only grows by appending the visited row", floor=4)
  R2 = run.rule("C41-R2", "a row is kept exactly when every queried column's stored value is among "
                "the requested values; unhashable values cannot keep a row or escape", floor=6)
  R3 = run.rule("C41-R3", "a column is emitted exactly when the formulas/private flags allow it and "
                "it is neither id nor virtual, with stored values of exactly the kept rows", floor=2)
  R4 = run.rule("C41-R4", "the reply is TableData(table_id, kept ids, emitted columns)", floor=1)

  # ---- the reply and the roles of its operands
  rets = [n for n in cfg.nodes if n.kind == "return" and n.stmt.value is not None]
  if len(rets) != 1:
    raise AnalysisError("fetch_table: expected one value-returning return, found %d" % len(rets))
  rv = rets[0].stmt.value
  while isinstance(rv, ast.Name) and du.values_of(rv.id) and len(du.values_of(rv.id)) == 1:
    rv = du.values_of(rv.id)[0]
  ok = isinstance(rv, ast.Call) and endswith(fn.name(rv) or "", "TableData") and len(rv.args) == 3 \
      and not rv.keywords
  if not ok:
    raise AnalysisError("fetch_table: reply is not TableData(a, b, c): %s" % short(rv))
  a_tid, a_rows, a_cols = rv.args
  def is_table(e):
    return isinstance(e, ast.Subscript) and endswith(fn.name(e.value) or "", "self.tables") and \
        text(e.slice) == "table_id"
  tid_ok = text(a_tid) == "table_id" or (isinstance(a_tid, ast.Attribute) and a_tid.attr == "table_id"
                                         and du.denotes(a_tid.value, is_table))
  if not (isinstance(a_rows, ast.Name) and isinstance(a_cols, ast.Name)):
    raise AnalysisError("fetch_table: kept ids / columns are not plain locals in the reply")
  def root(name):
    """The local a name is a plain alias of (x = y chains, e.g. left by helper inlining)."""
    seen = set()
    while name not in seen:
      seen.add(name)
      vals = du.values_of(name)
      if vals and len(vals) == 1 and isinstance(vals[0], ast.Name):
        name = vals[0].id
      else:
        break
    return name
  L, C = root(a_rows.id), root(a_cols.id)
  run.ob(R4, fn.qualname, short(rv), "reply names the requested table, the kept ids and the "
         "emitted columns", tid_ok and L != C, fi=fn.fi, node=rv)

  # ---- R1: the kept-id list and the row loop
  lvals = du.values_of(L)
  l_empty = bool(lvals) and all(isinstance(v, ast.List) and not v.elts for v in lvals)
  appends = []
  other_mut = []
  for nid in du.muts.get(L, ()):
    n = cfg.nodes[nid]
    good = False
    for c in calls_in(n.exprs):
      if isinstance(c.func, ast.Attribute) and isinstance(c.func.value, ast.Name) and \
          c.func.value.id == L:
        if c.func.attr == "append" and len(c.args) == 1:
          appends.append((n, c))
          good = True
        else:
          other_mut.append(n)
          good = True
    if not good:
      other_mut.append(n)
  # a plain alias of the list is harmless as long as nothing is done to the list through it
  aliased = [n for n in cfg.nodes if n.kind == "stmt" and isinstance(n.stmt, ast.Assign) and
             isinstance(n.stmt.value, ast.Name) and n.stmt.value.id == L and
             any(du.muts.get(t.id) for t in n.stmt.targets if isinstance(t, ast.Name)) or
             (n.kind == "stmt" and isinstance(n.stmt, ast.Assign) and
              isinstance(n.stmt.value, ast.Name) and n.stmt.value.id == L and
              not all(isinstance(t, ast.Name) for t in n.stmt.targets))]
  if len(appends) != 1:
    raise AnalysisError("fetch_table: expected one append to the kept ids, found %d" % len(appends))
  # the row loop, by role: the loop whose variable is what gets appended to the kept ids
  app_arg = appends[0][1].args[0]
  row_loops = [n.stmt for n in cfg.nodes if n.kind == "for" and isinstance(n.stmt.target, ast.Name)
               and isinstance(app_arg, ast.Name) and n.stmt.target.id == app_arg.id and
               _inside(n.stmt, appends[0][1])]
  if len(row_loops) != 1:
    enclosing = [n.stmt for n in cfg.nodes if n.kind == "for" and _inside(n.stmt, appends[0][1])]
    if enclosing and not row_loops:
      run.ob(R1, fn.qualname, short(appends[0][1]), "what is appended to the kept ids is the "
             "variable of a loop over the table's rows", False, fi=fn.fi, node=appends[0][1],
             witness="the appended value is not the variable of any enclosing loop")
      return
    raise AnalysisError("fetch_table: the loop whose variable is appended to the kept ids was not "
                        "found (%d candidates)" % len(row_loops))
  def is_row_ids(e):
    return isinstance(e, ast.Attribute) and e.attr == "row_ids" and du.denotes(e.value, is_table)
  def is_sorted(e):
    return isinstance(e, ast.Call) and dotted(e.func) == "sorted"
  src_ok = du.denotes(row_loops[0].iter, is_row_ids)
  if not src_ok and du.denotes(row_loops[0].iter, lambda e: is_row_ids(e) or is_sorted(e)):
    raise AnalysisError("fetch_table: rows are visited in an explicitly sorted order; cannot "
                        "decide that it is row id order")
  run.ob(R1, fn.qualname, "for %s in %s" % (app_arg.id, short(row_loops[0].iter)),
         "the rows visited are the table's row ids in their own (ascending) order, on every "
         "binding of the iterated value", src_ok, fi=fn.fi, node=row_loops[0],
         witness=None if src_ok else "some binding of the iterated value is not <table>.row_ids")
  rl = row_loops[0]
  rvar = rl.target.id
  (an, ac) = appends[0]
  ok = l_empty and not other_mut and not aliased and _inside(rl, ac) and \
      isinstance(ac.args[0], ast.Name) and ac.args[0].id == rvar and \
      not [d for d in du.defs.get(rvar, ())
           if cfg.nodes[d].stmt is not rl and _inside(rl, cfg.nodes[d].stmt)]
  run.ob(R1, fn.qualname, "%s = []; for %s in <table>.row_ids: ... %s.append(%s)" % (L, rvar, L, rvar),
         "the kept ids are exactly visited rows, in visiting order, nothing else touches the list",
         ok, fi=fn.fi, node=ac,
         witness=None if ok else "initial value, another mutation/alias of the list, or the "
         "appended value is not the visited row")
  it = w.fn("table.Table.RowIDs.__iter__")
  ylds = [y for y in ast.walk(it.node) if isinstance(y, (ast.Yield, ast.YieldFrom))]
  okr = bool(ylds)
  for y in ylds:
    loops = [s for s in ast.walk(it.node) if isinstance(s, ast.For) and _inside(s, y)]
    okr = okr and isinstance(y, ast.Yield) and len(loops) == 1 and \
        isinstance(loops[0].iter, ast.Call) and dotted(loops[0].iter.func) == "range" and \
        len(loops[0].iter.args) in (1, 2) and isinstance(loops[0].target, ast.Name) and \
        isinstance(y.value, ast.Name) and y.value.id == loops[0].target.id and \
        (len(loops[0].iter.args) == 1 or text(loops[0].iter.args[0]) in ("0", "1"))
  run.ob(R1, it.qualname, "for i in range(size): if valid(i): yield i", "row ids are produced in "
         "ascending order", okr, fi=it.fi)
  srt = [c for c in calls_in(fn.node.body) if (dotted(c.func) in ("sorted", "reversed") and c.args
                                               and text(c.args[0]) == L)]
  run.ob(R1, fn.qualname, "no reordering of %s" % L, "the order of the kept ids is the visiting "
         "order", not srt, fi=fn.fi, nontrivial=False)

  # ---- R2: the pair list, the pair loop and the membership step
  pair_loops = [s for s in ast.walk(rl) if isinstance(s, ast.For) and s is not rl and
                isinstance(s.target, ast.Tuple) and len(s.target.elts) == 2 and
                all(isinstance(e, ast.Name) for e in s.target.elts) and isinstance(s.iter, ast.Name)]
  if len(pair_loops) != 1:
    raise AnalysisError("fetch_table: expected one loop over (column, values) pairs inside the row "
                        "loop, found %d" % len(pair_loops))
  pl = pair_loops[0]
  Q = root(pl.iter.id)
  cvar, vvar = pl.target.elts[0].id, pl.target.elts[1].id
  def member(e):
    return isinstance(e, ast.Compare) and len(e.ops) == 1 and isinstance(e.ops[0], ast.In) and \
        text(e.comparators[0]) == vvar and isinstance(e.left, ast.Call) and \
        isinstance(e.left.func, ast.Attribute) and e.left.func.attr == "raw_get" and \
        text(e.left.func.value) == cvar and len(e.left.args) == 1 and text(e.left.args[0]) == rvar
  # decided on the exceptional CFG, so that a handler that swallows a failed test and lets the
  # loop go on is seen as well
  ph = _headers(x, pl)
  pbody = _loop_body_entries(x, pl)
  est = G.establishing_edges(x, member, True)
  seen = G._reach_cut(x, pbody, est, stops=_headers(x, rl) | {x.raise_exit.id, x.exit.id})
  ok = bool(est) and not (seen & ph)
  run.ob(R2, fn.qualname, "next pair only when %s.raw_get(%s) in %s" % (cvar, rvar, vvar),
         "the pair loop advances to the next queried column only after this row's stored value "
         "was found among that column's requested values", ok, fi=fn.fi, node=pl,
         witness=None if ok else "a path through the loop body returns to the loop head without "
         "the membership test having succeeded")
  # every way out of the pair loop other than exhaustion skips the append (also from handlers)
  xph = _headers(x, pl)
  xbody = _loop_body_entries(x, pl)
  xapp = {n.id for n in x.nodes if any(c is ac for c in calls_in(n.exprs))}
  hand = {n.id for n in x.nodes if n.kind == "handler" and _inside(pl, n.stmt)}
  # boolean flags set on the way out (all_matched = False; break ... if all_matched: append) are
  # followed: the question is whether some path from inside the pair loop reaches the append
  # without passing the loop head again
  wit = G.reachable_with_flags(x, xbody | hand, xapp, stops=xph | _headers(x, rl) |
                               {x.exit.id, x.raise_exit.id})
  from_exhaustion = bool(xapp & x.reach(xph))
  ok = wit is None and from_exhaustion
  run.ob(R2, fn.qualname, "%s.append(%s) only after the pair loop ran out" % (L, rvar),
         "a row that failed (or could not be tested for) one queried column is not kept; a row "
         "that passed all of them is", ok, fi=fn.fi, node=ac,
         witness=None if ok else ("the append is reachable from inside the pair loop: " +
                                  x.describe_path(wit) if wit else
                                  "the append is not reachable from the loop's exhaustion"))
  # unhashable stored value: the membership test sits under a TypeError handler
  tests = [n for n in x.nodes if n.kind == "if" and any(member(e) for (e, p) in
                                                         G.facts(n.stmt.test, True) + G.facts(n.stmt.test, False))]
  def covered(stmt_node):
    for t in ast.walk(fn.node):
      if isinstance(t, ast.Try) and any(stmt_node is y for b in t.body for y in ast.walk(b)):
        for h in t.handlers:
          if h.type is None or text(h.type) in ("TypeError", "Exception"):
            return True
    return False
  ok = bool(tests) and all(covered(n.stmt) for n in tests)
  run.ob(R2, fn.qualname, "try: <membership> except TypeError", "an unhashable stored value cannot "
         "make the query fail", ok, fi=fn.fi, node=tests[0].stmt if tests else None)
  # the pair list: one pair per query item
  qvals = du.values_of(Q)
  q_empty = bool(qvals) and all(isinstance(v, ast.List) and not v.elts for v in qvals)
  qapps = []
  for nid in du.muts.get(Q, ()):
    for c in calls_in(cfg.nodes[nid].exprs):
      if isinstance(c.func, ast.Attribute) and text(c.func.value) == Q:
        qapps.append((cfg.nodes[nid], c))
  item_loops = [n.stmt for n in cfg.nodes if n.kind == "for" and isinstance(n.stmt.iter, ast.Call)
                and text(n.stmt.iter.func) == "query.items" and isinstance(n.stmt.target, ast.Tuple)
                and len(n.stmt.target.elts) == 2 and
                all(isinstance(e, ast.Name) for e in n.stmt.target.elts)]
  if len(item_loops) != 1 or len(qapps) != 1:
    raise AnalysisError("fetch_table: expected one loop over query.items() and one append to the "
                        "pair list (found %d, %d)" % (len(item_loops), len(qapps)))
  il = item_loops[0]
  kvar, qv = il.target.elts[0].id, il.target.elts[1].id
  (qn, qc) = qapps[0]
  pair = qc.args[0] if qc.func.attr == "append" and len(qc.args) == 1 else None
  def is_col(e):
    return isinstance(e, ast.Call) and isinstance(e.func, ast.Attribute) and \
        e.func.attr == "get_column" and du.denotes(e.func.value, is_table) and \
        len(e.args) == 1 and text(e.args[0]) == kvar
  ok = q_empty and pair is not None and isinstance(pair, ast.Tuple) and len(pair.elts) == 2 and \
      _inside(il, qc) and du.denotes(pair.elts[0], is_col)
  # the values of the pair: the item's values, possibly turned into a set, nothing else
  vals_ok = False
  if ok and isinstance(pair.elts[1], ast.Name):
    vn = pair.elts[1].id
    if vn == qv:
      rebinds = [cfg.nodes[d].stmt for d in du.defs.get(vn, ())
                 if cfg.nodes[d].stmt is not il and _inside(il, cfg.nodes[d].stmt)]
      vals_ok = all(isinstance(s, ast.Assign) and isinstance(s.value, ast.Call) and
                    dotted(s.value.func) in ("set", "frozenset") and len(s.value.args) == 1 and
                    text(s.value.args[0]) == qv for s in rebinds)
      set_calls = [s for s in rebinds]
    else:
      vs = du.values_of(vn) or []
      vals_ok = bool(vs) and all(
        (isinstance(v, ast.Name) and v.id == qv) or
        (isinstance(v, ast.Call) and dotted(v.func) in ("set", "frozenset") and len(v.args) == 1
         and text(v.args[0]) == qv) for v in vs)
      set_calls = [cfg.nodes[d].stmt for d in du.defs.get(vn, ())
                   if isinstance(cfg.nodes[d].stmt, ast.Assign) and _inside(il, cfg.nodes[d].stmt) and
                   isinstance(cfg.nodes[d].stmt.value, ast.Call)]
    vals_ok = vals_ok and all(covered(s) for s in set_calls)
  run.ob(R2, fn.qualname, "%s.append((<table>.get_column(%s), %s or set(%s)))" % (Q, kvar, qv, qv),
         "each query item becomes the pair of its own column and its own requested values; "
         "turning them into a set is protected against unhashable values", ok and vals_ok,
         fi=fn.fi, node=qc)
  # on every path through the item loop body that does not fail, the pair is appended
  xil_h = _headers(x, il)
  xil_b = _loop_body_entries(x, il)
  xq = {n.id for n in x.nodes if any(c is qc for c in calls_in(n.exprs))}
  ok = all(x.postdominated_by(b, xq, exits=xil_h) for b in xil_b)
  run.ob(R2, fn.qualname, "every query item reaches %s.append" % Q, "no queried column is "
         "silently left out of the filter", ok, fi=fn.fi, node=qc,
         witness=None if ok else "a path through the item loop body returns to the loop head "
         "without appending the pair")
  # a given query always reaches the item loop: walk from the entry with `query` true
  ih = _headers(cfg, il)
  def qav(e):
    t = text(e)
    if t == "query":
      return True
    if isinstance(e, ast.Compare) and len(e.ops) == 1 and isinstance(e.ops[0], ast.Is) and \
        text(e.left) == "query" and text(e.comparators[0]) == "None":
      return False
    return None
  hit, unk = G.reaches_under(cfg, {cfg.entry.id}, ih, set(), qav)
  if unk:
    raise AnalysisError("fetch_table: a condition other than the query's presence decides "
                        "whether the filter is built")
  run.ob(R2, fn.qualname, "query given => for ... in query.items()", "nothing but an absent or "
         "empty query skips building the filter", hit, fi=fn.fi, node=il)
  # the pair list is complete before rows are filtered
  ok = not _inside(rl, il) and all(cfg.dominated_by(h, ih) or True for h in _headers(cfg, rl)) and \
      not (cfg.reach(_headers(cfg, rl)) & ih)
  run.ob(R2, fn.qualname, "pairs are built before the row loop", "every row is tested against "
         "the complete filter", ok, fi=fn.fi, node=rl)

  # ---- R3: the column filter, by truth table. Two spellings are followed: a loop over
  # <table>.all_columns with a store into the column dict, or a dict comprehension over it.
  def is_all_columns(it):
    return isinstance(it, ast.Call) and isinstance(it.func, ast.Attribute) and \
        it.func.attr in ("values", "items") and isinstance(it.func.value, ast.Attribute) and \
        it.func.value.attr == "all_columns" and du.denotes(it.func.value.value, is_table)
  def loop_vars(it, target):
    if it.func.attr == "values":
      if not isinstance(target, ast.Name):
        raise AnalysisError("fetch_table: column loop target not a name")
      return target.id, None
    if not (isinstance(target, ast.Tuple) and len(target.elts) == 2 and
            all(isinstance(e, ast.Name) for e in target.elts)):
      raise AnalysisError("fetch_table: column loop target not (key, column)")
    return target.elts[1].id, target.elts[0].id
  def values_ok(val, colv):
    return isinstance(val, ast.ListComp) and len(val.generators) == 1 and \
        not val.generators[0].ifs and isinstance(val.generators[0].iter, ast.Name) and \
        root(val.generators[0].iter.id) == L and \
        isinstance(val.generators[0].target, ast.Name) and isinstance(val.elt, ast.Call) and \
        text(val.elt.func) == colv + ".raw_get" and len(val.elt.args) == 1 and \
        text(val.elt.args[0]) == val.generators[0].target.id
  col_loops = [n.stmt for n in cfg.nodes if n.kind == "for" and is_all_columns(n.stmt.iter)]
  stores = [n for n in cfg.nodes if n.kind == "stmt" and isinstance(n.stmt, ast.Assign) and
            any(isinstance(t, ast.Subscript) and text(t.value) == C for t in n.stmt.targets)]
  cvals = du.values_of(C)
  # the binding of the dict that reaches the reply (an earlier `C = {}` may be overwritten)
  rvals = du.reaching_values(rets[0].id, C) if a_cols.id == C else cvals
  comp = rvals[0] if (rvals and len(rvals) == 1 and isinstance(rvals[0], ast.DictComp)) else None
  other_muts = [cfg.nodes[nid] for nid in du.muts.get(C, ())]
  comp_tests = None
  if comp is not None and not stores and not col_loops:
    if len(comp.generators) != 1 or not is_all_columns(comp.generators[0].iter):
      raise AnalysisError("fetch_table: the column dict is a comprehension over something other "
                          "than <table>.all_columns")
    colv, keyv = loop_vars(comp.generators[0].iter, comp.generators[0].target)
    key = du.inline(comp.key, stop=(colv, keyv or ""))
    key_ok = text(key) == colv + ".col_id" or (keyv is not None and text(key) == keyv)
    val = du.inline(comp.value, stop=(colv, L, rvar, a_rows.id))
    cdef = [cfg.nodes[d] for d in du.defs.get(C, ()) if cfg.nodes[d].stmt is not None and
            getattr(cfg.nodes[d].stmt, "value", None) is comp]
    ok = key_ok and values_ok(val, colv) and not other_muts and len(cdef) == 1 and \
        not _inside(rl, cdef[0].stmt) and \
        not (cfg.reach({cdef[0].id}) & _headers(cfg, rl))
    run.ob(R3, fn.qualname, "%s = {%s.col_id: [%s.raw_get(r) for r in %s] for ... if ...}"
           % (C, colv, colv, L), "an emitted column carries its stored values for exactly the "
           "kept rows, under its own id", ok, fi=fn.fi, node=comp)
    comp_tests = list(comp.generators[0].ifs)
    anchor_node = comp
  else:
    if len(col_loops) != 1 or len(stores) != 1:
      raise AnalysisError("fetch_table: expected one loop over <table>.all_columns and one store "
                          "into the column dict (found %d, %d)" % (len(col_loops), len(stores)))
    cl = col_loops[0]
    colv, keyv = loop_vars(cl.iter, cl.target)
    st = stores[0]
    c_empty = bool(cvals) and all(isinstance(v, ast.Dict) and not v.keys for v in cvals)
    tgt = [t for t in st.stmt.targets if isinstance(t, ast.Subscript)][0]
    key = du.inline(tgt.slice, stop=(colv, keyv or ""))
    key_ok = text(key) == colv + ".col_id" or (keyv is not None and text(key) == keyv)
    val = du.inline(st.stmt.value, stop=(colv, L, rvar, a_rows.id))
    other = [n for n in other_muts if n is not st]
    ok = c_empty and key_ok and values_ok(val, colv) and not other and _inside(cl, st.stmt) and \
        not (cfg.reach(_headers(cfg, cl)) & _headers(cfg, rl))
    # the kept ids are complete before columns are read: the column loop is not inside the row loop
    ok = ok and not _inside(rl, cl)
    run.ob(R3, fn.qualname, "%s[%s.col_id] = [%s.raw_get(r) for r in %s]" % (C, colv, colv, L),
           "an emitted column carries its stored values for exactly the kept rows, under its own id",
           ok, fi=fn.fi, node=st.stmt)
    anchor_node = st.stmt
  # truth table
  ATOMS = ["formulas", "private", "isf", "isp", "isid", "virt"]
  def classify(e):
    t = text(e)
    if t == "formulas": return "formulas"
    if t == "private": return "private"
    if t == colv + ".is_formula()": return "isf"
    if t == colv + ".is_private()": return "isp"
    if isinstance(e, ast.Compare) and len(e.ops) == 1 and isinstance(e.ops[0], ast.Eq):
      l, r_ = text(e.left), text(e.comparators[0])
      idref = (colv + ".col_id",) + ((keyv,) if keyv else ())
      if (l in idref and r_ in ("'id'", '"id"')) or (r_ in idref and l in ("'id'", '"id"')):
        return "isid"
    if isinstance(e, ast.Call) and endswith(fn.name(e) or "", "is_virtual_column") and \
        len(e.args) == 1 and text(e.args[0]) in ((colv + ".col_id",) + ((keyv,) if keyv else ())):
      return "virt"
    return None
  wrong = []
  undecided = False
  if comp_tests is None:
    ch = _headers(cfg, cl)
    cb = _loop_body_entries(cfg, cl)
  for bits in itertools.product([False, True], repeat=6):
    env = dict(zip(ATOMS, bits))
    def av(e):
      k = classify(du.inline(e, stop=(colv, keyv or "", "formulas", "private")))
      return None if k is None else env[k]
    if comp_tests is None:
      hit, unk = G.reaches_under(cfg, cb, {st.id}, ch, av)
    else:
      vals = [G.eval_test(t, av) for t in comp_tests]
      unk = any(v is None for v in vals) and not any(v is False for v in vals)
      hit = all(v is True for v in vals)
    undecided = undecided or unk
    want = (env["formulas"] or not env["isf"]) and (env["private"] or not env["isp"]) and \
        not env["isid"] and not env["virt"]
    if hit != want:
      wrong.append(", ".join("%s=%d" % (a, env[a]) for a in ATOMS) + (" -> emitted" if hit else " -> withheld"))
  if undecided:
    raise AnalysisError("fetch_table: the column filter tests something other than the six atoms "
                        "(formulas, private, is_formula, is_private, col_id == 'id', virtual)")
  run.ob(R3, fn.qualname, "emit <=> (formulas or not formula) and (private or not private) and "
         "col_id != 'id' and not virtual", "all 64 combinations of the six conditions give the "
         "documented answer", not wrong, fi=fn.fi, node=anchor_node,
         witness=None if not wrong else "%d combination(s) differ, e.g. %s" % (len(wrong), wrong[0]))


E = "sandbox/grist/engine.py"
T = "sandbox/grist/table.py"
VARIANTS = [
  ("continue-instead-of-break", E, """          if c.raw_get(r) not in values:
            break
        except TypeError:""", """          if c.raw_get(r) not in values:
            continue
        except TypeError:""", "C41-R2"),
  ("in-instead-of-not-in", E, "          if c.raw_get(r) not in values:\n            break",
   "          if c.raw_get(r) in values:\n            break", "C41-R2"),
  ("unhashable-keeps-row", E, """          # values is a set but c.raw_get(r) is unhashable, so it's definitely not in values
          break""", """          # values is a set but c.raw_get(r) is unhashable, so it's definitely not in values
          pass""", "C41-R2"),
  ("append-outside-else", E, """      else:
        # No break, i.e. all columns matched
        row_ids.append(r)""", """      # all columns matched
      row_ids.append(r)""", "C41-R2"),
  ("cell-value-instead-of-stored", E, "          if c.raw_get(r) not in values:",
   "          if c.get_cell_value(r) not in values:", "C41-R2"),
  ("first-query-col-only", E, "        query_cols.append((col, values))",
   "        if not query_cols:\n          query_cols.append((col, values))", "C41-R2"),
  ("set-unprotected", E, """        try:
          # Try to use a set for speed.
          values = set(values)
        except TypeError:
          # Values contains an unhashable value, leave it as a list.
          pass
        query_cols.append((col, values))""", """        values = set(values)
        query_cols.append((col, values))""", "C41-R2"),
  ("formulas-flag-inverted", E, "      if ((formulas or not c.is_formula())",
   "      if ((not formulas or not c.is_formula())", "C41-R3"),
  ("private-flag-dropped", E, "          and (private or not c.is_private())\n", "", "C41-R3"),
  ("id-emitted", E, "          and c.col_id != \"id\" and not column.is_virtual_column(c.col_id)):",
   "          and not column.is_virtual_column(c.col_id)):", "C41-R3"),
  ("all-rows-in-columns", E, "        column_values[c.col_id] = [c.raw_get(r) for r in row_ids]",
   "        column_values[c.col_id] = [c.raw_get(r) for r in table.row_ids]", "C41-R3"),
  ("rows-sorted-desc", E, "    return actions.TableData(table_id, row_ids, column_values)",
   "    row_ids.sort(reverse=True)\n    return actions.TableData(table_id, row_ids, column_values)", "C41-R1"),
  ("rowids-descending", T, "      for row_id in range(self._id_column.size()):\n        if self._id_column.raw_get(row_id) > 0:\n          yield row_id",
   "      for row_id in reversed(range(self._id_column.size())):\n        if self._id_column.raw_get(row_id) > 0:\n          yield row_id", "C41-R1"),
  ("append-wrong-var", E, "        row_ids.append(r)", "        row_ids.append(len(row_ids) + 1)", "C41-R1"),
  ("seed-id-fast-path", E, "    row_ids = []\n    for r in table.row_ids:\n      for (c, values) in query_cols:",
   "    row_ids = []\n    for r in (table.row_ids if 'id' not in (query or {}) else [x for x in set(query['id']) if x in table.row_ids]):\n      for (c, values) in query_cols:", "C41-R1"),
]
