"""C15 Trigger formulas recalculate exactly when configured -- structural clauses.

Each rule pins one mechanism named in the statement (DESIGN.md section 4). Two refinements came
from reading the code: R3 also enumerates every access to Engine._prevent_recompute_map (only
prevent_recalc writes it, apply_user_actions clears it once per user action, everything else
reads), and R4 follows the row ids of the trigger invalidation back to the *trimmed* update.

Reading the code: every rule function is evaluated through H.guarded_views -- on the source as
written and on behaviour-preserving normal forms of it (see _h_C.py / _h_C_norm.py) -- and slots
are filled by role (flow origins, guard atoms, return cases, conditions as boolean formulas),
not by statement shape or local names.
"""
import ast
import os
import re
from ..fn import World
from ..index import AnalysisError, dotted
from ..astutil import text, short, endswith, calls_in, walk_no_nested
from .. import events as E
from . import _h_C as H
from .c11 import _stmt_of, _single

EXPLANATION = (
  "Decides that each sentence of the statement has its mechanism in place and guarded as "
  "stated: dependency edges for trigger columns are added only for recalcWhen == DEFAULT, one "
  "per recalcDeps column, from the dependency to the trigger column of the same table, through "
  "a SingleRowsIdentityRelation (which drops ALL_ROWS, so schema changes never trigger), after "
  "the column's old edges were cleared, for exactly the data columns that have a formula (R1); "
  "new records recalculate every column except the supplied ones and (user tables) NEVER "
  "columns, through invalidate_records -> invalidate_column(include_self) (R2); the doc action "
  "exempts the rows of every non-formula column it writes, the exemption map is written only by "
  "prevent_recalc, cleared at the start of every user action and only read -- and subtracted "
  "without mutation -- by _recompute_step (R3); after a user update MANUAL_UPDATES columns are "
  "invalidated with recompute_data_col=True, and self-dependent columns un-exempted, for the "
  "rows of the trimmed update and only when it is non-empty, after the doc action (R4); a "
  "change of recalcWhen/recalcDeps and every usercode rebuild schedule a rebuild of the edges, "
  "which happens before the bundle's recalculation (R5); the RecalcWhen constants equal the "
  "TypeScript enum (R6); edges leave the dependency graph only through "
  "Graph.clear_dependencies, i.e. when the depending column drops them -- trigger edges are not "
  "re-created before the end of the bundle (R7); adds and updates agree on explicit values: every "
  "record doc action that itself stores supplied values (BulkAddRecord, BulkUpdateRecord) "
  "exempts them for each supplied non-formula column, and doBulkUpdateRecord / "
  "doBulkAddOrReplace lift the exemption only for columns whose record has "
  "recalcOnChangesToSelf (R8). Not decided: the exact firing set (value level).")


def check(run, repo, tier):
  V = H.guarded_views
  V(run, repo, r1_dependencies)
  V(run, repo, r2_new_records)
  V(run, repo, r3_exemptions)
  V(run, repo, r4_manual_updates)
  V(run, repo, r5_rebuild_trigger)
  V(run, repo, r6_enum, repo)
  V(run, repo, r7_edges_removed_by_dependent_only)
  V(run, repo, r8_sibling_agreement)
  H.finish_views(run, repo)


def _within(t, container):
  """Test expression t (possibly a synthesised conjunction) belongs to `container`'s subtree."""
  ids = {id(x) for x in ast.walk(container) if isinstance(x, ast.expr)}
  return any(id(y) in ids for y in ast.walk(t) if isinstance(y, ast.expr))


def _gtexts(guards):
  return sorted((text(t), p) for (t, p) in guards)


def _is_recalc_when(t, const):
  """`<x>.recalcWhen == RecalcWhen.<const>` (either order)."""
  if not (isinstance(t, ast.Compare) and len(t.ops) == 1 and isinstance(t.ops[0], ast.Eq)):
    return None
  a, b = t.left, t.comparators[0]
  for x, y in ((a, b), (b, a)):
    if isinstance(x, ast.Attribute) and x.attr == "recalcWhen" and \
        endswith(dotted(y), "RecalcWhen." + const):
      return text(x.value)
  return None


def _recalc_when_holds(t, p, const):
  """Record expression when guard (t, polarity) is equivalent to `<rec>.recalcWhen == <const>`."""
  if not (isinstance(t, ast.Compare) and len(t.ops) == 1):
    return None
  if isinstance(t.ops[0], ast.NotEq) and p is False:
    eq = ast.Compare(left=t.left, ops=[ast.Eq()], comparators=t.comparators)
    return _is_recalc_when(eq, const)
  if isinstance(t.ops[0], ast.Eq) and p is True:
    return _is_recalc_when(t, const)
  return None


def _data_col_with_formula_skip(t, col):
  """`col.is_formula() or not col.has_formula()`"""
  if not (isinstance(t, ast.BoolOp) and isinstance(t.op, ast.Or) and len(t.values) == 2):
    return False
  return {text(v) for v in t.values} == {"%s.is_formula()" % col, "not %s.has_formula()" % col}


def _col_rec_lookup(fn, var, table_expr, col_expr):
  """`var` -- a local name, or the text of an expression -- is
  <docmodel>.columns.lookupOne(tableId=<table_expr>, colId=<col_expr>)"""
  if var is None:
    return False
  if var.isidentifier():
    vals = E.local_defs(fn.node, var)
  else:
    try:
      vals = [ast.parse(var, mode="eval").body]
    except SyntaxError:
      return False
  for v in vals:
    if isinstance(v, ast.Call) and endswith(fn.name(v.func) or dotted(v.func),
                                            "columns.lookupOne") and not v.args:
      kw = {k.arg: text(k.value) for k in v.keywords}
      if kw == {"tableId": table_expr, "colId": col_expr}:
        return True
  return False


# --------------------------------------------------------------------------------------- R1

def r1_dependencies(run, w):
  R1 = run.rule("C15-R1", "trigger dependency edges: only for DEFAULT, one per recalcDeps column, "
                "SingleRowsIdentityRelation, old edges cleared first, data columns with a "
                "formula only", floor=6)
  fn = w.fn("engine.Engine._maybe_update_trigger_dependencies")
  cfg = fn.cfg
  adds = [(n, c) for (n, c, nm) in fn.calls() if nm == "self.dep_graph.add_edge"]
  if not adds:
    raise AnalysisError("_maybe_update_trigger_dependencies: add_edge not found")
  col_loops = [s for s in walk_no_nested(fn.node) if isinstance(s, ast.For) and
               endswith(text(s.iter), "all_columns.items()") and isinstance(s.target, ast.Tuple)]
  cl = _single(col_loops, "_maybe_update_trigger_dependencies: loop over the columns")
  col_id, col_obj = [text(e) for e in cl.target.elts]
  tab_loops = [s for s in walk_no_nested(fn.node) if isinstance(s, ast.For) and
               text(s.iter) == "self.tables.items()" and any(x is cl for x in ast.walk(s))]
  tl = _single(tab_loops, "_maybe_update_trigger_dependencies: loop over the tables")
  table_id = text(tl.target.elts[0])
  flow = H.Flow(fn)
  def key(e):
    e2 = H.inline(flow, e)
    t2 = text(e2)
    if t2 == "%s.is_formula()" % col_obj:
      return "is-formula"
    if t2 == "%s.has_formula()" % col_obj:
      return "has-formula"
    wr_ = _when_role(fn, e2, table_id, col_id, {"DEFAULT": "default"})
    if wr_ is not None:
      return wr_
    if isinstance(e2, ast.Compare) and len(e2.ops) == 1 and isinstance(e2.ops[0], ast.In) and \
        isinstance(e2.comparators[0], ast.Attribute) and \
        text(e2.comparators[0].value) == "self":
      return "edge-known"          # membership in the engine's set of edges already added
    return None
  cond = H.Conditions(fn, flow, key)
  considered = H.f_and(H.f_not(H.f_atom("is-formula")), H.f_atom("has-formula"))
  dflt, known = H.f_atom("default"), H.f_atom("edge-known")
  def unread(actual, role, attr):
    """An atom mentions the attribute but could not be tied to this column's record."""
    return any(isinstance(a, str) and attr in a for a in H.f_atoms(actual))
  for (n, c) in adds:
    actual = cond.of_stmt(_stmt_of(fn.node, c), scope=cl)
    shown = "edge added when " + H.f_show(actual)
    if unread(actual, "default", "recalcWhen"):
      raise AnalysisError("_maybe_update_trigger_dependencies: cannot tell whose recalcWhen is "
                          "tested: %s" % shown)
    run.ob(R1, fn.qualname, "if col_rec.recalcWhen == RecalcWhen.DEFAULT: ... add_edge",
           "dependency edges exist only for columns configured to recalculate on changes to "
           "their recalcDeps (the record being the trigger column's own)",
           "default" in H.f_atoms(actual) and
           H.f_equivalent(H.f_and(actual, H.f_not(dflt)), H.F_FALSE), witness=shown,
           fi=fn.fi, node=c)
    # one edge per dependency column
    loop = None
    for s in walk_no_nested(cl):
      if isinstance(s, ast.For) and any(x is c for x in ast.walk(s)) and s is not cl:
        loop = s
    ok = loop is not None and isinstance(loop.target, ast.Name)
    if ok:
      it = H.inline(flow, loop.iter)
      ok = isinstance(it, ast.Attribute) and it.attr == "recalcDeps" and \
          _col_rec_lookup(fn, text(it.value), table_id, col_id)
    # ... and nothing but "already added" keeps a listed column from getting its edge
    want = H.f_and(considered, dflt, H.f_not(known))
    ok = ok and H.f_equivalent(H.f_or(H.f_not(want), actual), H.F_TRUE)
    run.ob(R1, fn.qualname, "for dc in col_rec.recalcDeps: add_edge", "every column listed in "
           "recalcDeps gets an edge", ok, witness=shown, fi=fn.fi, node=c)
    # the edge: (trigger column) <- (dependency column) via SingleRowsIdentityRelation
    ok = False
    if loop is not None and len(c.args) == 1 and isinstance(c.args[0], ast.Starred):
      rs = flow.roots(c.args[0].value, n.id)
      ok = bool(rs)
      for r in rs:
        okr = r.kind == "call" and endswith(dotted(r.node.func), "Edge") and \
            len(r.node.args) == 3 and not r.path
        if not okr and r.kind in ("call", "unknown"):
          raise AnalysisError("_maybe_update_trigger_dependencies: cannot read the edge %r" % r)
        if okr:
          o, i, rel = [flow.roots(a, r.nid) for a in r.node.args]
          for part in (o, i):
            if any(x.kind == "call" and not endswith(dotted(x.node.func), "Node") or
                   x.kind == "unknown" for x in part):
              raise AnalysisError("_maybe_update_trigger_dependencies: cannot read the nodes "
                                  "of %s" % short(r.node))
          okr = _all_calls(o, "Node", [table_id, col_id]) and \
              _all_calls(i, "Node", [table_id, "%s.colId" % text(loop.target)]) and \
              _all_calls(rel, "SingleRowsIdentityRelation", [table_id])
        ok = ok and okr
    run.ob(R1, fn.qualname, "Edge(Node(table, col), Node(table, dc.colId), "
           "SingleRowsIdentityRelation(table))", "the trigger column depends on the dependency "
           "column of the same table, row by row, through the relation that ignores "
           "whole-column invalidation", ok, fi=fn.fi, node=c)
  # old edges cleared first, for exactly the data columns that have a formula
  clears = [(n, c) for (n, c, nm) in fn.calls() if nm == "self.dep_graph.clear_dependencies"]
  ok = False
  filt_ok = False
  shown = None
  for (cn, cc) in clears:
    rs = flow.roots(cc.args[0], cn.id) if cc.args else []
    actual = cond.of_stmt(_stmt_of(fn.node, cc), scope=cl)
    shown = "old edges cleared when " + H.f_show(actual)
    same = H.f_equivalent(actual, considered)
    filt_ok = filt_ok or same
    ok = ok or (_all_calls(rs, "Node", [table_id, col_id]) and same and
                all(cfg.dominated_by(n.id, {cn.id}) for (n, c) in adds))
  (fn0, fc0) = adds[0]
  run.ob(R1, fn.qualname, "if %s.is_formula() or not %s.has_formula(): continue" % (col_obj,
                                                                                   col_obj),
         "exactly the data columns that have a formula are (re)considered", filt_ok,
         witness=shown, fi=fn.fi, node=fc0)
  run.ob(R1, fn.qualname, "clear_dependencies(Node(table, col)) before add_edge",
         "every considered column -- whatever its recalcWhen now is -- loses its old edges "
         "first (no recalculation from dependencies it no longer has)", ok, fi=fn.fi)
  # the relation drops ALL_ROWS
  sr = w.fn("relation.SingleRowsIdentityRelation.get_affected_rows")
  p = sr.fi.params()[1]
  srflow = H.Flow(sr)
  def all_rows_pol(atoms):
    out = set()
    for (t, pol) in atoms:
      t = H.inline(srflow, t)
      if isinstance(t, ast.Compare) and len(t.ops) == 1 and isinstance(t.ops[0], (ast.Eq, ast.Is)) \
          and {text(t.left), text(t.comparators[0])} == {p, "depend.ALL_ROWS"}:
        out.add(pol)
      else:
        raise AnalysisError("SingleRowsIdentityRelation.get_affected_rows: cannot read the test "
                            "%s" % short(t))
    return out
  ok = True
  n_drop = n_pass = 0
  for case in H.return_cases(sr.node):
    v = H.inline(srflow, case.value) if case.value is not None else None
    pols = all_rows_pol(case.atoms)
    if v is not None and _empty_seq(v):
      n_drop += 1
      ok = ok and pols == {True}
    elif v is not None and text(v) == p:
      n_pass += 1
      ok = ok and pols == {False}      # the rows pass only when they are not ALL_ROWS
    else:
      raise AnalysisError("SingleRowsIdentityRelation.get_affected_rows: cannot read the "
                          "result %s" % (short(v) if v is not None else "None"))
  ok = ok and n_drop >= 1 and n_pass >= 1
  run.ob(R1, sr.qualname, "[] if rows == ALL_ROWS else rows", "a whole-column invalidation of a "
         "dependency (rename, type change, ...) reaches no row of the trigger column; specific "
         "rows pass unchanged", ok, fi=sr.fi)


def _when_role(fn, e2, table_expr, col_expr, roles):
  """Role name of `<this column's record>.recalcWhen == RecalcWhen.<CONST>`: roles[CONST] or
  'when:<CONST>'; None when e2 is not such a test (or the record is not this column's)."""
  if not (isinstance(e2, ast.Compare) and len(e2.ops) == 1 and isinstance(e2.ops[0], ast.Eq)):
    return None
  for x, y in ((e2.left, e2.comparators[0]), (e2.comparators[0], e2.left)):
    d = dotted(y)
    if isinstance(x, ast.Attribute) and x.attr == "recalcWhen" and d and \
        d.split(".")[-2:-1] == ["RecalcWhen"] and \
        _col_rec_lookup(fn, text(x.value), table_expr, col_expr):
      const = d.split(".")[-1]
      return roles.get(const, "when:" + const)
  return None


def _user_action_applications(fn):
  """CFG nodes of apply_user_actions that apply one user action: the call of
  _apply_one_user_action, or -- when that helper is written out in the loop -- the dispatch call
  that spreads the loop's user action (`<method>(*user_action)`). AnalysisError when neither is
  found."""
  app = fn.nodes_calling(lambda c, nm, f: nm == "self._apply_one_user_action")
  if app:
    return app
  loopvars = {n.stmt.target.id for n in fn.cfg.nodes if n.kind == "for" and
              isinstance(n.stmt.target, ast.Name)} | \
      {e.id for n in fn.cfg.nodes if n.kind == "for" and isinstance(n.stmt.target, ast.Tuple)
       for e in n.stmt.target.elts if isinstance(e, ast.Name)}
  app = {n.id for (n, c, nm) in fn.calls()
         if any(isinstance(a, ast.Starred) and isinstance(a.value, ast.Name) and
                a.value.id in loopvars for a in c.args)}
  if not app:
    raise AnalysisError("%s: cannot find where a user action is applied" % fn.qualname)
  return app


def unread_role(actual, role, attr):
  """An atom of the formula mentions `attr` but could not be tied to the role (e.g. the record
  whose recalcWhen is tested is obtained in a way the rule cannot read)."""
  return any(isinstance(a, str) and attr in a for a in H.f_atoms(actual))


def _positional(w, call, qualname):
  """The call with keyword arguments moved to their positions (when they continue the positional
  ones) according to the named function's signature."""
  import copy as _copy
  fi = w.repo.func(qualname)
  ps = fi.params()[1:]
  c = _copy.copy(call)
  c.args = list(call.args)
  c.keywords = list(call.keywords)
  while c.keywords:
    nxt = [k for k in c.keywords if k.arg in ps and ps.index(k.arg) == len(c.args)]
    if not nxt:
      break
    c.args.append(nxt[0].value)
    c.keywords.remove(nxt[0])
  return c


def _all_calls(roots, suffix, argtexts):
  return bool(roots) and all(r.kind == "call" and not r.path and
                             endswith(dotted(r.node.func), suffix) and
                             [text(a) for a in r.node.args] == argtexts and not r.node.keywords
                             for r in roots)


def _empty_seq(e):
  return (isinstance(e, (ast.List, ast.Tuple)) and not e.elts) or \
      (isinstance(e, ast.Call) and dotted(e.func) in ("set", "list", "tuple", "frozenset") and
       not e.args)


# --------------------------------------------------------------------------------------- R2

def r2_new_records(run, w):
  R2 = run.rule("C15-R2", "new records: every column except supplied ones and NEVER columns is "
                "recalculated, through invalidate_records -> invalidate_column(include_self)",
                floor=5)
  fn = w.fn("useractions.UserActions.doBulkAddOrReplace")
  flow = H.Flow(fn)
  cfg = fn.cfg
  ps = fn.fi.params()
  p_table, p_vals = ps[1], ps[3]
  inv = [(n, c) for (n, c, nm) in fn.calls() if E.is_engine_call("invalidate_records")(c, nm, fn)]
  (inn, ic) = _single(inv, "doBulkAddOrReplace: invalidate_records")
  kw = {k.arg: k.value for k in ic.keywords}
  rc = kw.get("data_cols_to_recompute")
  if rc is None or not isinstance(rc, ast.Name):
    run.ob(R2, fn.qualname, short(ic), "new records recalculate their default/trigger formulas",
           False, fi=fn.fi, node=ic)
    return
  RC = rc.id
  addc = [(n, c) for (n, c, nm) in fn.calls() if nm == RC + ".add" and len(c.args) == 1]
  (an, ac) = _single(addc, "doBulkAddOrReplace: %s.add" % RC)
  loop = None
  for s in walk_no_nested(fn.node):
    if isinstance(s, ast.For) and any(x is ac for x in ast.walk(s)):
      loop = s
  ok = loop is not None and isinstance(loop.iter, ast.Attribute) and \
      loop.iter.attr == "all_columns" and isinstance(loop.iter.value, ast.Name) and \
      text(ac.args[0]) == text(loop.target)
  if ok:
    tdefs = E.local_defs(fn.node, loop.iter.value.id)
    ok = len(tdefs) == 1 and isinstance(tdefs[0], ast.Subscript) and \
        endswith(dotted(tdefs[0].value), "_engine.tables") and text(tdefs[0].slice) == p_table
  if not ok:
    raise AnalysisError("doBulkAddOrReplace: cannot read over which columns %s is filled" % RC)
  run.ob(R2, fn.qualname, "for col_id in table.all_columns: %s.add(col_id)" % RC,
         "every column of the table the records are added to is a candidate for recalculation",
         ok, fi=fn.fi, node=loop or ic)
  cv = text(loop.target) if loop is not None else "?"
  def key(e):
    e2 = H.inline(flow, e)
    if isinstance(e2, ast.Compare) and len(e2.ops) == 1 and isinstance(e2.ops[0], ast.In) and \
        text(e2.left) == cv and text(e2.comparators[0]) == p_vals:
      return "supplied"
    if text(e2) == "%s.startswith('_grist_')" % p_table:
      return "metadata-table"
    wr_ = _when_role(fn, e2, p_table, cv, {"NEVER": "never"})
    if wr_ is not None:
      return wr_
    return None
  cond = H.Conditions(fn, flow, key)
  actual = cond.of_stmt(_stmt_of(fn.node, ac), scope=loop)
  sup, meta, nev = H.f_atom("supplied"), H.f_atom("metadata-table"), H.f_atom("never")
  user_never = H.f_and(H.f_not(meta), nev)
  expected = H.f_and(H.f_not(sup), H.f_not(user_never))
  shown = H.f_show(actual)
  if unread_role(actual, "never", "recalcWhen"):
    raise AnalysisError("doBulkAddOrReplace: cannot tell whose recalcWhen is tested: %s" % shown)
  run.ob(R2, fn.qualname, "if col_id in %s: continue" % p_vals, "a column for which the action "
         "supplied a value is not recalculated",
         H.f_equivalent(H.f_and(actual, sup), H.F_FALSE), witness="added when " + shown,
         fi=fn.fi, node=ac)
  run.ob(R2, fn.qualname, "if col_rec.recalcWhen == RecalcWhen.NEVER: continue",
         "a NEVER column is not recalculated for new records",
         H.f_equivalent(H.f_and(actual, user_never), H.F_FALSE), witness="added when " + shown,
         fi=fn.fi, node=ac)
  run.ob(R2, fn.qualname, "no other column is skipped", "every other column gets its formula's "
         "value on a new record", H.f_equivalent(H.f_or(H.f_not(expected), actual), H.F_TRUE),
         witness="added when " + shown, fi=fn.fi, node=ac)
  # the invalidation covers the new rows, after the records exist
  gws = {n.id for (n, c, nm) in fn.calls() if E.is_strict_gateway_call(c, nm, fn)}
  rret = H.returns_of(fn.node)
  filled = text(rret[0].value) if len(rret) == 1 else None
  ok = len(ic.args) >= 2 and text(ic.args[0]) == p_table and text(ic.args[1]) == filled and \
      bool(gws) and all(cfg.postdominated_by(gn, {inn.id}) for gn in gws) and \
      cfg.dominated_by(inn.id, {an.id} | {n.id for n in cfg.nodes if n.stmt is loop})
  run.ob(R2, fn.qualname, "_do_doc_action(action) -> invalidate_records(%s, %s, "
         "data_cols_to_recompute=%s)" % (p_table, filled, RC), "the new rows (the ids actually "
         "used) are invalidated after they were added, on every path", ok, fi=fn.fi, node=ic)
  # engine side
  ir = w.fn("engine.Engine.invalidate_records")
  ips = ir.fi.params()
  calls = [c for (n, c, nm) in ir.calls() if nm == "self.invalidate_column"]
  ok = False
  if len(calls) != 1:
    raise AnalysisError("invalidate_records: expected one invalidate_column call")
  calls = [_positional(w, c, "engine.Engine.invalidate_column") for c in calls]
  if len(calls) == 1 and len(calls[0].args) == 3:
    c = calls[0]
    col = text(c.args[0])
    ok = text(c.args[1]) == ips[2] and \
        text(H.inline(H.Flow(ir), c.args[2])) in ("%s.col_id in %s" % (col, ips[4]),)
  run.ob(R2, ir.qualname, "invalidate_column(column, row_ids, column.col_id in "
         "data_cols_to_recompute)", "the per-column recompute flag is exactly membership in the "
         "set the caller computed", ok, fi=ir.fi)
  ic2 = w.fn("engine.Engine.invalidate_column")
  cps = ic2.fi.params()
  dep = [c for (n, c, nm) in ic2.calls() if nm == "self.dep_graph.invalidate_deps"]
  ok = len(dep) == 1
  if ok:
    b = H.bind_args(dep[0], w.fn("depend.Graph.invalidate_deps").fi)
    dps = w.fn("depend.Graph.invalidate_deps").fi.params()
    flow2 = H.Flow(ic2)
    inc = b.get("include_self")
    ok = inc is not None and len(dps) >= 3 and dps[2] in b and text(b[dps[2]]) == cps[2] and \
        text(H.inline(flow2, inc)).replace("(", "").replace(")", "") == \
        "%s.is_formula or %s.has_formula and %s" % (cps[1], cps[1], cps[3])
  run.ob(R2, ic2.qualname, "include_self = is_formula() or (has_formula() and recompute_data_col)",
         "a data column is itself recomputed only when it has a formula and the caller asked "
         "for it", ok, fi=ic2.fi)


# --------------------------------------------------------------------------------------- R3

MAP = "_prevent_recompute_map"
READ_METHODS = ("get", "items", "keys", "values", "__contains__", "copy")


def _exempts_supplied(run, RID, w, fn):
  """One obligation: the record doc action `fn` (table_id, row_ids, <column values>) exempts, for
  every supplied column that is not a formula column, exactly the rows it wrote."""
  ps = fn.fi.params()
  if len(ps) < 4:
    raise AnalysisError("%s: unexpected parameters" % fn.qualname)
  p_rows, p_cols = ps[2], ps[3]
  prev = [(n, c) for (n, c, nm) in fn.calls() if E.is_engine_call("prevent_recalc")(c, nm, fn)]
  if len(prev) > 1:
    raise AnalysisError("%s: several prevent_recalc calls" % fn.qualname)
  ok = len(prev) == 1
  wit = None
  if ok:
    (pn, pc) = prev[0]
    pe = w.fn("engine.Engine.prevent_recalc")
    b = H.bind_args(pc, pe.fi)
    eps = pe.fi.params()
    loop = None
    for s in walk_no_nested(fn.node):
      if isinstance(s, ast.For) and any(x is pc for x in ast.walk(s)) and \
          text(H.strip_passthrough(s.iter)) in (p_cols + ".items()", p_cols, p_cols + ".keys()"):
        loop = s
    if loop is None:
      raise AnalysisError("%s: prevent_recalc is not in a loop over the written columns"
                          % fn.qualname)
    bflow = H.Flow(fn)
    cid = text(loop.target.elts[0]) if isinstance(loop.target, ast.Tuple) else text(loop.target)
    def column_of(e):
      """e denotes <table>.get_column(<the loop's column id>)"""
      v = H.inline(bflow, e)
      return isinstance(v, ast.Call) and isinstance(v.func, ast.Attribute) and \
          v.func.attr == "get_column" and [text(a) for a in v.args] == [cid]
    nodearg = b.get(eps[1])
    is_col = isinstance(nodearg, ast.Attribute) and nodearg.attr == "node" and \
        column_of(nodearg.value)
    def key(e):
      if isinstance(e, ast.Call) and isinstance(e.func, ast.Attribute) and \
          e.func.attr == "is_formula" and not e.args and column_of(e.func.value):
        return "is-formula"
      return None
    actual = H.Conditions(fn, bflow, key).of_stmt(_stmt_of(fn.node, pc), scope=loop)
    ok = is_col and eps[2] in b and text(b[eps[2]]) == p_rows and eps[3] in b and \
        isinstance(b[eps[3]], ast.Constant) and b[eps[3]].value is True and \
        H.f_equivalent(actual, H.f_not(H.f_atom("is-formula"))) and \
        not H.guards_of(fn.node, loop)
    wit = "exempted when " + H.f_show(actual)
    # the values are stored by this doc action
    ok = ok and bool(_value_writers(fn))
  run.ob(RID, fn.qualname, "if not col.is_formula(): prevent_recalc(col.node, %s, "
         "should_prevent=True)" % p_rows, "every data column the doc action writes is exempted "
         "from recalculation for exactly the rows written (an explicit value is kept)", ok,
         witness=wit, fi=fn.fi)


def _value_writers(fn):
  """CFG nodes at which a record doc action stores caller-supplied cell values (its column-values
  parameter) and leaves the rows invalidated: Column.set(row, <value>) / Engine.add_records(...,
  <values>). (Unsetting old rows is not storing supplied values; load_table, used to replace a
  table's data wholesale, does not invalidate stored columns and is not counted.)"""
  ps = fn.fi.params()
  if len(ps) < 4:
    return set()
  du = H.Flow(fn).du
  supplied = lambda x: isinstance(x, ast.Name) and x.id == ps[3] and isinstance(x.ctx, ast.Load)
  out = set()
  for (n, c, nm) in fn.calls():
    if (E.is_column_mutation(c, nm, fn) and c.func.attr == "set") or \
        E.is_engine_call("add_records")(c, nm, fn):
      if any(du.flows_from(supplied, a) for a in list(c.args) + [k.value for k in c.keywords]):
        out.add(n.id)
  return out


def r3_exemptions(run, w):
  R3 = run.rule("C15-R3", "explicit values are exempted by the doc action; the exemption map is "
                "written only by prevent_recalc, cleared per user action, and only read by "
                "_recompute_step, which subtracts it without mutation", floor=8)
  # doc action
  _exempts_supplied(run, R3, w, w.fn("docactions.DocActions.BulkUpdateRecord"))
  pe = w.fn("engine.Engine.prevent_recalc")
  eps = pe.fi.params()
  pflow = H.Flow(pe)
  SD_T = "self.%s.setdefault(%s, set())" % (MAP, eps[1])
  def edits(meth):
    return [c for c in calls_in(pe.node) if isinstance(c.func, ast.Attribute) and
            c.func.attr == meth and [text(a) for a in c.args] == [eps[2]] and
            text(H.inline(pflow, c.func.value)) == SD_T]
  up, du_ = edits("update"), edits("difference_update")
  ok = len(up) == 1 and len(du_) == 1 and not pflow.du.defs.get(eps[3])
  if ok:
    pcond = H.Conditions(pe, pflow, lambda e: "should-prevent" if text(e) == eps[3] else None)
    flagf = H.f_atom("should-prevent")
    ok = H.f_equivalent(pcond.of_stmt(_stmt_of(pe.node, up[0])), flagf) and \
        H.f_equivalent(pcond.of_stmt(_stmt_of(pe.node, du_[0])), H.f_not(flagf))
  run.ob(R3, pe.qualname, "prevented = map.setdefault(node, set()); update / difference_update",
         "should_prevent=True adds the rows to the node's exemptions, False removes them", ok,
         fi=pe.fi)
  # who touches the map
  allowed_writes = {
    "engine.Engine.__init__": "assign",
    "engine.Engine.prevent_recalc": "setdefault",
    "engine.Engine.apply_user_actions": "clear",
  }
  n_access = 0
  for fi in w.repo.all_functions():
    for x in walk_no_nested(fi.node):
      if not (isinstance(x, ast.Attribute) and x.attr == MAP):
        continue
      n_access += 1
      kind = _access_kind(fi, x)
      if kind in READ_METHODS or kind == "read":
        run.ob(R3, fi.qualname, "%s.%s (%s)" % (text(x.value), MAP, kind),
               "read access", True, fi=fi, node=x, nontrivial=False)
      else:
        run.ob(R3, fi.qualname, "%s.%s (%s)" % (text(x.value), MAP, kind),
               "the exemptions of the current user action are changed only by prevent_recalc "
               "and dropped only at the start of the next user action; in particular "
               "_recompute_step, which may see a node several times, must leave them in place",
               _write_allowed(w, fi, kind, allowed_writes), fi=fi, node=x)
  if n_access < 4:
    raise AnalysisError("accesses to Engine.%s not found" % MAP)
  # cleared at the start of every user action
  fn = w.fn("engine.Engine.apply_user_actions")
  cfg = fn.cfg
  p_actions = fn.fi.params()[1]
  def clears(c, nm, f, depth=0):
    if nm == "self.%s.clear" % MAP:
      return True
    # a private helper of the same class that clears the map on every path
    if nm and nm.startswith("self._") and nm.count(".") == 1 and f.fi.cls is not None and \
        depth < 2:
      t = w.repo.find_method(f.fi.cls, nm.split(".")[1])
      if t is not None and t.qualname != f.fi.qualname:
        tf = w.fn_of(t)
        inner = tf.nodes_calling(lambda c2, nm2, f2: clears(c2, nm2, f2, depth + 1))
        return bool(inner) and tf.cfg.dominated_by(tf.cfg.exit.id, inner)
    return False
  clr = fn.nodes_calling(clears)
  app = _user_action_applications(fn)
  def over_actions(it):
    # the user actions, possibly enumerated / copied
    while isinstance(it, ast.Call) and dotted(it.func) in ("enumerate", "list", "tuple", "iter") \
        and it.args:
      it = it.args[0]
    return text(it) == p_actions
  loops = {n.id for n in cfg.nodes if n.kind == "for" and over_actions(n.stmt.iter)}
  ok = bool(clr) and bool(app) and bool(loops)
  wit = None
  if ok:
    for a in app:
      # every path from the loop header to the application passes the clearing
      r = cfg.reach_after(loops, removed=clr)
      if a in r:
        ok = False
        wit = cfg.describe_path(cfg.path(sorted(loops)[0], {a}, removed=clr, after=True))
  run.ob(R3, fn.qualname, "for user_action in %s: self.%s.clear() ... _apply_one_user_action"
         % (p_actions, MAP), "exemptions last for one user action: each iteration clears them "
         "before applying its action", ok, witness=wit, fi=fn.fi)
  # _recompute_step subtracts
  fn = w.fn("engine.Engine._recompute_step")
  flow = H.Flow(fn)
  p_node = fn.fi.params()[1]
  reads = [(n, c) for (n, c, nm) in H.calls(fn) if isinstance(c.func, ast.Attribute) and
           isinstance(c.func.value, ast.Attribute) and c.func.value.attr == MAP]
  ok = len(reads) == 1 and reads[0][1].func.attr == "get" and s_args(reads[0][1])[:1] == [p_node]
  exc = reads[0][1] if reads else None

  def is_exempt(e, nid=None):
    """e denotes the exemptions read from the map."""
    if exc is None or not isinstance(e, ast.expr):
      return False
    if e is exc:
      return True
    try:
      rs = flow.roots(e, nid if nid is not None else flow.node_of(e))
    except AnalysisError:
      return False
    return bool(rs) and all(r.kind == "call" and r.node is exc and not r.path for r in rs)

  subs = [(n, x) for n in fn.cfg.nodes for e in n.exprs for x in walk_no_nested(e)
          if isinstance(x, ast.BinOp) and isinstance(x.op, ast.Sub) and is_exempt(x.right, n.id)]
  aug = [n for n in fn.cfg.nodes if n.kind == "stmt" and isinstance(n.stmt, ast.AugAssign) and
         is_exempt(n.stmt.value, n.id)]
  muts = [c for (n, c, nm) in H.calls(fn) if isinstance(c.func, ast.Attribute) and
          c.func.attr in ("difference_update", "discard", "remove", "intersection_update") and
          any(is_exempt(a, n.id) for a in c.args)]
  ok = ok and len(subs) == 1 and not aug and not muts
  if ok:
    (sn, sx) = subs[0]
    # conditions tested after the exemptions were read: nothing but "there are exemptions" may
    # decide whether they are subtracted
    g = []
    for (t, p) in H.expr_atoms(fn.node, sx):
      tn = [m for m in fn.cfg.nodes if any(x is t or H._synth_within(t, x) for x in m.exprs)]
      if not tn or fn.cfg.dominated_by(tn[0].id, {reads[0][0].id}):
        g.append((t, p))
    ok = all(p is True and is_exempt(t) for (t, p) in g)
    # the evaluation loop iterates the reduced set: the difference is one origin of the set the
    # rows are drawn from, its left operand being the dirty rows
    loops = []
    for l in fn.cfg.nodes:
      if l.kind != "for":
        continue
      for nm in [x for x in ast.walk(l.stmt.iter) if isinstance(x, ast.Name)]:
        rs = flow.roots(nm, l.id)
        if any(r.node is sx for r in rs):
          left = flow.roots(sx.left, sn.id)
          loops.append(bool(left) and all(
            any(r.node is o.node for o in rs) or r.node is sx for r in left))
    ok = ok and bool(loops) and all(loops)
  run.ob(R3, fn.qualname, "exempt = self.%s.get(%s); if exempt: dirty_rows = dirty_rows - exempt"
         % (MAP, p_node), "the rows evaluated are the dirty rows minus the exempt ones, "
         "computed as a new set (the dirty set kept in recompute_map is not edited in place)",
         ok, fi=fn.fi)


def _write_allowed(w, fi, kind, allowed, depth=0):
  """The write happens in the function allowed to make it, or in a private helper that only
  that function calls."""
  if allowed.get(fi.qualname) == kind:
    return True
  if depth >= 2:
    return False
  sites = H._call_sites(w, fi)
  return bool(sites) and all(_write_allowed(w, cfn.fi, kind, allowed, depth + 1)
                             for (cfn, n, c) in sites)


def s_args(call):
  return [text(a) for a in call.args]


def _access_kind(fi, attr_node):
  """How the function uses this occurrence of the map attribute."""
  parent = None
  for n in walk_no_nested(fi.node):
    for ch in ast.iter_child_nodes(n):
      if ch is attr_node:
        parent = n
  if parent is None:
    return "read"
  if isinstance(parent, ast.Attribute) and parent.value is attr_node:
    return parent.attr          # method access: .get / .pop / .clear / .setdefault ...
  if isinstance(parent, ast.Assign) and any(t is attr_node for t in parent.targets):
    return "assign"
  if isinstance(parent, (ast.AugAssign, ast.AnnAssign)) and parent.target is attr_node:
    return "assign"
  if isinstance(parent, ast.Delete):
    return "delete"
  if isinstance(parent, ast.Subscript) and parent.value is attr_node:
    return "read" if isinstance(parent.ctx, ast.Load) else "setitem"
  if isinstance(parent, ast.Compare):
    return "__contains__"
  return "read"


# --------------------------------------------------------------------------------------- R4

def _raises_only(ifstmt):
  """An `if` whose body only rejects the user action (validation)."""
  return bool(ifstmt.body) and isinstance(ifstmt.body[-1], ast.Raise) and not ifstmt.orelse


def r4_manual_updates(run, w):
  R4 = run.rule("C15-R4", "after a user update: MANUAL_UPDATES columns invalidated with "
                "recompute_data_col=True and self-dependent columns un-exempted, for the rows "
                "of the trimmed update, only when it is non-empty, after the doc action",
                floor=7)
  fn = w.fn("useractions.UserActions.doBulkUpdateRecord")
  flow = H.Flow(fn)
  cfg = fn.cfg
  p_table = fn.fi.params()[1]
  fields = w.action_types().get("BulkUpdateRecord")
  if not fields or len(fields) != 3:
    raise AnalysisError("actions.BulkUpdateRecord: unexpected fields")

  def from_trim(expr, nid, field_index):
    """Every origin of expr is element `field_index` of trim_update_action's result."""
    rs = flow.roots(expr, nid)
    bad = []
    for r in rs:
      ok = r.kind == "call" and endswith(flow.call_name(r.node), "trim_update_action") and \
          r.path in ((("idx", field_index),), (("attr", fields[field_index]),))
      if not ok:
        bad.append(r)
    return bool(rs) and not bad, bad

  def need_readable(bad, what):
    """Origins that are not the trimmed update: a parameter / the untrimmed action is a
    finding; a value from code we cannot read is not decidable."""
    for r in bad:
      if r.kind == "unknown" or (r.kind == "call" and not (
          H._is_convert(r.node, flow.call_name(r.node)) or
          endswith(flow.call_name(r.node), "trim_update_action", "translate_new_row_ids") or
          E.action_ctor(r.node, set(w.doc_action_names())))):
        raise AnalysisError("doBulkUpdateRecord: cannot follow where %s comes from (%r)"
                            % (what, r))

  inv = [(n, c) for (n, c, nm) in fn.calls() if E.is_engine_call("invalidate_column")(c, nm, fn)]
  unp = [(n, c) for (n, c, nm) in fn.calls() if E.is_engine_call("prevent_recalc")(c, nm, fn)]
  (inn, ic) = _single(inv, "doBulkUpdateRecord: invalidate_column")
  (un, uc) = _single(unp, "doBulkUpdateRecord: prevent_recalc")
  col_loops = [s for s in walk_no_nested(fn.node) if isinstance(s, ast.For) and
               endswith(text(s.iter), "all_columns.items()") and
               any(x is ic for x in ast.walk(s))]
  cl = _single(col_loops, "doBulkUpdateRecord: loop over the columns")
  col_id, col_obj = [text(e) for e in cl.target.elts]
  ice = w.fn("engine.Engine.invalidate_column")
  b = H.bind_args(ic, ice.fi)
  ips = ice.fi.params()
  ok, bad = from_trim(b[ips[2]], inn.id, 1) if ips[2] in b else (False, ["all rows"])
  if ips[2] in b:
    need_readable(bad, "the invalidated rows")
  run.ob(R4, fn.qualname, "invalidate_column(%s, <rows of the trimmed update>, ...)" % col_obj,
         "MANUAL_UPDATES columns are recalculated only for rows the update actually changed "
         "(the rows left by trim_update_action), not for every row the user action named", ok,
         witness="; ".join(repr(x) for x in bad) or None, fi=fn.fi, node=ic)
  ok = text(b[ips[1]]) == col_obj and ips[3] in b and isinstance(b[ips[3]], ast.Constant) and \
      b[ips[3]].value is True
  run.ob(R4, fn.qualname, "invalidate_column(%s, ..., recompute_data_col=True)" % col_obj,
         "the data column itself is scheduled for recalculation", ok, fi=fn.fi, node=ic)
  def key(e):
    e2 = H.inline(flow, e)
    t2 = text(e2)
    if t2 == "%s.is_formula()" % col_obj:
      return "is-formula"
    if t2 == "%s.has_formula()" % col_obj:
      return "has-formula"
    wr_ = _when_role(fn, e2, p_table, col_id, {"MANUAL_UPDATES": "manual-updates"})
    if wr_ is not None:
      return wr_
    if isinstance(e2, ast.Attribute) and e2.attr == "recalcOnChangesToSelf" and \
        _col_rec_lookup(fn, text(e2.value), p_table, col_id):
      return "depends-on-itself"
    if isinstance(e, ast.expr):
      try:
        en = flow.node_of(e)
      except AnalysisError:
        en = None
      if en is not None:
        if isinstance(e, ast.Compare) and len(e.ops) == 1 and isinstance(e.ops[0], ast.In) and \
            text(e.left) == col_id and from_trim(e.comparators[0], en, 2)[0]:
          return "column-written"
        if not isinstance(e, (ast.Compare, ast.BoolOp, ast.UnaryOp, ast.Constant)) and \
            from_trim(e, en, 2)[0]:
          return "update-non-empty"
    return None
  cond = H.Conditions(fn, flow, key)
  considered = H.f_and(H.f_not(H.f_atom("is-formula")), H.f_atom("has-formula"))
  nonempty = H.f_atom("update-non-empty")
  in_loop = cond.of_stmt(_stmt_of(fn.node, ic), scope=cl)
  if unread_role(in_loop, "manual-updates", "recalcWhen"):
    raise AnalysisError("doBulkUpdateRecord: cannot tell whose recalcWhen is tested: %s"
                        % H.f_show(in_loop))
  # tests made after the update was trimmed (earlier ones concern the requested update)
  trims = {n.id for (n, c, nm) in H.calls(fn) if endswith(nm, "trim_update_action")}
  def after_trim(t):
    ifn = [n for n in cfg.nodes if n.kind in ("if", "while") and
           H._synth_within(t, n.stmt.test)]
    return bool(ifn) and bool(trims) and cfg.dominated_by(ifn[0].id, trims) and \
        not _raises_only(ifn[0].stmt)
  overall = cond.of_stmt(_stmt_of(fn.node, ic), keep=after_trim)
  run.ob(R4, fn.qualname, "if <columns of the trimmed update>: ...", "nothing is invalidated "
         "when the update changed nothing",
         "update-non-empty" in H.f_atoms(overall) and
         H.f_equivalent(H.f_and(overall, H.f_not(nonempty)), H.F_FALSE), fi=fn.fi, node=ic)
  # (conditions outside the column loop other than the emptiness test are whole-action early
  # exits -- validation that rejects the user action -- and are not of interest here)
  run.ob(R4, fn.qualname, "if col_rec.recalcWhen == RecalcWhen.MANUAL_UPDATES: invalidate_column",
         "only columns configured for manual updates are invalidated this way (the record being "
         "this column's own), among data columns that have a formula",
         H.f_equivalent(in_loop, H.f_and(considered, H.f_atom("manual-updates"))),
         witness="invalidated when " + H.f_show(in_loop), fi=fn.fi, node=ic)
  # un-prevent for self-dependent columns
  pe = w.fn("engine.Engine.prevent_recalc")
  b = H.bind_args(uc, pe.fi)
  eps = pe.fi.params()
  ok, bad = from_trim(b[eps[2]], un.id, 1)
  run.ob(R4, fn.qualname, "prevent_recalc(%s.node, <rows of the trimmed update>, "
         "should_prevent=False)" % col_obj, "a data-cleaning column is released for the rows "
         "that were changed", ok and text(b[eps[1]]) == col_obj + ".node" and
         isinstance(b[eps[3]], ast.Constant) and b[eps[3]].value is False,
         witness="; ".join(repr(x) for x in bad) or None, fi=fn.fi, node=uc)
  rel_loop = cond.of_stmt(_stmt_of(fn.node, uc), scope=cl)
  want = H.f_and(considered, H.f_atom("column-written"), H.f_atom("depends-on-itself"))
  # the release may also be left to the cases where it matters less strictly, but never widened
  ok = H.f_equivalent(rel_loop, want) or \
      H.f_equivalent(rel_loop, H.f_and(H.f_atom("column-written"), H.f_atom("depends-on-itself")))
  run.ob(R4, fn.qualname, "if col_id in <columns of the trimmed update> and "
         "col_rec.recalcOnChangesToSelf: un-prevent", "only a column that was itself written and "
         "depends on itself is released", ok, witness="released when " + H.f_show(rel_loop),
         fi=fn.fi, node=uc)
  # both happen after the doc action was applied
  main = set()
  for (n, c, nm) in fn.calls():
    if E.is_strict_gateway_call(c, nm, fn) and len(c.args) == 1:
      rs = flow.roots(c.args[0], n.id)
      if rs and all(r.kind == "call" and endswith(flow.call_name(r.node), "trim_update_action")
                    for r in rs):
        main.add(n.id)
  ok = bool(main) and cfg.dominated_by(inn.id, main) and cfg.dominated_by(un.id, main)
  run.ob(R4, fn.qualname, "_do_doc_action(<trimmed action>) -> invalidate_column / "
         "prevent_recalc(False)", "the doc action (which exempts the written rows) runs first; "
         "releasing a self-dependent column before it would be undone by it", ok, fi=fn.fi)
  # the trim itself: rows kept are rows with a changed value
  tr = w.fn("engine.Engine.trim_update_action")
  tflow = H.Flow(tr)
  tcases = [c for c in H.return_cases(tr.node) if c.value is not None]
  if len(tcases) != 1:
    raise AnalysisError("trim_update_action: expected a single returned action")
  trn = [m.id for m in tr.cfg.nodes if m.stmt is tcases[0].stmt][0]
  tv = H.resolve(tflow, tcases[0].value, trn)
  if not (isinstance(tv, ast.Call) and endswith(dotted(tv.func), "BulkUpdateRecord") and
          len(tv.args) == 3):
    raise AnalysisError("trim_update_action: the result is not a BulkUpdateRecord(...) call")
  # the rows of the result: one per index of the kept subset; the subset is filled under the test
  # "some value differs from the stored one" and under nothing else
  rows_els = H.elements(tr, tflow, tv.args[1], tflow.node_of(tv))
  if not rows_els or len(rows_els) != 1 or len(rows_els[0].gens) != 1:
    raise AnalysisError("trim_update_action: cannot follow how the kept row ids are built")
  sub_els = H.elements(tr, tflow, rows_els[0].gens[0][1], rows_els[0].nid)
  if not sub_els:
    raise AnalysisError("trim_update_action: cannot follow how the kept row subset is built")
  def differs(t):
    t = H.inline(tflow, t)
    return isinstance(t, ast.Call) and dotted(t.func) == "any" and "raw_get" in text(t) and \
        any(isinstance(x, ast.Compare) and len(x.ops) == 1 and isinstance(x.ops[0], ast.NotEq)
            for x in ast.walk(t))
  ok = not rows_els[0].conds
  for el in sub_els:
    atoms = [a for (t, p) in el.conds for a in H.split_guard(t, p)]
    ok = ok and len(el.gens) == 1 and len(atoms) == 1 and atoms[0][1] is True and \
        differs(atoms[0][0])
  run.ob(R4, tr.qualname, "row_subset = [i ... if any(values[i] != col.raw_get(row_id) ...)]",
         "the trimmed update keeps exactly the rows for which some value differs from the "
         "stored one", ok, fi=tr.fi)
  # self-dependency flag
  rs = w.fn("docmodel.MetaTableExtras._grist_Tables_column.recalcOnChangesToSelf")
  rets = H.returns_of(rs.node)
  rec = rs.fi.params()[0]
  ok = len(rets) == 1 and isinstance(rets[0].value, ast.BoolOp) and \
      isinstance(rets[0].value.op, ast.And) and len(rets[0].value.values) == 2
  if ok:
    a, b2 = rets[0].value.values
    ok = _is_recalc_when(a, "DEFAULT") == rec and isinstance(b2, ast.Compare) and \
        isinstance(b2.ops[0], ast.In) and text(b2.left) == rec + ".id" and \
        text(b2.comparators[0]) == rec + ".recalcDeps"
  run.ob(R4, rs.qualname, "rec.recalcWhen == RecalcWhen.DEFAULT and rec.id in rec.recalcDeps",
         "a column depends on itself when it is configured for dependency-triggered "
         "recalculation and lists itself", ok, fi=rs.fi)


# --------------------------------------------------------------------------------------- R5

def r5_rebuild_trigger(run, w):
  R5 = run.rule("C15-R5", "changes of recalcWhen/recalcDeps and usercode rebuilds schedule a "
                "rebuild of the trigger edges, done before the bundle's recalculation", floor=4)
  fn = w.fn("docactions.DocActions.BulkUpdateRecord")
  ps = fn.fi.params()
  calls = [(n, c) for (n, c, nm) in fn.calls()
           if E.is_engine_call("trigger_columns_changed")(c, nm, fn)]
  ok = len(calls) == 1
  if ok:
    bflow = H.Flow(fn)
    def key(e):
      e2 = H.inline(bflow, e)
      if isinstance(e2, ast.Compare) and len(e2.ops) == 1:
        l, r = e2.left, e2.comparators[0]
        if isinstance(e2.ops[0], ast.Eq):
          pair = {text(l), text(r)}
          if ps[1] in pair and any(isinstance(x, ast.Constant) and
                                   x.value == "_grist_Tables_column" for x in (l, r)):
            return "column-metadata"
        if isinstance(e2.ops[0], ast.In) and isinstance(l, ast.Constant) and \
            isinstance(l.value, str) and text(r) == ps[3]:
          return "writes:" + l.value
      return None
    cond = H.Conditions(fn, bflow, key)
    actual = cond.of_stmt(_stmt_of(fn.node, calls[0][1]))
    want = H.f_and(H.f_atom("column-metadata"),
                   H.f_or(H.f_atom("writes:recalcWhen"), H.f_atom("writes:recalcDeps")))
    ok = H.f_equivalent(H.f_or(H.f_not(want), actual), H.F_TRUE)
    # ... and every path through the doc action comes by that test
    gate = {calls[0][0].id} | {n.id for n in fn.cfg.nodes if n.kind == "if" and
                               any(str(a).startswith(("column-metadata", "writes:"))
                                   for a in H.f_atoms(cond.of_expr(n.stmt.test)))}
    ok = ok and fn.cfg.dominated_by(fn.cfg.exit.id, gate)
  run.ob(R5, fn.qualname, "if table_id == '_grist_Tables_column' and ('recalcWhen' in columns or "
         "'recalcDeps' in columns): trigger_columns_changed()", "every metadata update that "
         "touches a trigger configuration schedules a rebuild of the edges", ok, fi=fn.fi)
  ru = w.fn("engine.Engine.rebuild_usercode")
  tc = ru.nodes_calling(lambda c, nm, f: nm == "self.trigger_columns_changed")
  mk = ru.nodes_calling(lambda c, nm, f: endswith(nm, "gencode.make_module"))
  if not mk:
    raise AnalysisError("rebuild_usercode: the module rebuild (gencode.make_module) not found")
  if not tc:
    moved = H.called_elsewhere(w, "trigger_columns_changed",
                               ("engine.Engine.rebuild_usercode",
                                "docactions.DocActions.BulkUpdateRecord",
                                "engine.Engine.trigger_columns_changed"))
    if moved:
      raise AnalysisError("rebuild_usercode: trigger_columns_changed is not called here but in "
                          "%s; cannot follow" % ", ".join(moved))
  ok = bool(tc) and bool(mk) and all(ru.cfg.postdominated_by(m, tc) for m in mk)
  run.ob(R5, ru.qualname, "make_module(...) ... -> self.trigger_columns_changed()",
         "after any rebuild (renames, added/removed columns) the edges are rebuilt", ok,
         fi=ru.fi)
  tcf = w.fn("engine.Engine.trigger_columns_changed")
  flag = [s for s in walk_no_nested(tcf.node) if isinstance(s, ast.Assign) and
          H.is_self_attr(s.targets[0]) and isinstance(s.value, ast.Constant) and
          s.value.value is True]
  mu = w.fn("engine.Engine._maybe_update_trigger_dependencies")
  ok = len(flag) == 1
  if ok:
    from ..guards import guarded_by, text_atom
    F = flag[0].targets[0].attr
    cfg = mu.cfg
    def sets_flag(n, val):
      return n.kind == "stmt" and isinstance(n.stmt, ast.Assign) and \
          any(H.is_self_attr(t, F) for t in n.stmt.targets) and \
          isinstance(n.stmt.value, ast.Constant) and n.stmt.value.value is val
    resets = {n.id for n in cfg.nodes if sets_flag(n, False)}
    raises = {n.id for n in cfg.nodes if sets_flag(n, True)}
    work = {n.id for (n, c, nm) in mu.calls() if nm in ("self.dep_graph.add_edge",
                                                        "self.dep_graph.clear_dependencies")}
    # the rebuild happens only while the flag is set, and consumes it before doing the work
    ok = bool(resets) and bool(work) and not raises and \
        all(guarded_by(cfg, x, text_atom("self." + F), True, kills=()) for x in work | resets) and \
        all(cfg.dominated_by(x, resets) for x in work)
    init = w.fn("engine.Engine.__init__")
    ok = ok and any(isinstance(s, ast.Assign) and H.is_self_attr(s.targets[0], F) and
                    isinstance(s.value, ast.Constant) and s.value.value is True
                    for s in walk_no_nested(init.node))
  run.ob(R5, mu.qualname, "if not self.<flag>: return; self.<flag> = False",
         "the rebuild runs exactly when scheduled (and once after start-up)", ok, fi=mu.fi)
  au = w.fn("engine.Engine.apply_user_actions")
  cfg = au.cfg
  upd = au.nodes_calling(lambda c, nm, f: nm == "self." + mu.fi.name)
  rec = au.nodes_calling(lambda c, nm, f: nm == "self._bring_all_up_to_date")
  app = _user_action_applications(au)
  if not rec:
    raise AnalysisError("apply_user_actions: the recalculation (_bring_all_up_to_date) not found")
  ok = bool(upd) and bool(rec) and all(cfg.dominated_by(r, upd) for r in rec) and \
      not (cfg.reach_after(upd) & app)
  run.ob(R5, au.qualname, "user actions -> _maybe_update_trigger_dependencies() -> "
         "_bring_all_up_to_date()", "the edges reflect the bundle's configuration changes "
         "before anything is recalculated", ok, fi=au.fi)


# --------------------------------------------------------------------------------------- R7

def r7_edges_removed_by_dependent_only(run, w):
  """Trigger edges (trigger column <- recalcDeps column, SingleRowsIdentityRelation) are built
  only by _maybe_update_trigger_dependencies, at the end of a bundle. Unlike formula edges they
  are not re-created by evaluating the dependent, and their relation swallows ALL_ROWS, so they
  must stay in the graph until the *dependent* (trigger) column drops them: the graph may remove
  edges only by their out node (clear_dependencies). Removing the edges that point at a node
  (by in node) loses the trigger edges of every column depending on it until the next rebuild,
  i.e. for the rest of the bundle."""
  R7 = run.rule("C15-R7", "dependency edges leave the graph only through "
                "Graph.clear_dependencies (by the depending node), never by the node depended on",
                floor=1)
  ci = w.repo.cls("depend.Graph")
  init = w.fn("depend.Graph.__init__")
  edge_sets = [s.targets[0].attr for s in walk_no_nested(init.node) if isinstance(s, ast.Assign)
               and H.is_self_attr(s.targets[0]) and isinstance(s.value, ast.Call) and
               dotted(s.value.func) == "set" and not s.value.args]
  if len(edge_sets) != 1:
    raise AnalysisError("depend.Graph.__init__: the set of all edges not found")
  ALL = edge_sets[0]
  allowed = {"depend.Graph.clear_dependencies"}
  n = 0
  for m in ci.methods.values():
    fn = w.fn_of(m)
    for (node, c, nm) in fn.calls():
      if nm in ("self.%s.%s" % (ALL, x) for x in ("remove", "discard", "clear", "pop",
                                                   "difference_update", "intersection_update")):
        n += 1
        run.ob(R7, m.qualname, short(c), "an edge is taken out of the graph only when the node "
               "that depends through it drops its dependencies (trigger edges are not re-created "
               "before the end of the bundle)", H._only_called_from(w, fn.fi, allowed), fi=m,
               node=c)
    for x in fn.cfg.nodes:
      if x.kind == "stmt" and isinstance(x.stmt, (ast.Assign, ast.AugAssign)) and \
          m.name != "__init__":
        tg = x.stmt.targets if isinstance(x.stmt, ast.Assign) else [x.stmt.target]
        if any(H.is_self_attr(t, ALL) for t in tg):
          n += 1
          run.ob(R7, m.qualname, short(x.stmt), "the set of all edges is not replaced or "
                 "shrunk outside clear_dependencies", H._only_called_from(w, fn.fi, allowed),
                 fi=m, node=x.stmt)
  if n == 0:
    raise AnalysisError("depend.Graph: no removal from the edge set found")


# --------------------------------------------------------------------------------------- R8

def r8_sibling_agreement(run, w):
  """Adds and updates agree on explicit values for trigger-formula columns: every record doc
  action that itself stores supplied cell values exempts them (prevent_recalc(..., True) for each
  supplied non-formula column), and both user-action paths lift the exemption again for -- and
  only for -- supplied data columns whose record has recalcOnChangesToSelf."""
  R8 = run.rule("C15-R8", "every record doc action storing supplied values exempts them; both "
                "user-action paths lift the exemption only under recalcOnChangesToSelf",
                floor=4)
  ci = w.repo.cls("docactions.DocActions")
  fields = w.action_types()
  n = 0
  for name in sorted(H.RECORD_ACTIONS):
    m = ci.methods.get(name)
    if m is None:
      continue
    fn = w.fn_of(m)
    if not _value_writers(fn):
      continue          # delegates to a sibling (AddRecord -> BulkAddRecord) or loads wholesale
    n += 1
    _exempts_supplied(run, R8, w, fn)
  if n < 2:
    raise AnalysisError("docactions.DocActions: record actions storing values not found")
  for q in ("useractions.UserActions.doBulkUpdateRecord",
            "useractions.UserActions.doBulkAddOrReplace"):
    fn = w.fn(q)
    flow = H.Flow(fn)
    ps = fn.fi.params()
    p_table = ps[1]
    pe = w.fn("engine.Engine.prevent_recalc")
    eps = pe.fi.params()
    lifts = []
    for (n_, c, nm) in fn.calls():
      if E.is_engine_call("prevent_recalc")(c, nm, fn):
        b = H.bind_args(c, pe.fi)
        if eps[3] in b and isinstance(b[eps[3]], ast.Constant) and b[eps[3]].value is False:
          lifts.append((n_, c, b))
    if len(lifts) != 1:
      if not lifts and H.called_elsewhere(w, "prevent_recalc", (
          "docactions.DocActions", "useractions.UserActions.doBulkUpdateRecord",
          "useractions.UserActions.doBulkAddOrReplace", "engine.Engine")):
        raise AnalysisError("%s: the exemption is not lifted here; prevent_recalc is called "
                            "elsewhere, cannot follow" % q)
      run.ob(R8, q, "prevent_recalc(col.node, <rows>, should_prevent=False)", "a supplied value "
             "for a column that depends on itself is still processed by its trigger formula",
             False, witness="%d such calls" % len(lifts), fi=fn.fi)
      continue
    (ln, lc, lb) = lifts[0]
    # the column loop and the column object
    loops = H._enclosing_loops(fn.node, _stmt_of(fn.node, lc))
    nodearg = lb.get(eps[1])
    if not loops or not (isinstance(nodearg, ast.Attribute) and nodearg.attr == "node"):
      raise AnalysisError("%s: cannot read for which column the exemption is lifted" % q)
    colx = text(H.inline(flow, nodearg.value, ln.id))
    cl = loops[-1]
    tnames = [e.id for e in ast.walk(cl.target) if isinstance(e, ast.Name)]
    def key(e, colx=colx, tnames=tnames, fn=fn, flow=flow, p_table=p_table):
      e2 = H.inline(flow, e)
      t2 = text(e2)
      if t2 == "%s.is_formula()" % colx or \
          (isinstance(e, ast.Call) and isinstance(e.func, ast.Attribute) and
           e.func.attr == "is_formula" and text(H.inline(flow, e.func.value)) == colx):
        return "is-formula"
      if isinstance(e, ast.Call) and isinstance(e.func, ast.Attribute) and \
          e.func.attr == "has_formula" and text(H.inline(flow, e.func.value)) == colx:
        return "has-formula"
      if isinstance(e2, ast.Attribute) and e2.attr == "recalcOnChangesToSelf" and \
          any(_col_rec_lookup(fn, text(e2.value), p_table, tn) for tn in tnames):
        return "depends-on-itself"
      return None
    cond = H.Conditions(fn, flow, key)
    actual = cond.of_stmt(_stmt_of(fn.node, lc), scope=cl)
    selfdep = H.f_atom("depends-on-itself")
    if "depends-on-itself" not in H.f_atoms(actual) and \
        any(isinstance(a, str) and "recalcOnChangesToSelf" in a for a in H.f_atoms(actual)):
      raise AnalysisError("%s: cannot tell whose recalcOnChangesToSelf is tested: %s"
                          % (q, H.f_show(actual)))
    run.ob(R8, q, "if col_rec.recalcOnChangesToSelf: prevent_recalc(col.node, <rows>, "
           "should_prevent=False)", "the exemption of an explicit value is lifted only for a "
           "column that depends on itself (any other trigger column keeps the value it was "
           "given)", H.f_equivalent(H.f_and(actual, H.f_not(selfdep)), H.F_FALSE),
           witness="lifted when " + H.f_show(actual), fi=fn.fi, node=lc)


# --------------------------------------------------------------------------------------- R6

def r6_enum(run, w, repo):
  R6 = run.rule("C15-R6", "Python RecalcWhen constants equal the TypeScript RecalcWhen enum",
                floor=1)
  ci = w.repo.cls("schema.RecalcWhen")
  py = {}
  for s in ci.node.body:
    if isinstance(s, ast.Assign) and len(s.targets) == 1 and isinstance(s.targets[0], ast.Name) \
        and isinstance(s.value, ast.Constant) and isinstance(s.value.value, int):
      py[s.targets[0].id] = s.value.value
  path = os.path.join(repo.root, "app", "common", "gristTypes.ts")
  if not os.path.exists(path):
    raise AnalysisError("app/common/gristTypes.ts not found")
  with open(path, encoding="utf-8") as fh:
    src = fh.read()
  ts = _ts_enum(src, "RecalcWhen")
  run.ob(R6, "schema.RecalcWhen", "Python %s == TS %s" % (sorted(py.items()), sorted(ts.items())),
         "both sides of the document store the same number for the same recalculation mode",
         bool(py) and py == ts)
  used = set()
  for fi in w.repo.all_functions():
    for x in walk_no_nested(fi.node):
      if isinstance(x, ast.Attribute) and isinstance(x.value, ast.Name) and \
          x.value.id == "RecalcWhen":
        used.add(x.attr)
  run.ob(R6, "schema.RecalcWhen", "constants used: %s" % sorted(used), "every mode the engine "
         "tests for is a defined constant", used <= set(py), nontrivial=False)


def _ts_enum(src, name):
  """{member: int} of `export enum <name> { A = 0, ... }` (comments stripped, no evaluation)."""
  m = re.search(r"\benum\s+%s\s*\{" % re.escape(name), src)
  if not m:
    raise AnalysisError("gristTypes.ts: enum %s not found" % name)
  i = m.end()
  j = src.find("}", i)
  if j < 0:
    raise AnalysisError("gristTypes.ts: enum %s not closed" % name)
  body = re.sub(r"//[^\n]*", "", src[i:j])
  body = re.sub(r"/\*.*?\*/", "", body, flags=re.S)
  out = {}
  nxt = 0
  for part in body.split(","):
    part = part.strip()
    if not part:
      continue
    mm = re.match(r"^([A-Za-z_]\w*)\s*(?:=\s*(-?\d+))?$", part)
    if not mm:
      raise AnalysisError("gristTypes.ts: enum %s member not understood: %r" % (name, part))
    val = int(mm.group(2)) if mm.group(2) is not None else nxt
    out[mm.group(1)] = val
    nxt = val + 1
  return out


U = "sandbox/grist/useractions.py"
EN = "sandbox/grist/engine.py"
D = "sandbox/grist/docactions.py"
RL = "sandbox/grist/relation.py"
DM = "sandbox/grist/docmodel.py"
TS = "app/common/gristTypes.ts"
VARIANTS = [
  # known realistic breakages (seeded)
  ("untrimmed-rowids", U,
   "    action = [_, row_ids, column_values] = self._engine.trim_update_action(action)",
   "    action = self._engine.trim_update_action(action)\n    column_values = action.columns",
   "C15-R4"),
  ("prevent-recompute-map-popped", EN,
   "    exempt = self._prevent_recompute_map.get(node, None)",
   "    exempt = self._prevent_recompute_map.pop(node, None)", "C15-R3"),
  ("edges-for-manual-updates-too", EN,
   "        if col_rec.recalcWhen == RecalcWhen.DEFAULT:\n          for dc in col_rec.recalcDeps:",
   "        if col_rec.recalcWhen != RecalcWhen.NEVER:\n          for dc in col_rec.recalcDeps:",
   "C15-R1"),
  ("edges-with-identity-relation", EN,
   "        rel = SingleRowsIdentityRelation(table_id)",
   "        rel = table._identity_relation", "C15-R1"),
  ("old-edges-kept", EN,
   "        self.dep_graph.clear_dependencies(out_node)\n\n        # When we have explicit",
   "        # When we have explicit", "C15-R1"),
  ("singlerows-passes-all", RL,
   "    return [] if input_rows == depend.ALL_ROWS else input_rows",
   "    return input_rows", "C15-R1"),
  ("edge-direction-swapped", EN,
   "            edge = depend.Edge(out_node, in_node, rel)",
   "            edge = depend.Edge(in_node, out_node, rel)", "C15-R1"),
  ("supplied-values-recomputed", U,
   "      if col_id in column_values:\n        continue\n      if not table_id.startswith('_grist_'):",
   "      if not table_id.startswith('_grist_'):", "C15-R2"),
  ("never-columns-computed-on-add", U,
   "        if col_rec.recalcWhen == RecalcWhen.NEVER:\n          continue\n",
   "", "C15-R2"),
  ("never-skipped-only-for-formula-columns", U,
   "        if col_rec.recalcWhen == RecalcWhen.NEVER:\n          continue\n",
   "        if col_rec.recalcWhen == RecalcWhen.NEVER and col_rec.isFormula:\n          continue\n",
   "C15-R2"),
  ("only-default-computed-on-add", U,
   "        if col_rec.recalcWhen == RecalcWhen.NEVER:\n          continue\n",
   "        if col_rec.recalcWhen != RecalcWhen.DEFAULT:\n          continue\n", "C15-R2"),
  ("add-invalidates-requested-ids", U,
   "    self._engine.invalidate_records(table_id, filled_row_ids, data_cols_to_recompute=recalc_cols)",
   "    self._engine.invalidate_records(table_id, row_ids, data_cols_to_recompute=recalc_cols)",
   "C15-R2"),
  ("explicit-values-not-protected", D,
   "        col.set(row_id, value)\n\n      # Non-formula columns may get invalidated and recalculated if they have a trigger formula.\n      # Prevent such recalculation if we set an explicit value for them (we want to prevent it\n      # even if triggered by something else within the same useraction).\n      if not col.is_formula():\n        self._engine.prevent_recalc(col.node, row_ids, should_prevent=True)\n",
   "        col.set(row_id, value)\n", "C15-R3"),
  # the two halves of the add/update agreement (fix eee5052), each removed
  ("added-values-not-protected", D,
   """    for col_id in column_values:
      col = table.get_column(col_id)
      if not col.is_formula():
        self._engine.prevent_recalc(col.node, row_ids, should_prevent=True)

  def RemoveRecord(""", """  def RemoveRecord(""", "C15-R8"),
  ("added-self-dependent-value-not-processed", U,
   """        col_rec = self._docmodel.columns.lookupOne(tableId=table_id, colId=col_id)
        if col_rec.recalcOnChangesToSelf:
          self._engine.prevent_recalc(col_obj.node, filled_row_ids, should_prevent=False)
""", "", "C15-R8"),
  ("added-values-released-for-every-trigger-column", U,
   """        if col_rec.recalcOnChangesToSelf:
          self._engine.prevent_recalc(col_obj.node, filled_row_ids, should_prevent=False)
""", """        self._engine.prevent_recalc(col_obj.node, filled_row_ids, should_prevent=False)
""", "C15-R8"),
  ("added-values-protected-for-formula-columns-only", D,
   """      if not col.is_formula():
        self._engine.prevent_recalc(col.node, row_ids, should_prevent=True)

  def RemoveRecord(""", """      if col.is_formula():
        self._engine.prevent_recalc(col.node, row_ids, should_prevent=True)

  def RemoveRecord(""", "C15-R8"),
  ("exemptions-cleared-once-per-bundle", EN,
   """    checkpoint = self._get_undo_checkpoint()
    try:
      for user_action in user_actions:
        self._schema_updated = False

        # At the start of each useraction, clear exemptions. These are used to avoid recalcs of
        # trigger-formula columns for which the same useractions sets an explicit value.
        self._prevent_recompute_map.clear()
""",
   """    checkpoint = self._get_undo_checkpoint()
    self._prevent_recompute_map.clear()
    try:
      for user_action in user_actions:
        self._schema_updated = False
""", "C15-R3"),
  ("exempt-subtracted-in-place", EN,
   "      dirty_rows = dirty_rows - exempt\n",
   "      dirty_rows -= exempt\n", "C15-R3"),
  ("manual-update-invalidates-noop", U,
   "    if column_values:     # Only if this is a non-trivial update.\n      for col_id, col_obj in table.all_columns.items():",
   "    if True:\n      for col_id, col_obj in table.all_columns.items():", "C15-R4"),
  ("manual-update-for-default-cols", U,
   "        if col_rec.recalcWhen == RecalcWhen.MANUAL_UPDATES:",
   "        if col_rec.recalcWhen != RecalcWhen.NEVER:", "C15-R4"),
  ("unprevent-without-self-dependency", U,
   "        if col_id in column_values and col_rec.recalcOnChangesToSelf:",
   "        if col_id in column_values:", "C15-R4"),
  ("manual-update-no-recompute-flag", U,
   "          self._engine.invalidate_column(col_obj, row_ids, recompute_data_col=True)",
   "          self._engine.invalidate_column(col_obj, row_ids)", "C15-R4"),
  ("recalcdeps-change-not-noticed", D,
   "       (\"recalcWhen\" in columns or \"recalcDeps\" in columns)):",
   "       \"recalcWhen\" in columns):", "C15-R5"),
  ("rebuild-keeps-stale-edges", EN,
   """    # Set flag to rebuild dependencies of trigger columns after any potential renames, etc.
    self.trigger_columns_changed()
""", "", "C15-R5"),
  ("deps-updated-after-recalc", EN,
   """    # If needed, rebuild dependencies for trigger formulas.
    self._maybe_update_trigger_dependencies()

    # Note that recalculations and auto-removals get included after processing all useractions.
    self._bring_all_up_to_date()
""",
   """    # Note that recalculations and auto-removals get included after processing all useractions.
    self._bring_all_up_to_date()

    # If needed, rebuild dependencies for trigger formulas.
    self._maybe_update_trigger_dependencies()
""", "C15-R5"),
  ("node-removed-with-edges-to-dependents", "sandbox/grist/depend.py",
   """    if self._in_node_map.get(node, None):
      return False
    self.clear_dependencies(node)""",
   """    for edge in self._in_node_map.get(node, ()):
      self._all_edges.discard(edge)
      self._out_node_map.get(edge.out_node, set()).discard(edge)
    self.clear_dependencies(node)""", "C15-R7"),
  ("ts-enum-renumbered", TS,
   "  NEVER = 1,           // Don't calculate automatically",
   "  NEVER = 2,           // Don't calculate automatically", "C15-R6"),
]
