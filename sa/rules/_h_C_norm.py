"""AST normal forms for the group-C rule modules (pure syntax; nothing is evaluated).

A rule reads a function through a *view*: the function's own AST (plain) or a copy rewritten by
behaviour-preserving transformations into a normal form, so that two spellings of the same code
look alike to the rule:

  inline      calls of private same-class methods / same-module functions are replaced by the
              callee's body (undoes "extract helper"); helpers the rules anchor on by name (KEEP)
              are left alone
  positional  keyword arguments that directly continue the positional ones become positional
              (all same-named repo functions must agree on the parameter order)
  polarity    `if not c: A else: B` -> `if c: B else: A`; `if c: return/continue` + REST at the
              top of a function / loop body -> `if not c: REST`; `if c: x = A else: x = B` ->
              `x = A if c else B` (same for a pair of returns)
  aliases     `a = x.y.z` (single binding, pure attribute path) is substituted into its uses
  temps       `t = <expr>` used exactly once, in the next statement, is substituted there
  comps       `X = []` + append-only `for` loop becomes `X = [... for ...]` (also set / dict)

The transformations assume what a reviewer of such a refactor assumes: attribute paths that the
function does not assign are stable between an alias's definition and its uses, and moving a
single-use temporary into the adjacent statement does not reorder effects that matter. They are
used for *matching* only -- verdicts are always reported against the real source lines.
"""
import ast
import copy
import os
import re

from ..index import FuncInfo, AnalysisError, dotted
from ..fn import World, Fn

_DEFS = (ast.FunctionDef, ast.AsyncFunctionDef, ast.ClassDef)


# --------------------------------------------------------------------------------------------
# statement blocks

def _sub_blocks(stmt):
  out = []
  if isinstance(stmt, _DEFS):
    return out
  for fld in ("body", "orelse", "finalbody"):
    b = getattr(stmt, fld, None)
    if isinstance(b, list) and (not b or isinstance(b[0], ast.stmt)):
      if b:
        out.append(b)
  for h in getattr(stmt, "handlers", []) or []:
    out.append(h.body)
  for c in getattr(stmt, "cases", []) or []:
    out.append(c.body)
  return out


def iter_blocks(fnode):
  """Every statement list of the function (not entering nested defs), outermost first."""
  todo = [fnode.body]
  while todo:
    b = todo.pop(0)
    yield b
    for s in b:
      todo.extend(_sub_blocks(s))


def header_exprs(stmt):
  """Expressions evaluated once when control reaches `stmt` (not the bodies of compounds)."""
  if isinstance(stmt, ast.Assign):
    return [stmt.value] + list(stmt.targets)
  if isinstance(stmt, ast.AugAssign):
    return [stmt.value, stmt.target]
  if isinstance(stmt, ast.AnnAssign):
    return [stmt.value] if stmt.value is not None else []
  if isinstance(stmt, (ast.Expr, ast.Return)):
    return [stmt.value] if stmt.value is not None else []
  if isinstance(stmt, ast.If):
    return [stmt.test]
  if isinstance(stmt, (ast.For, ast.AsyncFor)):
    return [stmt.iter]
  if isinstance(stmt, (ast.With, ast.AsyncWith)):
    return [it.context_expr for it in stmt.items]
  if isinstance(stmt, ast.Raise):
    return [e for e in (stmt.exc, stmt.cause) if e is not None]
  if isinstance(stmt, ast.Assert):
    return [stmt.test]
  if isinstance(stmt, ast.Delete):
    return list(stmt.targets)
  return []


# --------------------------------------------------------------------------------------------
# census of names

class Census(object):
  def __init__(self, fnode):
    self.stores = {}        # name -> number of binding occurrences (whole function, all scopes)
    self.loads = {}         # name -> [Name nodes] (whole function, all scopes)
    self.nested = set()     # names occurring inside nested defs / lambdas
    self.attr_stores = set()
    self.declared = set()
    a = fnode.args
    self.params = {x.arg for x in a.posonlyargs + a.args + a.kwonlyargs}
    if a.vararg:
      self.params.add(a.vararg.arg)
    if a.kwarg:
      self.params.add(a.kwarg.arg)
    for s in fnode.body:
      self._walk(s, False)

  def _st(self, name, n=1):
    self.stores[name] = self.stores.get(name, 0) + n

  def _walk(self, node, nested):
    if isinstance(node, (ast.FunctionDef, ast.AsyncFunctionDef, ast.ClassDef)):
      self._st(node.name)
      for d in node.decorator_list:
        self._walk(d, nested)
      inner = True
      if isinstance(node, ast.ClassDef):
        for b in node.bases:
          self._walk(b, nested)
      else:
        for x in ast.walk(node.args):
          if isinstance(x, ast.arg):
            self.nested.add(x.arg)
          elif isinstance(x, ast.expr) and x is not node.args:
            pass
        for dflt in node.args.defaults + [d for d in node.args.kw_defaults if d is not None]:
          self._walk(dflt, nested)
      for s in node.body:
        self._walk(s, inner)
      return
    if isinstance(node, ast.Lambda):
      for x in ast.walk(node.args):
        if isinstance(x, ast.arg):
          self.nested.add(x.arg)
      self._walk(node.body, True)
      return
    if isinstance(node, ast.Name):
      if nested:
        self.nested.add(node.id)
      if isinstance(node.ctx, ast.Load):
        self.loads.setdefault(node.id, []).append(node)
      else:
        self._st(node.id)
      return
    if isinstance(node, ast.Attribute) and isinstance(node.ctx, (ast.Store, ast.Del)):
      self.attr_stores.add(node.attr)
    if isinstance(node, (ast.Global, ast.Nonlocal)):
      self.declared |= set(node.names)
    if isinstance(node, (ast.Import, ast.ImportFrom)):
      for al in node.names:
        self._st((al.asname or al.name).split(".")[0])
    if isinstance(node, ast.ExceptHandler) and node.name:
      self._st(node.name)
    if isinstance(node, ast.AugAssign) and isinstance(node.target, ast.Name):
      self._st(node.target.id)      # counts twice with the Store ctx: never "single binding"
    for ch in ast.iter_child_nodes(node):
      self._walk(ch, nested)

  def single_local(self, name):
    return self.stores.get(name, 0) == 1 and name not in self.params and \
        name not in self.declared and name not in self.nested


def _all_names(fnode):
  out = set()
  for x in ast.walk(fnode):
    if isinstance(x, ast.Name):
      out.add(x.id)
    elif isinstance(x, ast.arg):
      out.add(x.arg)
    elif isinstance(x, _DEFS):
      out.add(x.name)
  return out


class _Subst(ast.NodeTransformer):
  """Replace loads of the mapped names by copies of expressions."""
  def __init__(self, mapping, only=None):
    self.mapping = mapping
    self.only = only          # restrict to these Name node objects (identity) when given
    self.count = 0

  def visit_Name(self, node):
    if isinstance(node.ctx, ast.Load) and node.id in self.mapping and \
        (self.only is None or any(node is o for o in self.only)):
      self.count += 1
      return ast.copy_location(copy.deepcopy(self.mapping[node.id]), node)
    return node


def _subst_stmts(stmts, mapping, only=None):
  t = _Subst(mapping, only)
  for i, s in enumerate(stmts):
    stmts[i] = t.visit(s)
  return t.count


def _is_simple_assign(s):
  return isinstance(s, ast.Assign) and len(s.targets) == 1 and isinstance(s.targets[0], ast.Name)


def _pure_path(e):
  """Name or attribute chain on a Name; returns (base name, [attrs]) or None."""
  attrs = []
  while isinstance(e, ast.Attribute):
    attrs.append(e.attr)
    e = e.value
  if isinstance(e, ast.Name):
    return e.id, attrs
  return None


def _contains(stmts, node):
  return any(x is node for s in stmts for x in ast.walk(s))


# --------------------------------------------------------------------------------------------
# aliases

def expand_aliases(fnode):
  changed = False
  for _ in range(60):
    cen = Census(fnode)
    done = False
    for block in iter_blocks(fnode):
      for i, s in enumerate(block):
        if not _is_simple_assign(s):
          continue
        n = s.targets[0].id
        pp = _pure_path(s.value)
        if pp is None or not cen.single_local(n):
          continue
        base, attrs = pp
        if base == n or base in cen.declared:
          continue
        if base in cen.params:
          if cen.stores.get(base, 0) != 0:
            continue
        elif cen.stores.get(base, 0) > 1:
          continue
        if any(a in cen.attr_stores for a in attrs):
          continue
        uses = cen.loads.get(n, [])
        rest = block[i + 1:]
        if not uses or not all(_contains(rest, u) for u in uses):
          continue
        _subst_stmts(rest, {n: s.value})
        block[i + 1:] = rest
        del block[i]
        done = changed = True
        break
      if done:
        break
    if not done:
      break
  return changed


# --------------------------------------------------------------------------------------------
# single-use temporaries

def _once_position(root, target):
  """True when `target` (a node inside expression `root`) is evaluated exactly once, and
  unconditionally, whenever root is evaluated."""
  def go(e):
    if e is target:
      return True
    if isinstance(e, ast.Lambda):
      return False
    if isinstance(e, (ast.ListComp, ast.SetComp, ast.GeneratorExp, ast.DictComp)):
      return go(e.generators[0].iter)
    if isinstance(e, ast.IfExp):
      return go(e.test)
    if isinstance(e, ast.BoolOp):
      return go(e.values[0])
    if isinstance(e, ast.Compare) and len(e.ops) > 1:
      return go(e.left) or go(e.comparators[0])
    for ch in ast.iter_child_nodes(e):
      if isinstance(ch, ast.expr) or isinstance(ch, (ast.keyword, ast.Starred, ast.Slice)):
        if go(ch):
          return True
    return False
  return go(root)


_NO_FORWARD = (ast.Yield, ast.YieldFrom, ast.Await, ast.NamedExpr)


def forward_temps(fnode):
  changed = False
  for _ in range(80):
    cen = Census(fnode)
    done = False
    for block in iter_blocks(fnode):
      for i in range(len(block) - 1):
        s, nxt = block[i], block[i + 1]
        if not _is_simple_assign(s):
          continue
        n = s.targets[0].id
        if any(isinstance(x, _NO_FORWARD) for x in ast.walk(s.value)):
          continue
        if isinstance(nxt, ast.While):
          continue
        if cen.single_local(n) and len(cen.loads.get(n, [])) == 1:
          use = cen.loads[n][0]
        elif isinstance(nxt, (ast.Return, ast.Raise)) and n not in cen.params and \
            n not in cen.declared and n not in cen.nested:
          # a name bound several times (`ret_value = E; return ret_value` on every path): this
          # binding is consumed by the terminal statement that follows it and by nothing else
          here = [u for u in cen.loads.get(n, []) if any(x is u for x in ast.walk(nxt))]
          if len(here) != 1:
            continue
          use = here[0]
        else:
          continue
        heads = header_exprs(nxt)
        if isinstance(nxt, (ast.Assign, ast.AugAssign, ast.Delete)):
          # a use inside a store target (x[t] = ...) is still a load evaluated once
          pass
        if not any(_once_position(h, use) for h in heads):
          continue
        t = _Subst({n: s.value}, only=[use])
        block[i + 1] = t.visit(nxt)
        del block[i]
        done = changed = True
        break
      if done:
        break
    if not done:
      break
  return changed


# --------------------------------------------------------------------------------------------
# append-only loops -> comprehensions

def _empty_container(e):
  if isinstance(e, ast.List) and not e.elts:
    return "list"
  if isinstance(e, ast.Dict) and not e.keys:
    return "dict"
  if isinstance(e, ast.Call) and not e.args and not e.keywords:
    d = dotted(e.func)
    if d in ("list", "set", "dict"):
      return d
  return None


def _mentions(node, name):
  return any(isinstance(x, ast.Name) and x.id == name for x in ast.walk(node))


def _loop_as_comp(loop, X, kind):
  """(elt or (key, value), [comprehension]) when `loop` only adds to container X."""
  gens = []
  def body_of(stmts, gen):
    stmts = list(stmts)
    # leading `if c: continue` guards
    while len(stmts) > 1 and isinstance(stmts[0], ast.If) and not stmts[0].orelse and \
        len(stmts[0].body) == 1 and isinstance(stmts[0].body[0], ast.Continue):
      gen.ifs.append(ast.UnaryOp(op=ast.Not(), operand=stmts[0].test))
      stmts = stmts[1:]
    if len(stmts) != 1:
      return None
    s = stmts[0]
    if isinstance(s, ast.If) and not s.orelse:
      gen.ifs.append(s.test)
      return body_of(s.body, gen)
    if isinstance(s, ast.For) and not s.orelse:
      g2 = ast.comprehension(target=s.target, iter=s.iter, ifs=[], is_async=0)
      gens.append(g2)
      return body_of(s.body, g2)
    if kind in ("list", "set") and isinstance(s, ast.Expr) and isinstance(s.value, ast.Call):
      c = s.value
      if isinstance(c.func, ast.Attribute) and isinstance(c.func.value, ast.Name) and \
          c.func.value.id == X and c.func.attr == ("append" if kind == "list" else "add") and \
          len(c.args) == 1 and not c.keywords and not isinstance(c.args[0], ast.Starred):
        return c.args[0]
    if kind == "dict" and isinstance(s, ast.Assign) and len(s.targets) == 1 and \
        isinstance(s.targets[0], ast.Subscript) and isinstance(s.targets[0].value, ast.Name) and \
        s.targets[0].value.id == X and not isinstance(s.targets[0].slice, ast.Slice):
      return (s.targets[0].slice, s.value)
    return None
  if loop.orelse:
    return None
  g = ast.comprehension(target=loop.target, iter=loop.iter, ifs=[], is_async=0)
  gens.append(g)
  elt = body_of(loop.body, g)
  if elt is None:
    return None
  parts = list(elt) if isinstance(elt, tuple) else [elt]
  for gen in gens:
    parts += [gen.iter] + gen.ifs
  if any(_mentions(p, X) for p in parts):
    return None
  return elt, gens


def _comp_bound_loads(fnode):
  """ids of the Name loads that are bound by a comprehension enclosing them."""
  out = set()
  for c in ast.walk(fnode):
    if isinstance(c, (ast.ListComp, ast.SetComp, ast.GeneratorExp, ast.DictComp)):
      bound = {x.id for g in c.generators for x in ast.walk(g.target) if isinstance(x, ast.Name)}
      for x in ast.walk(c):
        if isinstance(x, ast.Name) and isinstance(x.ctx, ast.Load) and x.id in bound:
          out.add(id(x))
  return out


def loops_to_comps(fnode):
  changed = False
  for _ in range(30):
    cen = Census(fnode)
    done = False
    for block in iter_blocks(fnode):
      for j, s in enumerate(block):
        if not _is_simple_assign(s):
          continue
        kind = _empty_container(s.value)
        if kind is None:
          continue
        X = s.targets[0].id
        if X in cen.params or X in cen.declared or X in cen.nested:
          continue
        k = j + 1
        while k < len(block) and not _mentions(block[k], X):
          k += 1
        if k >= len(block) or not isinstance(block[k], ast.For):
          continue
        loop = block[k]
        got = _loop_as_comp(loop, X, kind)
        if got is None:
          continue
        elt, gens = got
        # loop variables must not be read after the loop (a comprehension does not leak them)
        tnames = {x.id for g in gens for x in ast.walk(g.target) if isinstance(x, ast.Name)}
        leak = False
        comp_bound = _comp_bound_loads(fnode)
        for nm in tnames:
          if nm in cen.params or nm in cen.declared or nm in cen.nested:
            leak = True
          for u in cen.loads.get(nm, []):
            if not any(x is u for x in ast.walk(loop)) and id(u) not in comp_bound:
              leak = True
        if leak:
          continue
        if kind == "list":
          comp = ast.ListComp(elt=elt, generators=gens)
        elif kind == "set":
          comp = ast.SetComp(elt=elt, generators=gens)
        else:
          comp = ast.DictComp(key=elt[0], value=elt[1], generators=gens)
        new = ast.Assign(targets=[ast.Name(id=X, ctx=ast.Store())], value=comp)
        ast.copy_location(new, loop)
        ast.copy_location(comp, loop)
        ast.fix_missing_locations(new)
        block[k] = new
        del block[j]
        done = changed = True
        break
      if done:
        break
    if not done:
      break
  return changed


# --------------------------------------------------------------------------------------------
# branch polarity, guard form, conditional values

def _neg(t):
  if isinstance(t, ast.UnaryOp) and isinstance(t.op, ast.Not):
    return t.operand
  return ast.copy_location(ast.UnaryOp(op=ast.Not(), operand=t), t)


def _strip_double_not(t):
  while isinstance(t, ast.UnaryOp) and isinstance(t.op, ast.Not) and \
      isinstance(t.operand, ast.UnaryOp) and isinstance(t.operand.op, ast.Not):
    t = t.operand.operand
  return t


def normalise_polarity(fnode):
  """`if not c: A else: B` -> `if c: B else: A` (also conditional expressions); `not not c` in a
  test position -> `c`."""
  changed = False
  for n in ast.walk(fnode):
    if isinstance(n, (ast.If, ast.IfExp, ast.While)):
      t = _strip_double_not(n.test)
      if t is not n.test:
        n.test = t
        changed = True
    if isinstance(n, ast.If) and n.orelse and isinstance(n.test, ast.UnaryOp) and \
        isinstance(n.test.op, ast.Not):
      n.test, n.body, n.orelse = n.test.operand, n.orelse, n.body
      changed = True
    elif isinstance(n, ast.IfExp) and isinstance(n.test, ast.UnaryOp) and \
        isinstance(n.test.op, ast.Not):
      n.test, n.body, n.orelse = n.test.operand, n.orelse, n.body
      changed = True
    elif isinstance(n, ast.comprehension):
      new = [_strip_double_not(t) for t in n.ifs]
      if any(a is not b for a, b in zip(new, n.ifs)):
        n.ifs = new
        changed = True
  return changed


def _is_bare_return(s):
  return isinstance(s, ast.Return) and (s.value is None or (isinstance(s.value, ast.Constant) and
                                                          s.value.value is None))


def nest_early_exits(fnode):
  """`if c: return` + REST at the top level of the function body, and `if c: continue` + REST at
  the top level of a loop body, become `if not c: REST`."""
  changed = False
  def fix(block, is_exit):
    nonlocal changed
    i = 0
    while i < len(block) - 1:
      s = block[i]
      if isinstance(s, ast.If) and not s.orelse and len(s.body) == 1 and is_exit(s.body[0]):
        new = ast.copy_location(ast.If(test=_neg(s.test), body=block[i + 1:], orelse=[]), s)
        block[i:] = [new]
        changed = True
        fix(new.body, is_exit)
        return
      i += 1
  fix(fnode.body, _is_bare_return)
  for block in iter_blocks(fnode):
    for s in block:
      if isinstance(s, (ast.For, ast.AsyncFor, ast.While)):
        fix(s.body, lambda x: isinstance(x, ast.Continue))
  return changed


def conditional_values(fnode):
  """`if c: x = A else: x = B` -> `x = A if c else B`; `if c: return A [else:] return B` ->
  `return A if c else B`."""
  changed = False
  for block in iter_blocks(fnode):
    i = 0
    while i < len(block):
      s = block[i]
      if isinstance(s, ast.If) and len(s.body) == 1:
        a = s.body[0]
        b = s.orelse[0] if len(s.orelse) == 1 else None
        if _is_simple_assign(a) and b is not None and _is_simple_assign(b) and \
            a.targets[0].id == b.targets[0].id:
          v = ast.IfExp(test=s.test, body=a.value, orelse=b.value)
          new = ast.Assign(targets=[a.targets[0]], value=v)
          ast.copy_location(v, s)
          block[i] = ast.copy_location(new, s)
          changed = True
        elif isinstance(a, ast.Return) and a.value is not None:
          if b is not None and isinstance(b, ast.Return) and b.value is not None:
            v = ast.IfExp(test=s.test, body=a.value, orelse=b.value)
            ast.copy_location(v, s)
            block[i] = ast.copy_location(ast.Return(value=v), s)
            changed = True
          elif not s.orelse and i + 1 < len(block) and isinstance(block[i + 1], ast.Return) and \
              block[i + 1].value is not None:
            v = ast.IfExp(test=s.test, body=a.value, orelse=block[i + 1].value)
            ast.copy_location(v, s)
            block[i] = ast.copy_location(ast.Return(value=v), s)
            del block[i + 1]
            changed = True
      i += 1
  return changed


# --------------------------------------------------------------------------------------------
# keyword -> positional

class _Signatures(object):
  def __init__(self, repo):
    self.by_name = {}
    for fi in repo.all_functions():
      if fi.parent is not None:
        continue
      self.by_name.setdefault(fi.name, []).append(fi)
    self.ctors = {}
    for ci in repo.classes.values():
      init = repo.find_method(ci, "__init__")
      if init is not None:
        self.ctors.setdefault(ci.name, []).append(init)

  @staticmethod
  def _params(fi, drop_first):
    a = fi.node.args
    ps = [x.arg for x in a.posonlyargs + a.args]
    deco = {dotted(d) for d in fi.decorators()}
    if drop_first and fi.cls is not None and "staticmethod" not in deco:
      ps = ps[1:]
    return ps

  def candidates(self, call):
    f = call.func
    if isinstance(f, ast.Attribute):
      out = []
      for fi in self.by_name.get(f.attr, []):
        out.append((fi, self._params(fi, True)))
      for fi in self.ctors.get(f.attr, []):
        out.append((fi, self._params(fi, True)))
      return out
    if isinstance(f, ast.Name):
      out = []
      for fi in self.by_name.get(f.id, []):
        if fi.cls is None:
          out.append((fi, self._params(fi, False)))
      for fi in self.ctors.get(f.id, []):
        out.append((fi, self._params(fi, True)))
      return out
    return []


def keywords_to_positional(fnode, sigs):
  changed = False
  for c in ast.walk(fnode):
    if not isinstance(c, ast.Call) or not c.keywords:
      continue
    if any(k.arg is None for k in c.keywords) or any(isinstance(a, ast.Starred) for a in c.args):
      continue
    cands = sigs.candidates(c)
    if isinstance(c.func, ast.Attribute) and isinstance(c.func.value, ast.Call) and \
        dotted(c.func.value.func) == "super":
      pass
    names = [k.arg for k in c.keywords]
    viable = []
    for (fi, ps) in cands:
      a = fi.node.args
      kwonly = {x.arg for x in a.kwonlyargs}
      if all(nm in ps or nm in kwonly or a.kwarg is not None for nm in names) and \
          (len(c.args) <= len(ps) or a.vararg is not None):
        viable.append((fi, ps))
    if not viable:
      continue
    p = len(c.args)
    moved = []
    kws = list(c.keywords)
    while True:
      nxt = None
      for k in kws:
        idxs = {(ps.index(k.arg) if k.arg in ps else -1) for (fi, ps) in viable}
        if idxs == {p}:
          nxt = k
          break
      if nxt is None:
        break
      moved.append(nxt)
      kws.remove(nxt)
      p += 1
    if moved:
      c.args = list(c.args) + [k.value for k in moved]
      c.keywords = kws
      changed = True
  return changed


# --------------------------------------------------------------------------------------------
# helper inlining

def _strip_doc(body):
  if body and isinstance(body[0], ast.Expr) and isinstance(body[0].value, ast.Constant) and \
      isinstance(body[0].value.value, str):
    return body[1:]
  return body


def _own_returns(stmts):
  out = []
  def go(n):
    if isinstance(n, _DEFS) or isinstance(n, ast.Lambda):
      return
    if isinstance(n, ast.Return):
      out.append(n)
    for ch in ast.iter_child_nodes(n):
      go(ch)
  for s in stmts:
    go(s)
  return out


class _Helper(object):
  """Shape of a callee for inlining: 'expr' (single return expression), 'stmts' (no return, or one
  trailing return), 'multi' (several returns: only inlinable in tail position)."""
  def __init__(self, fi):
    self.fi = fi
    node = fi.node
    self.ok = False
    a = node.args
    if node.decorator_list or a.vararg or a.kwarg or a.kwonlyargs or a.posonlyargs:
      return
    if isinstance(node, ast.AsyncFunctionDef):
      return
    for x in ast.walk(node):
      if isinstance(x, (ast.Yield, ast.YieldFrom, ast.Await, ast.Global, ast.Nonlocal)):
        return
      if isinstance(x, _DEFS) and x is not node:
        return
    body = _strip_doc(node.body)
    if not body:
      return
    # guard-clause returns of plain values are one conditional value: `if c: return A` +
    # `return B` reads as `return A if c else B`, which can be inlined where a value is needed
    tmp = ast.FunctionDef(name="_", args=node.args, body=copy.deepcopy(body), decorator_list=[])
    if conditional_values(tmp) and len(tmp.body) == 1 and isinstance(tmp.body[0], ast.Return):
      body = tmp.body
    rets = _own_returns(body)
    if len(body) == 1 and isinstance(body[0], ast.Return) and body[0].value is not None:
      self.kind = "expr"
    elif not rets or (len(rets) == 1 and rets[0] is body[-1]):
      self.kind = "stmts"
    else:
      self.kind = "multi"
    self.body = body
    self.params = [x.arg for x in a.args]
    self.defaults = dict(zip(self.params[len(self.params) - len(a.defaults):], a.defaults))
    self.ok = True


def _has_own_return(s):
  return bool(_own_returns([s]))


def _always_leaves(stmts):
  if not stmts:
    return False
  last = stmts[-1]
  if isinstance(last, (ast.Return, ast.Raise)):
    return True
  if isinstance(last, ast.If):
    return _always_leaves(last.body) and _always_leaves(last.orelse)
  return False


def returns_to_assignments(stmts, make_result):
  """Rewrite a callee body whose returns are guard clauses / branch ends (not inside loops, try
  or with) into statements that end by `make_result(value)` instead of returning, so that it
  can be spliced where a value is needed. None when a return sits where this cannot be done."""
  out = []
  for i, s in enumerate(stmts):
    if isinstance(s, ast.Return):
      return out + make_result(s.value if s.value is not None else ast.Constant(value=None))
    if isinstance(s, ast.Raise):
      return out + [s]
    if isinstance(s, ast.If) and _has_own_return(s):
      rest = stmts[i + 1:]
      if _always_leaves(s.body):
        nb = returns_to_assignments(s.body, make_result)
        no = returns_to_assignments(list(s.orelse) + rest, make_result)
      elif s.orelse and _always_leaves(s.orelse):
        nb = returns_to_assignments(list(s.body) + rest, make_result)
        no = returns_to_assignments(s.orelse, make_result)
      else:
        nb = returns_to_assignments(list(s.body) + rest, make_result)
        no = returns_to_assignments(list(s.orelse) + copy.deepcopy(rest), make_result)
      if nb is None or no is None:
        return None
      new = ast.If(test=s.test, body=nb or [ast.Pass()], orelse=no)
      return out + [ast.copy_location(new, s)]
    if _has_own_return(s):
      return None
    out.append(s)
  return out + make_result(ast.Constant(value=None))


def _calls_before(roots, target):
  """Call nodes whose evaluation completes before `target` starts, the roots being evaluated in
  order (children in field order: func, args, keywords / left, right / value, slice ...)."""
  done = []
  class Found(Exception):
    pass
  def go(e):
    if e is target:
      raise Found()
    for ch in ast.iter_child_nodes(e):
      if isinstance(ch, (ast.expr, ast.keyword, ast.comprehension)):
        go(ch)
    if isinstance(e, ast.Call):
      done.append(e)
  try:
    for r in roots:
      go(r)
  except Found:
    return done
  return done


class Inliner(object):
  def __init__(self, repo, keep):
    self.repo = repo
    self.keep = keep
    self._helpers = {}
    self._overridden = {}
    self.counter = 0

  def helper(self, fi):
    if fi.qualname not in self._helpers:
      self._helpers[fi.qualname] = _Helper(fi)
    h = self._helpers[fi.qualname]
    return h if h.ok else None

  def _private(self, name):
    return name.startswith("_") and not name.startswith("__") and name not in self.keep

  def resolve(self, call, fi, cen):
    """(helper, is_method) for a call that can be inlined into function fi."""
    f = call.func
    if any(isinstance(a, ast.Starred) for a in call.args) or any(k.arg is None for k in call.keywords):
      return None
    if isinstance(f, ast.Attribute) and isinstance(f.value, ast.Name) and fi.cls is not None:
      ps = fi.params()
      if not ps or f.value.id != ps[0] or ps[0] != "self" or not self._private(f.attr):
        return None
      if cen.stores.get("self", 0):
        return None
      target = self.repo.find_method(fi.cls, f.attr)
      if target is None or target is fi or target.parent is not None:
        return None
      key = (fi.cls.qualname, f.attr)
      if key not in self._overridden:
        self._overridden[key] = any(f.attr in sub.methods
                                    for sub in self.repo.subclasses(fi.cls, strict=True))
      if self._overridden[key]:
        return None
      h = self.helper(target)
      if h is None or not h.params or h.params[0] != "self":
        return None
      return h, True
    if isinstance(f, ast.Name) and self._private(f.id):
      if f.id in cen.params or cen.stores.get(f.id, 0):
        return None
      target = fi.module.functions.get(f.id)
      if target is None or target is fi:
        return None
      h = self.helper(target)
      if h is None:
        return None
      return h, False
    return None

  def _bind(self, h, is_method, call):
    params = h.params[1:] if is_method else list(h.params)
    out = {}
    if len(call.args) > len(params):
      return None
    for p, a in zip(params, call.args):
      out[p] = a
    for k in call.keywords:
      if k.arg not in params or k.arg in out:
        return None
      out[k.arg] = k.value
    for p in params:
      if p not in out:
        if p not in h.defaults:
          return None
        out[p] = h.defaults[p]
    return out

  def _instantiate(self, h, is_method, call, caller_names, complex_direct=False):
    """(binding statements, body statements) of the callee with its locals renamed apart from
    the caller's names and parameters replaced by (or bound to) the arguments. An argument that
    is a constant or a pure attribute path replaces the parameter directly; any other argument
    is bound to a fresh local first (forward_temps moves it on where that is safe), unless
    complex_direct asks for direct replacement of parameters used at most once."""
    binding = self._bind(h, is_method, call)
    if binding is None:
      return None
    tmp = ast.FunctionDef(name="_", args=copy.deepcopy(h.fi.node.args),
                          body=copy.deepcopy(h.body), decorator_list=[])
    cen = Census(tmp)
    self.counter += 1
    tag = "__i%d" % self.counter
    rename = {}
    locals_ = [n for n in cen.stores if n not in cen.params]
    for n in locals_:
      if n in caller_names:
        rename[n] = n + tag
    direct = {}
    pre = []
    for p, a in binding.items():
      simple = isinstance(a, ast.Constant) or _pure_path(a) is not None
      nuses = len(cen.loads.get(p, []))
      if cen.stores.get(p, 0) == 0 and (simple or (
          complex_direct and (nuses == 0 or (nuses == 1 and p not in cen.nested)))):
        direct[p] = a
      else:
        newp = p + tag
        rename[p] = newp
        st = ast.Assign(targets=[ast.Name(id=newp, ctx=ast.Store())], value=copy.deepcopy(a))
        ast.copy_location(st, call)
        ast.fix_missing_locations(st)
        pre.append(st)

    class R(ast.NodeTransformer):
      def visit_Name(self, node):
        if node.id in rename:
          return ast.copy_location(ast.Name(id=rename[node.id], ctx=node.ctx), node)
        if isinstance(node.ctx, ast.Load) and node.id in direct:
          return ast.copy_location(copy.deepcopy(direct[node.id]), node)
        return node
      def visit_arg(self, node):
        return node
      def visit_ExceptHandler(self, node):
        if node.name in rename:
          node.name = rename[node.name]
        self.generic_visit(node)
        return node
    body = [R().visit(s) for s in tmp.body]
    return pre, body

  def inline_once(self, fnode, fi, done_targets):
    """One pass: inline every eligible call site found in fnode. Returns number inlined."""
    count = 0
    progress = True
    rounds = 0
    while progress and rounds < 40:
      rounds += 1
      progress = False
      cen = Census(fnode)
      names = _all_names(fnode)
      for block in iter_blocks(fnode):
        for i, s in enumerate(block):
          if isinstance(s, _DEFS):
            continue
          # (a) statement sites
          site = None
          if isinstance(s, ast.Expr) and isinstance(s.value, ast.Call):
            site = ("expr", s.value)
          elif isinstance(s, ast.Assign) and isinstance(s.value, ast.Call):
            site = ("assign", s.value)
          elif isinstance(s, ast.Return) and isinstance(s.value, ast.Call):
            site = ("return", s.value)
          if site is not None:
            r = self.resolve(site[1], fi, cen)
            if r is not None and r[0].fi.qualname not in done_targets.get("blocked", ()) and \
                done_targets.setdefault("n", {}).get(r[0].fi.qualname, 0) < 3:
              h, is_m = r
              usable = True
              if usable:
                inst = self._instantiate(h, is_m, site[1], names)
                if inst is not None and h.kind == "multi" and site[0] != "return":
                  # guard-clause returns become branches ending in the assignment
                  if site[0] == "assign":
                    mk = lambda v, s=s: [ast.Assign(targets=copy.deepcopy(s.targets), value=v)]
                  else:
                    mk = lambda v: ([ast.Expr(value=v)]
                                    if any(isinstance(x, ast.Call) for x in ast.walk(v)) else [])
                  conv = returns_to_assignments(inst[1], mk)
                  inst = (inst[0], conv) if conv is not None else None
                if inst is not None:
                  pre, body = inst
                  new = list(pre)
                  if h.kind == "multi":
                    new += body
                  else:
                    ret = body[-1] if body and isinstance(body[-1], ast.Return) else None
                    core = body[:-1] if ret is not None else body
                    rv = ret.value if ret is not None and ret.value is not None else \
                        ast.Constant(value=None)
                    new += core
                    if site[0] == "expr":
                      if any(isinstance(x, ast.Call) for x in ast.walk(rv)):
                        new.append(ast.Expr(value=rv))
                    elif site[0] == "assign":
                      new.append(ast.Assign(targets=s.targets, value=rv))
                    else:
                      new.append(ast.Return(value=rv))
                  if not new:
                    new = [ast.Pass()]
                  for x in new:
                    if not hasattr(x, "lineno"):
                      ast.copy_location(x, s)
                    ast.fix_missing_locations(x)
                  block[i:i + 1] = new
                  done_targets.setdefault("used", set()).add(h.fi.qualname)
                  done_targets["n"][h.fi.qualname] = done_targets["n"].get(h.fi.qualname, 0) + 1
                  count += 1
                  progress = True
                  break
          # (b) expression helpers anywhere in the statement's header
          hit = False
          for hx in header_exprs(s):
            for c in [x for x in ast.walk(hx) if isinstance(x, ast.Call)]:
              r = self.resolve(c, fi, cen)
              if r is None or r[0].kind != "expr" or \
                  r[0].fi.qualname in done_targets.get("blocked", ()) or \
                  done_targets.setdefault("n", {}).get(r[0].fi.qualname, 0) >= 3:
                continue
              h, is_m = r
              inst = self._instantiate(h, is_m, c, names, complex_direct=True)
              if inst is None or inst[0]:
                continue          # needs binding statements: only the statement forms do that
              expr = inst[1][0].value

              class Rep(ast.NodeTransformer):
                def visit_Call(self, node):
                  if node is c:
                    return ast.copy_location(expr, node)
                  self.generic_visit(node)
                  return node
              block[i] = Rep().visit(s)
              ast.fix_missing_locations(block[i])
              done_targets.setdefault("used", set()).add(h.fi.qualname)
              done_targets["n"][h.fi.qualname] = done_targets["n"].get(h.fi.qualname, 0) + 1
              count += 1
              progress = hit = True
              break
            if hit:
              break
          if hit:
            break
          # (c) a statement-bodied helper called inside a larger expression of a simple
          # statement: its body is hoisted in front of the statement, the call replaced by the
          # local that receives the result -- only when nothing else is called before it in that
          # statement (so the order of effects is kept)
          if isinstance(s, (ast.Expr, ast.Assign, ast.AugAssign, ast.Return, ast.If, ast.For)):
            for hx in header_exprs(s):
              for c in [x for x in ast.walk(hx) if isinstance(x, ast.Call)]:
                r = self.resolve(c, fi, cen)
                if r is None or r[0].kind == "expr" or \
                    r[0].fi.qualname in done_targets.get("blocked", ()) or \
                    done_targets.setdefault("n", {}).get(r[0].fi.qualname, 0) >= 3:
                  continue
                if not _once_position(hx, c) or _calls_before(header_exprs(s), c):
                  continue
                h, is_m = r
                inst = self._instantiate(h, is_m, c, names)
                if inst is None:
                  continue
                self.counter += 1
                res = "result__i%d" % self.counter
                mk = lambda v, res=res: [ast.Assign(targets=[ast.Name(id=res, ctx=ast.Store())],
                                                     value=v)]
                conv = returns_to_assignments(inst[1], mk)
                if conv is None:
                  continue
                new = list(inst[0]) + conv

                class Rep2(ast.NodeTransformer):
                  def visit_Call(self, node):
                    if node is c:
                      return ast.copy_location(ast.Name(id=res, ctx=ast.Load()), node)
                    self.generic_visit(node)
                    return node
                # only the header is rewritten (bodies of compounds keep their statements)
                if isinstance(s, ast.If):
                  s.test = Rep2().visit(s.test)
                  tail = s
                elif isinstance(s, ast.For):
                  s.iter = Rep2().visit(s.iter)
                  tail = s
                else:
                  tail = Rep2().visit(s)
                for x in new:
                  if not hasattr(x, "lineno"):
                    ast.copy_location(x, s)
                  ast.fix_missing_locations(x)
                block[i:i + 1] = new + [tail]
                ast.fix_missing_locations(tail)
                done_targets.setdefault("used", set()).add(h.fi.qualname)
                done_targets["n"][h.fi.qualname] = done_targets["n"].get(h.fi.qualname, 0) + 1
                count += 1
                progress = hit = True
                break
              if hit:
                break
          if hit:
            break
        if progress:
          break
    return count

  def inline(self, fnode, fi, depth=2):
    state = {"blocked": {fi.qualname}}
    total = 0
    for _ in range(depth):
      n = self.inline_once(fnode, fi, state)
      total += n
      if not n:
        break
      state["blocked"] = set(state["blocked"]) | set(state.get("used", ()))
    return total


# --------------------------------------------------------------------------------------------
# views

_RULE_FILES = ("c05.py", "c11.py", "c12.py", "c13.py", "c14.py", "c15.py", "c20.py", "_h_C.py",
               "_extra.py")
_keep_cache = None


def anchored_names():
  """Private identifiers the rule modules mention (in code or strings): helpers that are anchors
  of some rule are never inlined away."""
  global _keep_cache
  if _keep_cache is None:
    here = os.path.dirname(os.path.abspath(__file__))
    names = set()
    for f in _RULE_FILES:
      p = os.path.join(here, f)
      if os.path.exists(p):
        with open(p) as fh:
          names |= set(re.findall(r"\b_[A-Za-z]\w*", fh.read()))
    _keep_cache = names
  return _keep_cache


def anchored_names_in(repo):
  """anchored_names() plus the current names of anchors that were renamed in this tree."""
  from . import _h_C as H
  names = set(anchored_names())
  for q in H.ANCHOR_ROLES:
    if q not in repo.funcs:
      fi = H.resolve_anchor(repo, q)
      if fi is not None:
        names.add(fi.name)
  return names


class View(object):
  """A set of behaviour-preserving transformations applied before a rule reads a function."""
  def __init__(self, name, steps=(), inline=False):
    self.name = name
    self.steps = tuple(steps)     # names of the canonicalising steps, see STEPS
    self.inline = inline

  @property
  def canon(self):
    return bool(self.steps)


ALL_STEPS = ("positional", "exits", "polarity", "aliases", "temps", "comps", "conditionals")
PLAIN = View("plain")
LIGHT = View("light", steps=("aliases", "comps"))
CANON = View("canon", steps=ALL_STEPS)
INLINED = View("inlined", steps=ALL_STEPS, inline=True)
INLINED_ONLY = View("inlined-only", inline=True)
INLINED_LIGHT = View("inlined-light", steps=("aliases", "comps"), inline=True)
VIEWS = [PLAIN, CANON, LIGHT, INLINED, INLINED_ONLY, INLINED_LIGHT]


class VWorld(World):
  """World whose Fn wrappers are built over a normalised copy of each function."""
  def __init__(self, repo, view):
    World.__init__(self, repo)
    self.view = view
    self._sigs = None
    self._inliner = None
    self._vfi = {}

  def _normalised(self, fi):
    if fi.qualname in self._vfi:
      return self._vfi[fi.qualname]
    v = self.view
    if not (v.canon or v.inline):
      self._vfi[fi.qualname] = fi
      return fi
    node = copy.deepcopy(fi.node)
    if v.inline:
      if self._inliner is None:
        self._inliner = Inliner(self.repo, anchored_names_in(self.repo))
      self._inliner.inline(node, fi)
    if v.canon:
      if "positional" in v.steps:
        if self._sigs is None:
          self._sigs = _Signatures(self.repo)
        keywords_to_positional(node, self._sigs)
      scopes = [node] + [x for x in ast.walk(node)
                         if isinstance(x, (ast.FunctionDef, ast.AsyncFunctionDef)) and x is not node]
      table = (("exits", nest_early_exits), ("polarity", normalise_polarity),
               ("aliases", expand_aliases), ("temps", forward_temps), ("comps", loops_to_comps),
               ("conditionals", conditional_values))
      for sc in scopes:
        for _ in range(8):
          ch = [f(sc) for (nm, f) in table if nm in v.steps]
          if not any(ch):
            break
    ast.fix_missing_locations(node)
    nfi = FuncInfo(fi.module, fi.cls, node, fi.qualname, fi.parent)
    self._vfi[fi.qualname] = nfi
    return nfi

  def fn(self, qualname):
    if qualname not in self._fns:
      fi = self.repo.funcs.get(qualname)
      if fi is None:
        # a private anchor that was renamed / moved is found by its role (see _h_C.ANCHOR_ROLES)
        from . import _h_C as H
        fi = H.resolve_anchor(self.repo, qualname)
      if fi is None:
        fi = self.repo.func(qualname)       # raises AnalysisError: anchor function vanished
      self._fns[qualname] = Fn(self, self._normalised(fi))
    return self._fns[qualname]

  def fn_of(self, fi):
    if fi.qualname not in self._fns:
      self._fns[fi.qualname] = Fn(self, self._normalised(fi))
    return self._fns[fi.qualname]
