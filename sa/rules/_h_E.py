"""
Shared helpers of the C01 / C02 / C04 / C05 / C07 / C19 rule modules: spelling-independent queries.

* Flow            flow-sensitive values of locals (reaching definitions over the statement CFG):
                  which expression a local denotes *at a given CFG node*, however many times the
                  name is reused elsewhere in the function (`ret_value = ...; return ret_value`);
                  leaves() also splits conditional expressions, so `x = A if c else B` and
                  `if c: x = A` / `else: x = B` give the same answer
* Flow.guarded    branch-sensitive guard query with flow-aware atoms (atom(expr, if-node id)) and
                  automatically computed kills (rebinding of a name the guard mentions)
* Flow.required_facts   every (expr, polarity) that is known whenever a node runs
* argument binding      arg(call, index, name): positional or keyword spelling of one argument
* return_cases          the value leaves of every `return` of a function
Nothing here executes repository code.
"""
import ast
import copy
from ..index import AnalysisError, dotted
from ..astutil import text, walk_no_nested, calls_in, assigned_names
from ..dataflow import DefUse
from ..guards import facts


def facts_full(test, polarity=True):
  """Like guards.facts, but a sub-test that cannot be decomposed on this side (`a or b` known true,
  `a and b` known false) is kept as one atom instead of being dropped."""
  out = []
  def go(e, pol):
    if isinstance(e, ast.UnaryOp) and isinstance(e.op, ast.Not):
      go(e.operand, not pol)
      return
    if isinstance(e, ast.BoolOp):
      if (isinstance(e.op, ast.And) and pol) or (isinstance(e.op, ast.Or) and not pol):
        for v in e.values:
          go(v, pol)
        return
    out.append((e, pol))
  go(test, polarity)
  return out


_NEG_OPS = {ast.NotEq: ast.Eq, ast.IsNot: ast.Is, ast.NotIn: ast.In}


def _fold(e, pol):
  """`a != b` known true is `a == b` known false (same for `is not`, `not in`)."""
  if isinstance(e, ast.Compare) and len(e.ops) == 1 and type(e.ops[0]) in _NEG_OPS:
    e2 = ast.Compare(left=e.left, ops=[_NEG_OPS[type(e.ops[0])]()], comparators=e.comparators)
    return ast.copy_location(e2, e), not pol
  return e, pol


def nfacts(test, polarity=True, full=False):
  """facts / facts_full with negated comparison operators folded into the polarity."""
  return [_fold(e, p) for (e, p) in (facts_full if full else facts)(test, polarity)]


class Leaf(object):
  """One expression a value may come from. `nid`: CFG node where `expr` is evaluated; `chain`:
  every node passed while following locals (use site first); `conds`: (test, polarity, nid) of
  the conditional expressions whose branch was taken."""
  __slots__ = ("expr", "nid", "chain", "conds")

  def __init__(self, expr, nid, chain, conds):
    self.expr, self.nid, self.chain, self.conds = expr, nid, chain, conds

  def __repr__(self):
    return "<Leaf %s @%s>" % (text(self.expr), self.nid)


def all_params(fnode):
  a = fnode.args
  out = [x.arg for x in a.posonlyargs + a.args]
  if a.vararg:
    out.append(a.vararg.arg)
  out += [x.arg for x in a.kwonlyargs]
  if a.kwarg:
    out.append(a.kwarg.arg)
  return out


def _bound_inside(expr):
  """Names bound by comprehensions / lambdas / walrus inside expr (they are not the function's
  locals at that point)."""
  out = set()
  for x in ast.walk(expr):
    if isinstance(x, ast.comprehension):
      out |= assigned_names(x.target)
    elif isinstance(x, ast.Lambda):
      out |= set(all_params(x))
    elif isinstance(x, ast.NamedExpr):
      out |= assigned_names(x.target)
  return out


class Flow(object):
  def __init__(self, fn, cfg=None):
    self.fn = fn
    self.cfg = cfg or fn.cfg
    self.du = DefUse(fn, self.cfg)
    self.params = set(all_params(fn.node))
    self._where = None
    self._rcache = {}
    self._hpreds = None
    self._synth = {}

  # ---------------------------------------------------------------- positions
  def where(self, node):
    """ids of the CFG nodes at which ast node `node` is evaluated (several when a `finally` body
    was duplicated); [] when it sits in a nested def."""
    if self._where is None:
      m = {}
      for n in self.cfg.nodes:
        for e in n.exprs:
          for x in walk_no_nested(e, into_lambda=True):
            m.setdefault(id(x), []).append(n.id)
        if n.stmt is not None:
          m.setdefault(id(n.stmt), [])
          if n.id not in m[id(n.stmt)]:
            m[id(n.stmt)].append(n.id)
      self._where = m
    return list(self._where.get(id(node), ()))

  def at(self, node):
    """The CFG node id of an ast node; AnalysisError when it has none."""
    w = self.where(node)
    if not w:
      raise AnalysisError("%s: `%s` is not evaluated at a statement of this function"
                          % (self.fn.qualname, text(node)[:60]))
    return w[0]

  # ---------------------------------------------------------------- reaching definitions
  def reaching(self, name, nid):
    """(ids of nodes binding `name` that may reach the entry of node nid, whether the function
    entry reaches it unbound)."""
    key = (name, nid)
    if key in self._rcache:
      return self._rcache[key]
    cfg = self.cfg
    defs = self.du.defs.get(name, set())
    out, entry = set(), False
    seen = set()
    todo = [nid]
    while todo:
      x = todo.pop()
      preds = cfg.pred[x]
      if cfg.nodes[x].kind == "handler":
        preds = set(preds) | self._handler_preds(x)
      for p in preds:
        if p in defs and (p, x) not in cfg.exc_edges and \
            not (cfg.nodes[x].kind == "handler" and p not in cfg.pred[x]):
          out.add(p)
          continue
        if p in seen:
          continue
        seen.add(p)
        if p == cfg.entry.id:
          entry = True
        todo.append(p)
    self._rcache[key] = (out, entry)
    return out, entry

  def _handler_preds(self, hid):
    """In the normal CFG an `except` clause has no predecessor unless the try body raises
    explicitly: for reaching definitions, control may arrive from any node of the guarded body
    (before or after its own binding took effect) and from whatever precedes the try."""
    if self._hpreds is None:
      self._hpreds = {}
    if hid in self._hpreds:
      return self._hpreds[hid]
    cfg = self.cfg
    h = cfg.nodes[hid].stmt
    out = set()
    for t in ast.walk(self.fn.node):
      if isinstance(t, ast.Try) and any(x is h for x in t.handlers):
        ids = {id(x) for b in t.body for x in ast.walk(b)}
        body = {n.id for n in cfg.nodes if n.stmt is not None and id(n.stmt) in ids}
        out |= body
        for b in body:
          out |= {p for p in cfg.pred[b] if p not in body}
    self._hpreds[hid] = out
    return out

  def _value_in(self, stmt, name):
    """Value expression bound to `name` by a simple statement, or None."""
    if isinstance(stmt, ast.Assign):
      for t in stmt.targets:
        if isinstance(t, ast.Name) and t.id == name:
          return stmt.value
        if isinstance(t, (ast.Tuple, ast.List)) and isinstance(stmt.value, (ast.Tuple, ast.List)) \
            and len(t.elts) == len(stmt.value.elts) and \
            not any(isinstance(e, ast.Starred) for e in list(t.elts) + list(stmt.value.elts)):
          for te, ve in zip(t.elts, stmt.value.elts):
            if isinstance(te, ast.Name) and te.id == name:
              return ve
        elif isinstance(t, (ast.Tuple, ast.List)) and \
            not any(isinstance(e, ast.Starred) for e in t.elts):
          # `a, b = pair` binds a to pair[0]: unpacking and indexing are the same value
          for i, te in enumerate(t.elts):
            if isinstance(te, ast.Name) and te.id == name:
              key = (id(stmt), name)
              if key not in self._synth:
                sub = ast.Subscript(value=stmt.value, slice=ast.Constant(value=i), ctx=ast.Load())
                self._synth[key] = ast.copy_location(sub, stmt.value)
                ast.fix_missing_locations(self._synth[key])
              return self._synth[key]
      return None
    if isinstance(stmt, ast.AnnAssign) and isinstance(stmt.target, ast.Name) and \
        stmt.target.id == name:
      return stmt.value
    return None

  def values_at(self, name, nid):
    """[(value expr, defining node id)] of the plain assignments of `name` reaching node nid; None
    when some reaching binding is not a plain assignment (loop target, unpacking, augmented
    assignment, with-as, parameter) or the name is not a local."""
    defs, entry = self.reaching(name, nid)
    if name in self.params and (entry or not defs):
      return None
    if not defs:
      return None
    out = []
    for d in sorted(defs):
      n = self.cfg.nodes[d]
      if n.kind != "stmt":
        return None
      v = self._value_in(n.stmt, name)
      if v is None:
        return None
      out.append((v, d))
    return out

  def binder(self, name, nid):
    """The unique node binding `name` that reaches nid (whatever its kind), or None."""
    defs, entry = self.reaching(name, nid)
    if len(defs) == 1 and not (name in self.params and entry):
      return self.cfg.nodes[next(iter(defs))]
    return None

  def loop_source(self, expr, nid):
    """If `expr` is a local bound (only) as the plain target of a `for` statement reaching nid,
    the (iterable expr, for-node id); else None."""
    expr, nid = self.resolve(expr, nid)
    if not isinstance(expr, ast.Name):
      return None
    b = self.binder(expr.id, nid)
    if b is not None and b.kind == "for" and isinstance(b.stmt.target, ast.Name) and \
        b.stmt.target.id == expr.id:
      return b.stmt.iter, b.id
    return None

  def loop_body(self, loop_nid):
    """ids of the nodes executed inside the loop whose head is node loop_nid."""
    cfg = self.cfg
    n = cfg.nodes[loop_nid]
    inner = set()
    stack = [s for s in getattr(n.stmt, "body", [])]
    ids = set()
    for s in stack:
      for x in ast.walk(s):
        ids.add(id(x))
    return {m.id for m in cfg.nodes if m.stmt is not None and id(m.stmt) in ids}

  def facts_inside(self, nid, loop_nid):
    """required_facts(nid) restricted to tests evaluated inside the loop headed by loop_nid (paths
    are taken from the loop head, so this also works in code the normal CFG does not reach from
    the function entry, like an except clause)."""
    body = self.loop_body(loop_nid)
    return [f for f in self.required_facts(nid, start=loop_nid) if f[2] in body]

  # ---------------------------------------------------------------- values
  def resolve(self, expr, nid, depth=8):
    """Follow a local through its single plain reaching assignment, repeatedly:
    (expression, node id where it is evaluated)."""
    while depth > 0 and isinstance(expr, ast.Name):
      vals = self.values_at(expr.id, nid)
      if not vals or len(vals) != 1:
        break
      expr, nid = vals[0]
      depth -= 1
    return expr, nid

  def leaves(self, expr, nid, depth=8, split=True):
    """All expressions `expr` may denote at node nid: locals are followed through every plain
    reaching assignment, conditional expressions are split into their branches."""
    out = []
    seen = set()
    def go(e, n, chain, conds, d):
      if d > 0 and isinstance(e, ast.Name):
        vals = self.values_at(e.id, n)
        if vals:
          for (v, dn) in vals:
            if (e.id, dn) in seen:
              continue        # a value carried round a loop: nothing new
            seen.add((e.id, dn))
            go(v, dn, chain + [dn], conds, d - 1)
          return
      if d > 0 and split and isinstance(e, ast.IfExp):
        go(e.body, n, chain, conds + [(e.test, True, n)], d - 1)
        go(e.orelse, n, chain, conds + [(e.test, False, n)], d - 1)
        return
      out.append(Leaf(e, n, chain, conds))
    go(expr, nid, [nid], [], depth)
    return out

  def feeding(self, expr, nid, depth=10):
    """[(expression, node id)] of everything `expr` (evaluated at nid) is computed from, through
    the bindings of locals that reach each use (names bound by a comprehension / lambda inside an
    expression are not followed) and through in-place mutations of those locals."""
    out, seen = [], set()
    def go(e, n, d):
      out.append((e, n))
      if d <= 0:
        return
      bound = _bound_inside(e)
      for x in ast.walk(e):
        if isinstance(x, ast.Name) and isinstance(x.ctx, ast.Load) and x.id not in bound:
          defs, _ = self.reaching(x.id, n)
          for dn in set(defs) | self.du.muts.get(x.id, set()):
            if (x.id, dn) in seen:
              continue
            seen.add((x.id, dn))
            for e2 in self.cfg.nodes[dn].exprs:
              go(e2, dn, d - 1)
    go(expr, nid, depth)
    return out

  def denotes(self, expr, nid, pred, depth=8):
    """Every expression `expr` may denote at nid satisfies pred(expr, nid)."""
    ls = self.leaves(expr, nid, depth)
    return bool(ls) and all(pred(l.expr, l.nid) for l in ls)

  def denotes_some(self, expr, nid, pred, depth=8):
    return any(pred(l.expr, l.nid) for l in self.leaves(expr, nid, depth))

  def inline(self, expr, nid, stop=(), depth=6):
    """Copy of `expr` in which every local with exactly one plain reaching assignment is replaced
    by the assigned expression (recursively, each at its own node). Normal form for comparing
    operands whether they are written inline or through named locals."""
    flow = self
    bound = _bound_inside(expr)
    class T(ast.NodeTransformer):
      def visit_Name(self, n):
        if isinstance(n.ctx, ast.Load) and depth > 0 and n.id not in stop and n.id not in bound:
          vals = flow.values_at(n.id, nid)
          if vals and len(vals) == 1:
            return flow.inline(vals[0][0], vals[0][1], stop, depth - 1)
        return n
    return T().visit(copy.deepcopy(expr))

  def itext(self, expr, nid, stop=(), depth=6):
    return text(self.inline(expr, nid, stop, depth))

  def same_value(self, e1, n1, e2, n2):
    """Two occurrences denote the same value: the same local with the same reaching bindings, or
    the same normal form."""
    if isinstance(e1, ast.Name) and isinstance(e2, ast.Name) and e1.id == e2.id:
      if e1.id in _bound_inside(e1):
        return True
      return self.reaching(e1.id, n1) == self.reaching(e2.id, n2)
    return self.itext(e1, n1) == self.itext(e2, n2)

  # ---------------------------------------------------------------- guards
  def _if_edges(self, i):
    cfg = self.cfg
    t = set(cfg.if_true[i])
    exc = cfg.if_exc.get(i, set())
    f = set(cfg.succ[i]) - t - exc
    return t, f

  def _cut_reach(self, starts, edges):
    cfg = self.cfg
    seen = set(starts)
    todo = list(starts)
    while todo:
      a = todo.pop()
      for b in cfg.succ[a]:
        if (a, b) in edges or b in seen:
          continue
        seen.add(b)
        todo.append(b)
    return seen

  def _matches(self, e, i, atom):
    """Does fact expression `e` (evaluated at if-node i) satisfy atom, directly or as a local that
    holds the test's value? Returns the set of local names whose rebinding loses the fact, or
    None."""
    if atom(e, i):
      return {x.id for x in ast.walk(e) if isinstance(x, ast.Name)} - _bound_inside(e)
    if isinstance(e, ast.Name):
      r, rn = self.resolve(e, i)
      if r is not e:
        r, pol = _fold(r, True)
        if pol and atom(r, rn):
          return {e.id}
    return None

  def _matches_pol(self, e, p, i, atom, want):
    """(matches, kill names) for fact (e, p) against atom with truth value `want`; a local bound
    to `not <test>` / a negated comparison matches with the opposite polarity."""
    if p == want:
      k = self._matches(e, i, atom)
      if k is not None:
        return k
    if isinstance(e, ast.Name):
      r, rn = self.resolve(e, i)
      if r is not e:
        for (e2, p2) in nfacts(r, p):
          if p2 == want and e2 is not r and atom(e2, rn):
            return {e.id}
    return None

  def guarded(self, nid, atom, want=True, kills=None, extra_kills=()):
    """Every entry->nid path last learnt that an expression satisfying atom(expr, node id) has
    truth value `want` -- whichever way the guard is spelled (`if a: X`, `if not a: continue` + X,
    `if a and b: X`, swapped branches, `a != b` for `not a == b`, the test bound to a local
    first). A rebinding of a local the matching expression reads loses the fact (computed here
    unless `kills` is given)."""
    cfg = self.cfg
    edges = set()
    names = set()
    for n in cfg.nodes:
      if n.kind != "if" or n.id not in cfg.if_true:
        continue
      t, f = self._if_edges(n.id)
      for pol, succs in ((True, t), (False, f)):
        for (e, p) in nfacts(n.stmt.test, pol):
          k = self._matches_pol(e, p, n.id, atom, want)
          if k is not None:
            edges |= {(n.id, s) for s in succs}
            names |= k
    if not edges:
      return False
    if kills is None:
      kills = set()
      for nm in names:
        kills |= self.du.defs.get(nm, set())
    kills = set(kills) | set(extra_kills)
    starts = {cfg.entry.id}
    for k in kills:
      starts |= set(cfg.normal_succ(k))
    return nid not in self._cut_reach(starts, edges)

  def edges_where(self, atom, want=True):
    """CFG edges (if-node id, successor id) on which an expression satisfying atom(expr, node id)
    is known to have truth value `want`."""
    cfg = self.cfg
    edges = set()
    for n in cfg.nodes:
      if n.kind != "if" or n.id not in cfg.if_true:
        continue
      t, f = self._if_edges(n.id)
      for pol, succs in ((True, t), (False, f)):
        if any(self._matches_pol(e, p, n.id, atom, want) is not None
               for (e, p) in nfacts(n.stmt.test, pol)):
          edges |= {(n.id, s) for s in succs}
    return edges

  def required_facts(self, nid, start=None):
    """[(expr, polarity, if-node id)]: what every path to nid has established at an `if` (no kill
    analysis: an over-approximation of the conditions a node runs under). A test that cannot be
    decomposed on the required side is reported whole."""
    cfg = self.cfg
    out = []
    for n in cfg.nodes:
      if n.kind != "if" or n.id not in cfg.if_true or n.id == nid:
        continue
      t, f = self._if_edges(n.id)
      for pol, succs in ((True, t), (False, f)):
        edges = {(n.id, s) for s in succs}
        if not edges:
          continue
        if nid not in self._cut_reach({cfg.entry.id if start is None else start}, edges):
          for (e, p) in nfacts(n.stmt.test, pol, full=True):
            r, rn = self.resolve(e, n.id) if isinstance(e, ast.Name) else (e, n.id)
            if r is not e and isinstance(r, (ast.Compare, ast.BoolOp, ast.UnaryOp, ast.Call)):
              out.extend((e2, p2, rn) for (e2, p2) in nfacts(r, p, full=True))
            else:
              out.append((e, p, n.id))
          break
    return out


# ------------------------------------------------------------------------------------------
def arg(call, index, name=None):
  """Argument of `call` at positional `index`, or passed by keyword `name`; None when absent or
  hidden behind a *args / **kwargs."""
  if index is not None:
    if any(isinstance(a, ast.Starred) for a in call.args[:index + 1]):
      return None
    if len(call.args) > index:
      return call.args[index]
  if name is not None:
    for k in call.keywords:
      if k.arg == name:
        return k.value
  return None


def nargs(call):
  return len(call.args) + len([k for k in call.keywords if k.arg is not None])


def args_by_params(call, params):
  """{param: expr} for a call of a function with positional parameters `params` (self already
  dropped); None when it cannot be bound (star args, unknown keyword, too many)."""
  if any(isinstance(a, ast.Starred) for a in call.args) or any(k.arg is None for k in call.keywords):
    return None
  if len(call.args) > len(params):
    return None
  out = dict(zip(params, call.args))
  for k in call.keywords:
    if k.arg not in params or k.arg in out:
      return None
    out[k.arg] = k.value
  return out


def return_nodes(cfg):
  return [n for n in cfg.nodes if n.kind == "return"]


def return_cases(flow):
  """[(return node, Leaf)] for every value a `return` of the function may hand back (a bare
  `return` and falling off the end are reported with expr None)."""
  out = []
  cfg = flow.cfg
  for n in return_nodes(cfg):
    if n.stmt.value is None:
      out.append((n, Leaf(None, n.id, [n.id], [])))
      continue
    for l in flow.leaves(n.stmt.value, n.id):
      out.append((n, l))
  falls = [p for p in cfg.pred[cfg.exit.id] if cfg.nodes[p].kind != "return"]
  for p in falls:
    out.append((cfg.nodes[p], Leaf(None, p, [p], [])))
  return out


def leaf_polarity(flow, leaf, atom):
  """True / False when the leaf is only produced with atom(expr, nid) known true / false (through
  a conditional expression on the way or an `if` guarding one of the nodes passed); None when
  neither is known."""
  for (t, pol, n) in leaf.conds:
    for (e, p) in nfacts(t, pol):
      if atom(e, n):
        return p
  for want in (True, False):
    if any(flow.guarded(n, atom, want) for n in leaf.chain):
      return want
  return None


def is_const(e, *values):
  return isinstance(e, ast.Constant) and any(e.value is v or (type(e.value) is type(v) and e.value == v)
                                             for v in values)


def callee_attr(e):
  """Method / function simple name of a Call, else None."""
  if isinstance(e, ast.Call):
    if isinstance(e.func, ast.Attribute):
      return e.func.attr
    if isinstance(e.func, ast.Name):
      return e.func.id
  return None


def callgraph(w):
  """One CallGraph per World (callee resolution for argument binding / helper following)."""
  cg = getattr(w, "_cg_E", None)
  if cg is None:
    from ..callgraph import CallGraph
    cg = w._cg_E = CallGraph(w)
  return cg


def callee_params(w, fn, call):
  """Positional parameter names of the single repository function `call` invokes (self dropped
  for methods and constructors), or None."""
  tg = callgraph(w).resolve(fn, call)
  if not tg and isinstance(call.func, ast.Attribute):
    # an untyped receiver and a method name shared with builtin containers: take the repository
    # methods of that name if they all agree on the signature
    tg = list(callgraph(w)._by_method.get(call.func.attr, []))
  sigs = set()
  for fi in tg:
    ps = fi.params()
    if fi.cls is not None and fi.parent is None and \
        not any(dotted(d) == "staticmethod" for d in fi.decorators()):
      ps = ps[1:]       # a method's self (a closure defined inside a method has none)
    sigs.add(tuple(ps))
  if len(sigs) != 1:
    return None
  return list(sigs.pop())


def argn(w, fn, call, index):
  """Argument bound to the callee's positional parameter number `index`, whether it is passed
  positionally or by keyword (the parameter name is read from the callee's own signature)."""
  if any(isinstance(a, ast.Starred) for a in call.args[:index + 1]):
    return None
  if len(call.args) > index:
    return call.args[index]
  if not call.keywords:
    return None
  ps = callee_params(w, fn, call)
  if ps is None or index >= len(ps):
    return None
  for k in call.keywords:
    if k.arg == ps[index]:
      return k.value
  return None


def same_module_callees(w, fn, call, depth=2):
  """FuncInfos of repository functions reached from `call` within `depth` call levels."""
  cg = callgraph(w)
  out, seen = [], set()
  frontier = [(t, 1) for t in cg.resolve(fn, call)]
  while frontier:
    fi, d = frontier.pop()
    if fi.qualname in seen:
      continue
    seen.add(fi.qualname)
    out.append(fi)
    if d < depth:
      f2 = w.fn_of(fi)
      for s in fi.node.body:
        for c in calls_in(s):
          frontier.extend((t, d + 1) for t in cg.resolve(f2, c))
  return out


def own_helper(w, fn, call, exclude=()):
  """The single method of fn's own class that `call` (on self) invokes, unless its name is in
  `exclude`; else None. Used to follow statements that were extracted into a private helper."""
  f = call.func
  if not (isinstance(f, ast.Attribute) and isinstance(f.value, ast.Name) and f.value.id == "self"):
    return None
  if fn.fi.cls is None or f.attr in exclude:
    return None
  tg = [t for t in callgraph(w).resolve(fn, call) if t.cls is not None]
  if len(tg) != 1 or tg[0].qualname == fn.qualname:
    return None
  mro = {c.qualname for c in w.repo.mro(fn.fi.cls)}
  return tg[0] if tg[0].cls.qualname in mro else None


def mutation_nodes_deep(w, fn, cfg=None, exclude=()):
  """events.mutation_nodes plus the nodes calling a helper of the same class (not named in
  `exclude`) that itself mutates column data / the schema."""
  from .. import events as E
  cfg = cfg or fn.cfg
  out = set(E.mutation_nodes(fn, cfg))
  for (n, c, nm) in fn.calls(cfg):
    if n.id in out:
      continue
    h = own_helper(w, fn, c, exclude)
    if h is not None and E.mutation_nodes(w.fn_of(h)):
      out.add(n.id)
  return out


# ------------------------------------------------------------------------------------------
# Following calls into extracted helpers: an inlined view of a function.
#
# `InlinedWorld(repo, anchors)` behaves like World, but the function wrappers it hands out are
# built from a copy of the function in which every statement-level call of a *private helper*
# (a method of the same class called on self, or a function of the same module, whose name starts
# with "_" and is not one of the names the rules themselves anchor on) has been replaced by the
# helper's body: parameters become fresh locals bound to the arguments, the helper's locals are
# renamed apart, `return E` becomes an assignment to the call's target. The transformation is
# behaviour-preserving, so whatever a rule decides on the inlined view holds for the real code; it
# lets "a few statements were extracted into a new private helper" leave every rule unaffected.
# The rule modules use it as a second opinion only (see `decide`): a rule that is satisfied on
# the plain view is never re-run.

import re as _re


def anchors_of(*paths):
  """Identifiers the rule sources mention: helpers with these names are never inlined, because a
  rule looks for the call itself."""
  out = set()
  for p in paths:
    try:
      with open(p) as fh:
        out |= set(_re.findall(r"[A-Za-z_][A-Za-z_0-9]*", fh.read()))
    except IOError:
      pass
  return out


class _Rename(ast.NodeTransformer):
  def __init__(self, mapping):
    self.m = mapping

  def visit_Name(self, n):
    if n.id in self.m:
      n.id = self.m[n.id]
    return n

  def visit_ExceptHandler(self, n):
    self.generic_visit(n)
    if n.name in self.m:
      n.name = self.m[n.name]
    return n


def _returns_inside_loops(stmts, depth=0):
  for s in stmts:
    if isinstance(s, ast.Return) and depth > 0:
      return True
    d = depth + (1 if isinstance(s, (ast.For, ast.While, ast.AsyncFor)) else 0)
    for fld in ("body", "orelse", "finalbody"):
      b = getattr(s, fld, None)
      if isinstance(b, list) and b and isinstance(b[0], ast.stmt):
        if _returns_inside_loops(b, d):
          return True
    for h in getattr(s, "handlers", []) or []:
      if _returns_inside_loops(h.body, d):
        return True
  return False


def _replace_returns(stmts, make):
  """Copy of a statement list with every `return E` replaced by make(E) (a list of statements)."""
  out = []
  for s in stmts:
    if isinstance(s, ast.Return):
      out.extend(make(s.value))
      continue
    for fld in ("body", "orelse", "finalbody"):
      b = getattr(s, fld, None)
      if isinstance(b, list) and b and isinstance(b[0], ast.stmt):
        setattr(s, fld, _replace_returns(b, make) or [ast.Pass()])
    for h in getattr(s, "handlers", []) or []:
      h.body = _replace_returns(h.body, make) or [ast.Pass()]
    out.append(s)
  return out


class Inliner(object):
  def __init__(self, repo, anchors, max_depth=2):
    self.repo = repo
    self.anchors = anchors
    self.max_depth = max_depth
    self.count = 0
    self._elig = {}
    self._full = {}

  def opaque_calls(self, fi, node=None):
    """Names of the private, non-anchor helpers of fi's own class / module that fi calls in a way
    the inlined view cannot fold in (the helper is not inlinable, or the call sits inside an
    expression): code of this function's own making that the rules cannot see into."""
    node = fi.node
    out = []
    folded = set()
    for x in ast.walk(node):
      if isinstance(x, (ast.Expr, ast.Assign, ast.Return)) and \
          isinstance(getattr(x, "value", None), ast.Call) and \
          self.helper_of(fi, x.value) is not None:
        folded.add(id(x.value))
    for s in node.body:
      if isinstance(s, (ast.FunctionDef, ast.AsyncFunctionDef, ast.ClassDef)):
        continue
      for x in walk_no_nested(s, into_lambda=True):
        if isinstance(x, ast.Call) and id(x) not in folded:
          h = self.resolve_helper(fi, x)
          if h is not None and h.name.startswith("_") and not h.name.startswith("__") and \
              h.name not in self.anchors and h.name not in out:
            out.append(h.name)
    return out

  def resolve_helper(self, fi, call):
    f = call.func
    h = None
    if isinstance(f, ast.Attribute) and isinstance(f.value, ast.Name) and f.value.id == "self":
      cls = fi.cls if fi.cls is not None else (fi.parent.cls if fi.parent is not None else None)
      if cls is not None:
        h = self.repo.find_method(cls, f.attr)
    elif isinstance(f, ast.Name):
      h = fi.module.functions.get(f.id)
    if h is None or h.qualname == fi.qualname or h.module is not fi.module:
      return None
    return h

  # -- which helper does a call invoke
  def helper_of(self, fi, call):
    f = call.func
    h = None
    if isinstance(f, ast.Attribute) and isinstance(f.value, ast.Name) and f.value.id == "self" \
        and fi.cls is not None:
      h = self.repo.find_method(fi.cls, f.attr)
      # a closure's `self` is the enclosing method's
    elif isinstance(f, ast.Attribute) and isinstance(f.value, ast.Name) and f.value.id == "self" \
        and fi.parent is not None and fi.parent.cls is not None:
      h = self.repo.find_method(fi.parent.cls, f.attr)
    elif isinstance(f, ast.Name):
      h = fi.module.functions.get(f.id)
    if h is None or h.qualname == fi.qualname or h.module is not fi.module:
      return None
    return h if self.eligible(h) else None

  def eligible(self, h):
    """May calls of h be replaced by its body?"""
    if h.qualname in self._elig:
      return self._elig[h.qualname]
    ok = True
    nm = h.name
    a = h.node.args
    if not nm.startswith("_") or nm.startswith("__") or nm in self.anchors:
      ok = False
    elif h.node.decorator_list or a.vararg or a.kwarg or a.kwonlyargs or a.posonlyargs:
      ok = False
    elif _returns_inside_loops(h.node.body):
      ok = False
    else:
      for x in ast.walk(h.node):
        if isinstance(x, (ast.Yield, ast.YieldFrom, ast.Lambda, ast.Global, ast.Nonlocal,
                          ast.ClassDef, ast.Await)) or \
            (isinstance(x, (ast.FunctionDef, ast.AsyncFunctionDef)) and x is not h.node):
          ok = False
          break
    self._elig[h.qualname] = ok
    return ok

  def fully_inlined(self, h):
    """Every mention of helper h anywhere in the repository is a statement-level call that the
    inlined view replaces by h's body: h's statements are then analysed in the context of each
    caller, and h need not be analysed as a function of its own."""
    if h.qualname in self._full:
      return self._full[h.qualname]
    res = self.eligible(h)
    if res:
      name = h.name
      seen_any = False
      for mod in self.repo.modules.values():
        if name not in mod.source:
          continue
        sites = set()
        for fi in self.repo.all_functions():
          if fi.module is not mod:
            continue
          for x in ast.walk(fi.node):
            if isinstance(x, (ast.Expr, ast.Assign, ast.Return)) and \
                isinstance(getattr(x, "value", None), ast.Call):
              # the innermost function containing the statement decides what `self` is; closures
              # are indexed separately, so a statement may be seen from its outer function too
              hh = self.helper_of(fi, x.value)
              if hh is h:
                sites.add(id(x.value.func))
        for x in ast.walk(mod.tree):
          if (isinstance(x, ast.Attribute) and x.attr == name) or \
              (isinstance(x, ast.Name) and x.id == name):
            if id(x) in sites:
              seen_any = True
            else:
              res = False
              break
        if not res:
          break
      res = res and seen_any
    self._full[h.qualname] = res
    return res

  def _expand(self, fi, h, call, site_kind, targets, stack):
    """Statements replacing one call site; None when the call cannot be bound."""
    self.count += 1
    tag = "__%s%d" % (h.name.strip("_"), self.count)
    params = [x.arg for x in h.node.args.args]
    is_method = h.cls is not None and \
        not any(dotted(d) == "staticmethod" for d in h.node.decorator_list)
    if is_method:
      if not params:
        return None
      self_name, params = params[0], params[1:]
    else:
      self_name = None
    if any(isinstance(x, ast.Starred) for x in call.args) or \
        any(k.arg is None for k in call.keywords) or len(call.args) > len(params):
      return None
    bound = dict(zip(params, call.args))
    for k in call.keywords:
      if k.arg not in params or k.arg in bound:
        return None
      bound[k.arg] = k.value
    defaults = h.node.args.defaults
    for p_, d in zip(params[len(params) - len(defaults):], defaults):
      bound.setdefault(p_, d)
    if set(bound) != set(params):
      return None
    body = copy.deepcopy(h.node.body)
    if body and isinstance(body[0], ast.Expr) and isinstance(body[0].value, ast.Constant) and \
        isinstance(body[0].value.value, str):
      body = body[1:]
    local = set(params)
    for s in body:
      for x in ast.walk(s):
        if isinstance(x, ast.Name) and isinstance(x.ctx, (ast.Store, ast.Del)):
          local.add(x.id)
        elif isinstance(x, ast.ExceptHandler) and x.name:
          local.add(x.name)
    mapping = {nm: nm + tag for nm in local}
    if self_name is not None and self_name != "self":
      mapping[self_name] = "self"
    ren = _Rename(mapping)
    body = [ren.visit(s) for s in body]
    # the helper's own private helpers, one more level
    hfi = h
    body = self._rewrite_block(hfi, body, stack + [h.qualname])
    pre = []
    for p_ in params:
      a_ = ast.Assign(targets=[ast.Name(id=mapping[p_], ctx=ast.Store())],
                      value=copy.deepcopy(bound[p_]))
      pre.append(ast.copy_location(a_, call))
    if site_kind == "return":
      rv = "ret" + tag
      targets = [ast.Name(id=rv, ctx=ast.Store())]
    def assign(value):
      if targets is None:
        if value is None or isinstance(value, (ast.Name, ast.Constant)):
          return []
        return [ast.copy_location(ast.Expr(value=value), value)]
      v = value if value is not None else ast.Constant(value=None)
      return [ast.copy_location(ast.Assign(targets=copy.deepcopy(targets), value=v), call)]
    rets = [x for s in body for x in ast.walk(s) if isinstance(x, ast.Return)]
    tail_only = len(rets) == 1 and body and body[-1] is rets[0]
    if not rets:
      out = pre + body + assign(None)
    elif tail_only:
      out = pre + body[:-1] + assign(rets[0].value)
    else:
      inner = _replace_returns(body, lambda v: assign(v) + [ast.Break()])
      falls = not (body and isinstance(body[-1], ast.Return))
      inner = inner + ((assign(None) if falls else []) + [ast.Break()])
      loop = ast.While(test=ast.Constant(value=True), body=inner, orelse=[])
      out = pre + [ast.copy_location(loop, call)]
    if site_kind == "return":
      out.append(ast.copy_location(
        ast.Return(value=ast.Name(id="ret" + tag, ctx=ast.Load())), call))
    return out or [ast.copy_location(ast.Pass(), call)]

  def _rewrite_block(self, fi, stmts, stack):
    out = []
    for s in stmts:
      call, kind, targets = None, None, None
      if isinstance(s, ast.Expr) and isinstance(s.value, ast.Call):
        call, kind = s.value, "expr"
      elif isinstance(s, ast.Assign) and isinstance(s.value, ast.Call):
        call, kind, targets = s.value, "assign", s.targets
      elif isinstance(s, ast.Return) and isinstance(s.value, ast.Call):
        call, kind = s.value, "return"
      rep = None
      if call is not None and len(stack) <= self.max_depth:
        h = self.helper_of(fi, call)
        if h is not None and h.qualname not in stack:
          rep = self._expand(fi, h, call, kind, targets, stack)
      if rep is not None:
        for r in rep:
          ast.fix_missing_locations(r)
        out.extend(rep)
        continue
      for fld in ("body", "orelse", "finalbody"):
        b = getattr(s, fld, None)
        if isinstance(b, list) and b and isinstance(b[0], ast.stmt) and \
            not isinstance(s, (ast.FunctionDef, ast.AsyncFunctionDef, ast.ClassDef)):
          setattr(s, fld, self._rewrite_block(fi, b, stack))
      for h_ in getattr(s, "handlers", []) or []:
        h_.body = self._rewrite_block(fi, h_.body, stack)
      out.append(s)
    return out

  def inlined(self, fi):
    """FuncInfo whose node has the private helpers inlined (fi itself when there is nothing to
    inline)."""
    from ..index import FuncInfo
    before = self.count
    node = copy.deepcopy(fi.node)
    node.body = self._rewrite_block(fi, node.body, [fi.qualname])
    if self.count == before:
      return fi
    ast.fix_missing_locations(node)
    return FuncInfo(fi.module, fi.cls, node, fi.qualname, fi.parent)


def make_inlined_world(repo, anchors):
  from ..fn import World, Fn
  class InlinedWorld(World):
    def __init__(self, repo_):
      World.__init__(self, repo_)
      self.inliner = Inliner(repo_, anchors)
      self.inlined_functions = set()
    def fn(self, qualname):
      return self.fn_of(self.repo.func(qualname))
    def fn_of(self, fi):
      if fi.qualname not in self._fns:
        fi2 = self.inliner.inlined(fi)
        if fi2 is not fi:
          self.inlined_functions.add(fi.qualname)
        fi3 = normalise_keywords(self._plain, Fn(self._plain, fi2))
        self._fns[fi.qualname] = Fn(self, fi3)
      return self._fns[fi.qualname]
  iw = InlinedWorld(repo)
  iw._plain = World(repo)
  return iw


def analysed_separately(w, fi):
  """False for a private helper that the inlined view has folded into all of its callers (only
  an InlinedWorld ever says so): rules that visit every function skip it there."""
  inl = getattr(w, "inliner", None)
  return not (inl is not None and inl.fully_inlined(fi))


class _Buffer(object):
  """Records what a rule function reports, to be committed to the real Run or dropped."""
  def __init__(self, run):
    self._run = run
    self.calls = []
    self.missing = set()
    self.failed = 0
    self.tier = getattr(run, "tier", "quick")
    self.repo = getattr(run, "repo", None)
    self.extra = run.extra

  def rule(self, rule_id, desc, floor=None):
    self.calls.append(("rule", (rule_id, desc, floor), {}))
    return rule_id

  def ob(self, rule, site, construct, what, ok, **kw):
    # missing=True: the obligation fails because the mechanism was not found at all (as opposed
    # to found and seen broken); see decide()
    missing = bool(kw.pop("missing", False)) and not ok
    self.calls.append(("ob", (rule, site, construct, what, ok), kw))
    if missing:
      self.missing.add(len(self.calls) - 1)
    if not ok:
      self.failed += 1
    return bool(ok)

  def guard(self, func, *args, **kw):
    try:
      return func(*args, **kw)
    except AnalysisError as e:
      self.calls.append(("err", (getattr(func, "__name__", "?"), str(e)), {}))
      self.failed += 1
      return None

  def analysed(self, fi):
    self.calls.append(("analysed", (fi,), {}))

  def note(self, msg):
    self.calls.append(("note", (msg,), {}))

  def assume(self, msg):
    self.calls.append(("assume", (msg,), {}))

  def under_floor(self):
    """A rule declared here with a floor saw fewer instances than were confirmed by hand: the
    mechanism moved somewhere this view does not show."""
    counts = {}
    for kind, a, kw in self.calls:
      if kind == "ob":
        counts[a[0]] = counts.get(a[0], 0) + 1
    for kind, a, kw in self.calls:
      if kind == "rule" and a[2] is not None and counts.get(a[0], 0) < a[2]:
        return True
    return False

  def commit(self):
    for kind, a, kw in self.calls:
      if kind == "err":
        self._run.errors.append(a)
      else:
        getattr(self._run, kind)(*a, **kw)


def decide(run, repo, rule_functions, anchors, world=None, more_anchors=None):
  """Run each rule function (signature f(run, world)) on the plain view of the code; when it is
  not satisfied there (a failed obligation, or it cannot follow the code), ask again on the view
  with private helpers inlined and report that verdict if it is clean. Otherwise the plain
  verdict stands."""
  w = world or make_norm_world(repo)
  state = {"iw": None}
  for f in rule_functions:
    buf = _Buffer(run)
    err = None
    try:
      f(buf, w)
    except AnalysisError as e:
      err = e
    if err is None and not buf.failed and not buf.under_floor():
      buf.commit()
      continue
    if state["iw"] is None:
      extra = set()
      if more_anchors is not None:
        try:
          extra = set(more_anchors(w))
        except AnalysisError:
          extra = set()
      state["iw"] = make_inlined_world(repo, set(anchors) | extra)
    buf2 = _Buffer(run)
    ok2 = True
    try:
      f(buf2, state["iw"])
    except AnalysisError:
      ok2 = False
    except Exception:
      # the second opinion is best effort: whatever goes wrong there, the plain verdict stands
      ok2 = False
    if ok2 and not buf2.failed and not buf2.under_floor() and state["iw"].inlined_functions:
      buf2.commit()
      continue
    # An obligation that fails because its mechanism was *not found* (missing=True) is reported as
    # a violation only where the rule could see all the code involved: if the function it is about
    # calls private helpers that could not be folded in (not inlinable, or called inside an
    # expression), what the rule misses may be in there -- "cannot decide", not "broken".
    # Obligations that found the mechanism and saw it broken are always violations.
    iw = state["iw"]
    undecided = []
    kept = []
    for idx, call in enumerate(buf.calls):
      kind, a, kw = call
      if kind == "ob" and not a[4] and idx in buf.missing:
        fi_ = repo.funcs.get(a[1])
        if fi_ is not None:
          try:
            opaque = iw.inliner.opaque_calls(fi_, iw.fn_of(fi_).node)
          except Exception:
            opaque = []
          if opaque:
            undecided.append("%s: `%s` undecided: the function calls %s, which the rule cannot "
                             "see into" % (a[1], a[2][:80], ", ".join(opaque[:3])))
            continue
      kept.append(call)
    buf.calls = kept
    # keep what the rule reported (before it gave up, if it did); a rule that cannot decide is
    # recorded like Run.guard does, so the other rules still report
    buf.commit()
    if err is not None:
      run.errors.append((getattr(f, "__name__", "?"), str(err)))
    for msg in undecided[:3]:
      run.errors.append((getattr(f, "__name__", "?"), msg))


# ------------------------------------------------------------------------------------------
def cname(fn, call_or_expr):
  """Fn.name, but an attribute chain whose base is not a plain name (a call, a subscript) still
  yields its attribute tail as "?.a.b" -- so `endswith(nm, "sorted_versions.pop")` also matches
  `lookup(...).sorted_versions.pop(...)` when a local holding the receiver was inlined."""
  nm = fn.name(call_or_expr)
  if nm is not None:
    return nm
  e = call_or_expr.func if isinstance(call_or_expr, ast.Call) else call_or_expr
  parts = []
  while isinstance(e, ast.Attribute):
    parts.append(e.attr)
    e = e.value
  if not parts:
    return None
  return "?." + ".".join(reversed(parts))


def calls_E(fn, cfg=None):
  """Fn.calls with cname names."""
  cfg = cfg or fn.cfg
  out = []
  for n in cfg.nodes:
    for c in calls_in(n.exprs):
      out.append((n, c, cname(fn, c)))
  return out


def nodes_calling_E(fn, pred, cfg=None):
  return {n.id for (n, c, nm) in calls_E(fn, cfg) if pred(c, nm, fn)}


# ------------------------------------------------------------------------------------------
# Keyword-normalised view: `f(a, q=b)` and `f(a, b)` are the same call. Every function wrapper
# handed out by the worlds below is built from a copy of the function in which the keyword
# arguments of a call are moved to their positional place whenever the callee's parameter list is
# known (a repository function / method with one agreed signature); rules can then read
# call.args[i] and compare normalised call text without caring how an argument was passed.

def _own_calls(fnode):
  out = []
  for s in fnode.body:
    if isinstance(s, (ast.FunctionDef, ast.AsyncFunctionDef, ast.ClassDef)):
      continue
    for x in walk_no_nested(s, into_lambda=True):
      if isinstance(x, ast.Call):
        out.append(x)
  return out


def normalise_keywords(w, fn):
  """FuncInfo like fn.fi, with keyword arguments moved into positional place where the callee's
  signature is known (fn.fi itself when nothing changes). `w`/`fn` are used to resolve callees."""
  from ..index import FuncInfo
  fi = fn.fi
  todo = {}
  for c in _own_calls(fi.node):
    if not c.keywords or any(k.arg is None for k in c.keywords) or \
        any(isinstance(a, ast.Starred) for a in c.args):
      continue
    try:
      ps = callee_params(w, fn, c)
    except AnalysisError:
      ps = None
    if not ps or len(c.args) > len(ps):
      continue
    kw = {k.arg: i for i, k in enumerate(c.keywords)}
    moved = []
    for p_ in ps[len(c.args):]:
      if p_ in kw:
        moved.append(kw[p_])
      else:
        break
    if moved:
      todo[id(c)] = moved
  if not todo:
    return fi
  node = copy.deepcopy(fi.node)
  for o, c in zip(ast.walk(fi.node), ast.walk(node)):
    if id(o) in todo:
      idx = todo[id(o)]
      c.args = list(c.args) + [c.keywords[i].value for i in idx]
      c.keywords = [k for i, k in enumerate(c.keywords) if i not in idx]
  return FuncInfo(fi.module, fi.cls, node, fi.qualname, fi.parent)


def make_norm_world(repo):
  """World whose function wrappers see keyword-normalised calls."""
  from ..fn import World, Fn
  plain = World(repo)
  class NormWorld(World):
    def fn(self, qualname):
      return self.fn_of(self.repo.func(qualname))
    def fn_of(self, fi):
      if fi.qualname not in self._fns:
        self._fns[fi.qualname] = Fn(self, normalise_keywords(plain, plain.fn_of(fi)))
      return self._fns[fi.qualname]
  return NormWorld(repo)
