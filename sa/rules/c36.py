"""C36 Page-tree indentation fixes always yield a valid tree -- difference-bound abstract
interpretation of treeview.fix_indents (DESIGN.md 4/C36).

The function is interpreted over the domain of difference bounds (v - w <= c over the integer
locals, the current item's indentation `$x`, a zero variable and the ghost `$k` = new indentation
of the last page that is kept, -1 before the first one). Boolean locals are tracked exactly by
forking. The interpreter understands the statement subset the function is written in (integer
assignments from constants / variables / +-constant / min / max / conditional expressions,
boolean assignments, if/elif/else, one loop over the items, list.append of an (id, value) pair,
return) and raises AnalysisError for anything else. Nothing is executed."""
import ast
from ..fn import World
from ..index import AnalysisError, dotted
from ..astutil import text, short, endswith, calls_in, walk_no_nested, enclosing_chain
from ..dataflow import DefUse
from . import _h_D as H

EXPLANATION = (
  "Decides, for every list of pages with non-negative indentations and every removal set, by a "
  "difference-bound abstract interpretation of fix_indents with the ghost variable kept = new "
  "indentation of the last page that stays (-1 initially): (R1) the loop invariant "
  "max_next_indent <= kept + 1 and max_next_indent >= 0 is inductive, and at every page that "
  "stays its new indentation is <= kept + 1 and >= 0 (so the first page gets 0 and no page is "
  "more than one level below its predecessor); (R2) its new indentation is <= its old one (never "
  "deeper); (R3) an adjustment is emitted only for a page that stays, only with a value that "
  "differs from the current one, at most once per page and under the page's own id, and a page "
  "without adjustment keeps a value that already satisfies R1; (R4) _removePageRecords computes "
  "the fixes over all pages in page order for the ids being removed, applies them as "
  "(id -> indentation) before the removal, on every path. Integer locals that may hold None are tracked with a disjunctive loop-head invariant (one "
  "element per None/number case), parallel assignments are interpreted. Locals that merely name "
  "a field of the page, a pair or a "
  "parameter are followed, `continue` is interpreted, and the caller clauses are decided on "
  "values (comprehension or loop, sort()/sorted(), positional or keyword arguments). "
  "Assumption: indentations are "
  "non-negative integers. Not decided: that *only* pages which would otherwise break the tree are "
  "changed (the function deliberately promotes the children of a removed page, as its module "
  "docstring says).")

INF = float("inf")
ZERO = "$0"
X = "$x"          # indentation of the current item
K = "$k"          # ghost: new indentation of the last kept item
NEW = "$new"      # ghost: value appended for the current item


# ============================================================================ difference bounds

class DBM(object):
  """Conjunction of constraints v - w <= c over a fixed variable list; None = unreachable."""
  def __init__(self, names, m=None):
    self.names = list(names)
    self.ix = {n: i for i, n in enumerate(self.names)}
    n = len(self.names)
    self.m = m if m is not None else [[0 if i == j else INF for j in range(n)] for i in range(n)]

  def copy(self):
    return DBM(self.names, [row[:] for row in self.m])

  def close(self):
    n = len(self.names)
    m = self.m
    for k in range(n):
      mk = m[k]
      for i in range(n):
        mik = m[i][k]
        if mik == INF:
          continue
        mi = m[i]
        for j in range(n):
          v = mik + mk[j]
          if v < mi[j]:
            mi[j] = v
    return self

  def bottom(self):
    self.close()
    return any(self.m[i][i] < 0 for i in range(len(self.names)))

  def assume(self, v, w, c):
    """v - w <= c"""
    i, j = self.ix[v], self.ix[w]
    if c < self.m[i][j]:
      self.m[i][j] = c
    return self

  def forget(self, v):
    self.close()
    i = self.ix[v]
    for j in range(len(self.names)):
      if j != i:
        self.m[i][j] = INF
        self.m[j][i] = INF
    return self

  def assign(self, v, w, c):
    """v := w + c   (w may be ZERO or v itself)"""
    if v == w:
      self.close()
      i = self.ix[v]
      for j in range(len(self.names)):
        if j != i:
          self.m[i][j] += c
          self.m[j][i] -= c
      return self
    self.forget(v)
    self.assume(v, w, c)
    self.assume(w, v, -c)
    return self

  def entails(self, v, w, c):
    self.close()
    return self.m[self.ix[v]][self.ix[w]] <= c

  def join(self, o):
    self.close(); o.close()
    n = len(self.names)
    return DBM(self.names, [[max(self.m[i][j], o.m[i][j]) for j in range(n)] for i in range(n)])

  def widen(self, o):
    """self widened by o (o is the newer, larger element)."""
    self.close(); o.close()
    n = len(self.names)
    return DBM(self.names, [[self.m[i][j] if o.m[i][j] <= self.m[i][j] else INF
                             for j in range(n)] for i in range(n)])

  def leq(self, o):
    self.close(); o.close()
    n = len(self.names)
    return all(self.m[i][j] <= o.m[i][j] for i in range(n) for j in range(n))

  def describe(self, hide=()):
    self.close()
    out = []
    n = len(self.names)
    for i in range(n):
      for j in range(n):
        if i == j or self.m[i][j] == INF:
          continue
        a, b, c = self.names[i], self.names[j], self.m[i][j]
        if a in hide or b in hide:
          continue
        c = int(c)
        if b == ZERO:
          out.append("%s <= %d" % (a, c))
        elif a == ZERO:
          out.append("%s >= %d" % (b, -c))
        else:
          out.append("%s - %s <= %d" % (a, b, c))
    return ", ".join(out)


# ============================================================================ the interpreter

class State(object):
  __slots__ = ("d", "bools", "emitted", "syms")

  def __init__(self, d, bools=None, emitted=0, syms=None):
    self.d = d
    self.bools = dict(bools or {})
    self.emitted = emitted
    self.syms = dict(syms or {})     # local -> expression it names (item.id, a pair, a parameter)

  def copy(self):
    return State(self.d.copy(), self.bools, self.emitted, self.syms)


class Interp(object):
  def __init__(self, fn):
    self.fn = fn
    self.node = fn.node
    ps = fn.fi.params()
    if len(ps) != 2:
      raise AnalysisError("fix_indents(items, deleted_ids) signature expected, got %s" % ps)
    self.p_items, self.p_deleted = ps
    self.item = None
    self.listvar = None
    self.deleted_key = None       # name of the boolean that holds `item.id in deleted_ids`
    self.emissions = []           # (append call, id expression) per emission site
    self.cont_states = []         # states that left the loop body through `continue`
    self.ints = self._int_vars()
    self.names = [ZERO, X, K, NEW] + sorted(self.ints)

  # ---- which locals are integers: those assigned from integer expressions
  def _int_vars(self):
    out = set()
    for s in walk_no_nested(self.node):
      if isinstance(s, ast.Assign) and len(s.targets) == 1 and isinstance(s.targets[0], ast.Name):
        if not self._is_bool_expr(s.value) and not self._is_list_expr(s.value) and \
            not self._is_sym_expr(s.value):
          out.add(s.targets[0].id)
      elif isinstance(s, ast.Assign) and len(s.targets) == 1 and \
          isinstance(s.targets[0], (ast.Tuple, ast.List)) and \
          isinstance(s.value, (ast.Tuple, ast.List)) and \
          len(s.targets[0].elts) == len(s.value.elts):
        for t, val in zip(s.targets[0].elts, s.value.elts):
          if isinstance(t, ast.Name) and not self._is_bool_expr(val) and \
              not self._is_list_expr(val) and not self._is_sym_expr(val):
            out.add(t.id)
      elif isinstance(s, ast.AugAssign) and isinstance(s.target, ast.Name):
        out.add(s.target.id)
    return out

  @staticmethod
  def _is_bool_expr(e):
    return isinstance(e, (ast.Compare, ast.BoolOp)) or \
        (isinstance(e, ast.UnaryOp) and isinstance(e.op, ast.Not)) or \
        (isinstance(e, ast.Constant) and isinstance(e.value, bool))

  def _maybe_none(self, name):
    if not hasattr(self, "_noneable"):
      self._noneable = set()
      for s in walk_no_nested(self.node):
        if isinstance(s, ast.Assign):
          tg = s.targets[0]
          pairs = [(tg, s.value)]
          if isinstance(tg, (ast.Tuple, ast.List)) and isinstance(s.value, (ast.Tuple, ast.List)) \
              and len(tg.elts) == len(s.value.elts):
            pairs = list(zip(tg.elts, s.value.elts))
          for t, val in pairs:
            if isinstance(t, ast.Name) and isinstance(val, ast.Constant) and val.value is None:
              self._noneable.add(t.id)
    return name in self._noneable

  def _is_sym_expr(self, e):
    """An expression a local merely names: a field of the current item, a parameter, a pair."""
    if isinstance(e, ast.Attribute) and isinstance(e.value, ast.Name):
      return True
    if isinstance(e, ast.Name) and e.id in (self.p_items, self.p_deleted):
      return True
    if isinstance(e, ast.Tuple):
      return True
    return False

  @staticmethod
  def _sym(st, e):
    """e with locals that merely name another expression followed."""
    for _ in range(6):
      if isinstance(e, ast.Name) and e.id in st.syms:
        e = st.syms[e.id]
      else:
        break
    return e

  @staticmethod
  def _is_list_expr(e):
    return (isinstance(e, ast.List) and not e.elts) or \
        (isinstance(e, ast.Call) and dotted(e.func) == "list" and not e.args)

  # ---- integer expressions -> [(state, (var, const))]
  def ev_int(self, st, e):
    if isinstance(e, ast.Constant) and isinstance(e.value, int) and not isinstance(e.value, bool):
      return [(st, (ZERO, e.value))]
    if isinstance(e, ast.UnaryOp) and isinstance(e.op, ast.USub) and \
        isinstance(e.operand, ast.Constant) and isinstance(e.operand.value, int):
      return [(st, (ZERO, -e.operand.value))]
    if isinstance(e, ast.Name) and e.id in st.syms:
      return self.ev_int(st, self._sym(st, e))
    if isinstance(e, ast.Name):
      if e.id not in self.ints:
        raise AnalysisError("fix_indents: %s is not an integer local" % e.id)
      if st.bools.get("$none:" + e.id) is True:
        raise AnalysisError("fix_indents: %s is used as a number where it is None" % e.id)
      return [(st, (e.id, 0))]
    if isinstance(e, ast.Attribute) and isinstance(e.value, ast.Name) and \
        e.value.id == self.item and e.attr == "indentation":
      return [(st, (X, 0))]
    if isinstance(e, ast.BinOp) and isinstance(e.op, (ast.Add, ast.Sub)):
      sign = 1 if isinstance(e.op, ast.Add) else -1
      if isinstance(e.right, ast.Constant) and isinstance(e.right.value, int):
        return [(s, (v, c + sign * e.right.value)) for (s, (v, c)) in self.ev_int(st, e.left)]
      if sign == 1 and isinstance(e.left, ast.Constant) and isinstance(e.left.value, int):
        return [(s, (v, c + e.left.value)) for (s, (v, c)) in self.ev_int(st, e.right)]
    if isinstance(e, ast.Call) and dotted(e.func) in ("min", "max") and len(e.args) == 2 and \
        not e.keywords:
      out = []
      for (s1, ta) in self.ev_int(st, e.args[0]):
        for (s2, tb) in self.ev_int(s1, e.args[1]):
          is_min = dotted(e.func) == "min"
          # a <= b: min is a, max is b;   b <= a: min is b, max is a
          a = s2.copy()
          self._assume_le(a, ta, tb)
          if not a.d.bottom():
            out.append((a, ta if is_min else tb))
          b = s2.copy()
          self._assume_le(b, tb, ta)
          if not b.d.bottom():
            out.append((b, tb if is_min else ta))
      return out
    if isinstance(e, ast.IfExp):
      out = []
      tr, fa = self.cond(st, e.test)
      for s in tr:
        out.extend(self.ev_int(s, e.body))
      for s in fa:
        out.extend(self.ev_int(s, e.orelse))
      return out
    raise AnalysisError("fix_indents: integer expression outside the supported subset: %s"
                        % short(e))

  @staticmethod
  def _assume_le(st, ta, tb, strict=False):
    """ta <= tb  (ta, tb = (var, const));  strict: ta <= tb - 1"""
    (va, ca), (vb, cb) = ta, tb
    c = cb - ca - (1 if strict else 0)
    if va == vb:
      if 0 > c:
        st.d.assume(ZERO, ZERO, -1)      # contradiction
      return
    st.d.assume(va, vb, c)

  # ---- boolean expressions -> ([true states], [false states])
  def cond(self, st, t):
    if isinstance(t, ast.Constant) and isinstance(t.value, bool):
      return ([st], []) if t.value else ([], [st])
    if isinstance(t, ast.Name):
      if t.id not in st.bools:
        raise AnalysisError("fix_indents: truth value of %s is not tracked" % t.id)
      return ([st], []) if st.bools[t.id] else ([], [st])
    if isinstance(t, ast.UnaryOp) and isinstance(t.op, ast.Not):
      tr, fa = self.cond(st, t.operand)
      return fa, tr
    if isinstance(t, ast.BoolOp):
      if isinstance(t.op, ast.And):
        cur, false = [st], []
        for v in t.values:
          nxt = []
          for s in cur:
            tr, fa = self.cond(s, v)
            nxt.extend(tr)
            false.extend(fa)
          cur = nxt
        return cur, false
      cur, true = [st], []
      for v in t.values:
        nxt = []
        for s in cur:
          tr, fa = self.cond(s, v)
          true.extend(tr)
          nxt.extend(fa)
        cur = nxt
      return true, cur
    if isinstance(t, ast.Compare) and len(t.ops) == 1 and \
        isinstance(t.ops[0], (ast.Is, ast.IsNot)) and \
        isinstance(t.comparators[0], ast.Constant) and t.comparators[0].value is None and \
        isinstance(self._sym(st, t.left), ast.Name) and self._sym(st, t.left).id in self.ints:
      # an integer local that may also hold None: tracked as a boolean beside the bounds
      key = "$none:" + self._sym(st, t.left).id
      if key not in st.bools:
        a, b = st.copy(), st.copy()
        a.bools[key] = True
        a.d.forget(self._sym(st, t.left).id)
        b.bools[key] = False
        tr, fa = [a], [b]
      else:
        tr, fa = ([st], []) if st.bools[key] else ([], [st])
      return (tr, fa) if isinstance(t.ops[0], ast.Is) else (fa, tr)
    if isinstance(t, ast.Compare) and len(t.ops) == 1:
      op = t.ops[0]
      if isinstance(op, (ast.In, ast.NotIn)):
        key = self._membership_key(st, t)
        if key not in st.bools:
          a, b = st.copy(), st.copy()
          a.bools[key] = True
          b.bools[key] = False
          tr, fa = [a], [b]
        else:
          tr, fa = ([st], []) if st.bools[key] else ([], [st])
        return (tr, fa) if isinstance(op, ast.In) else (fa, tr)
      tr, fa = [], []
      for (s1, ta) in self.ev_int(st, t.left):
        for (s2, tb) in self.ev_int(s1, t.comparators[0]):
          def br(pairs):
            out = []
            for (x, y, strict) in pairs:
              c = s2.copy()
              self._assume_le(c, x, y, strict)
              if not c.d.bottom():
                out.append(c)
            return out
          lt, gt = [(ta, tb, True)], [(tb, ta, True)]
          le, ge = [(ta, tb, False)], [(tb, ta, False)]
          if isinstance(op, ast.Lt):
            tr += br(lt); fa += br(ge)
          elif isinstance(op, ast.LtE):
            tr += br(le); fa += br(gt)
          elif isinstance(op, ast.Gt):
            tr += br(gt); fa += br(le)
          elif isinstance(op, ast.GtE):
            tr += br(ge); fa += br(lt)
          elif isinstance(op, (ast.Eq, ast.NotEq)):
            eq = []
            c = s2.copy()
            self._assume_le(c, ta, tb)
            self._assume_le(c, tb, ta)
            if not c.d.bottom():
              eq.append(c)
            ne = br(lt) + br(gt)
            if isinstance(op, ast.Eq):
              tr += eq; fa += ne
            else:
              tr += ne; fa += eq
          else:
            raise AnalysisError("fix_indents: comparison outside the subset: %s" % short(t))
      return tr, fa
    raise AnalysisError("fix_indents: condition outside the supported subset: %s" % short(t))

  def _membership_key(self, st, t):
    """`item.id in deleted_ids`: an opaque per-item boolean, keyed by its text."""
    l, r = self._sym(st, t.left), self._sym(st, t.comparators[0])
    if not (text(l) == "%s.id" % self.item and text(r) == self.p_deleted):
      raise AnalysisError("fix_indents: membership test outside the supported subset: %s"
                          % short(t))
    return "$deleted"

  # ---- statements
  def block(self, states, stmts):
    for s in stmts:
      nxt = []
      for st in states:
        nxt.extend(self.stmt(st, s))
      states = nxt
    return states

  def stmt(self, st, s):
    if isinstance(s, ast.Expr) and isinstance(s.value, ast.Constant):
      return [st]
    if isinstance(s, ast.Pass):
      return [st]
    if isinstance(s, ast.Continue):
      if self.item is None:
        raise AnalysisError("fix_indents: continue outside the item loop")
      self.cont_states.append(st)
      return []
    if isinstance(s, ast.Assign) and len(s.targets) == 1 and \
        isinstance(s.targets[0], (ast.Tuple, ast.List)) and \
        isinstance(s.value, (ast.Tuple, ast.List)) and \
        len(s.targets[0].elts) == len(s.value.elts) and \
        all(isinstance(t, ast.Name) for t in s.targets[0].elts):
      # a, b = x, y: all right-hand sides are evaluated first
      tg = [t.id for t in s.targets[0].elts]
      for j, val in enumerate(s.value.elts):
        used = {y.id for y in ast.walk(val) if isinstance(y, ast.Name)}
        if used & set(tg[:j]):
          raise AnalysisError("fix_indents: parallel assignment reads a name it has just "
                              "written: %s" % short(s))
      states = [st]
      for t, val in zip(s.targets[0].elts, s.value.elts):
        one = ast.copy_location(ast.Assign(targets=[t], value=val), s)
        nxt = []
        for x in states:
          nxt.extend(self.stmt(x, one))
        states = nxt
      return states
    if isinstance(s, ast.Assign) and len(s.targets) == 1 and isinstance(s.targets[0], ast.Name) \
        and isinstance(s.value, ast.Constant) and s.value.value is None and \
        s.targets[0].id in self.ints:
      x = st.copy()
      x.d.forget(s.targets[0].id)
      x.bools["$none:" + s.targets[0].id] = True
      return [x]
    if isinstance(s, ast.Assign) and len(s.targets) == 1 and isinstance(s.targets[0], ast.Name):
      name = s.targets[0].id
      if self._is_sym_expr(s.value) and name not in self.ints:
        x = st.copy()
        x.syms[name] = s.value
        return [x]
      if self._is_list_expr(s.value):
        if self.listvar not in (None, name):
          raise AnalysisError("fix_indents: more than one list local")
        self.listvar = name
        return [st]
      if self._is_bool_expr(s.value):
        tr, fa = self.cond(st, s.value)
        out = []
        for x in tr:
          x = x.copy(); x.bools[name] = True; out.append(x)
        for x in fa:
          x = x.copy(); x.bools[name] = False; out.append(x)
        if isinstance(s.value, ast.Compare) and isinstance(s.value.ops[0], (ast.In, ast.NotIn)):
          self.deleted_key = (name, isinstance(s.value.ops[0], ast.In))
        return out
      out = []
      for (x, (v, c)) in self.ev_int(st, s.value):
        x = x.copy()
        x.d.assign(name, v, c)
        if ("$none:" + name) in x.bools or self._maybe_none(name):
          x.bools["$none:" + name] = False
        out.append(x)
      return out
    if isinstance(s, ast.AugAssign) and isinstance(s.target, ast.Name) and \
        isinstance(s.op, (ast.Add, ast.Sub)) and isinstance(s.value, ast.Constant) and \
        isinstance(s.value.value, int) and s.target.id in self.ints:
      x = st.copy()
      x.d.assign(s.target.id, s.target.id,
                 s.value.value if isinstance(s.op, ast.Add) else -s.value.value)
      return [x]
    if isinstance(s, ast.If):
      tr, fa = self.cond(st, s.test)
      return self.block(tr, s.body) + self.block(fa, s.orelse)
    if isinstance(s, ast.Expr) and isinstance(s.value, ast.Yield) and \
        getattr(self, "yields", False) and s.value.value is not None:
      # `yield (id, indent)` in a generator is what `adjustments.append((id, indent))` is
      fake = ast.copy_location(ast.Call(
        func=ast.Attribute(value=ast.Name(id="$yield", ctx=ast.Load()), attr="append",
                           ctx=ast.Load()), args=[s.value.value], keywords=[]), s)
      s = ast.copy_location(ast.Expr(value=fake), s)
    if isinstance(s, ast.Expr) and isinstance(s.value, ast.Call):
      c = s.value
      if isinstance(c.func, ast.Attribute) and c.func.attr == "append" and \
          isinstance(c.func.value, ast.Name) and c.func.value.id == self.listvar and \
          len(c.args) == 1 and isinstance(self._sym(st, c.args[0]), ast.Tuple) and \
          len(self._sym(st, c.args[0]).elts) == 2:
        if self.item is None:
          raise AnalysisError("fix_indents: adjustment appended outside the item loop")
        idx, val = self._sym(st, c.args[0]).elts
        if not any(x is c for (x, _) in self.emissions):
          self.emissions.append((c, self._sym(st, idx)))
        out = []
        try:
          vals = self.ev_int(st, val)
        except AnalysisError:
          if isinstance(val, ast.Attribute) and isinstance(val.value, ast.Name) and \
              val.value.id == self.item:
            vals = None         # some other field of the item: an unknown value is recorded
          else:
            raise
        if vals is None:
          x = st.copy()
          x.d.forget(NEW)
          x.emitted += 1
          return [x]
        for (x, (v, k)) in vals:
          x = x.copy()
          x.d.assign(NEW, v, k)
          x.emitted += 1
          out.append(x)
        return out
    raise AnalysisError("fix_indents: statement outside the supported subset: %s" % short(s))


def _body_function(w, fn):
  """fix_indents itself, or -- when it only wraps one -- the private generator / helper of its
  module that does the work: `return list(_helper(items, deleted_ids))` with the two parameters
  handed on in order (`return _helper(items, deleted_ids)` as well)."""
  body = [s for s in fn.node.body
          if not (isinstance(s, ast.Expr) and isinstance(s.value, ast.Constant))]
  if len(body) != 1 or not isinstance(body[0], ast.Return) or body[0].value is None:
    return fn
  e = body[0].value
  if isinstance(e, ast.Call) and dotted(e.func) in ("list", "tuple") and len(e.args) == 1 and \
      not e.keywords:
    e = e.args[0]
  if not (isinstance(e, ast.Call) and isinstance(e.func, ast.Name) and
          e.func.id in fn.fi.module.functions):
    return fn
  callee = fn.fi.module.functions[e.func.id]
  b = H.bind_args(e, callee.params())
  ps = fn.fi.params()
  if b is None or [text(b.get(p)) if b.get(p) is not None else None
                   for p in callee.params()] != ps:
    raise AnalysisError("fix_indents: hands its arguments to %s in a way the analysis does not "
                        "follow: %s" % (callee.name, short(e)))
  return w.fn_of(callee)


def analyse(fn):
  """Returns (interp, invariant DBM at the loop head, [end-of-body states at the fixpoint],
  loop stmt, return stmt)."""
  ip = Interp(fn)
  body = [s for s in fn.node.body
          if not (isinstance(s, ast.Expr) and isinstance(s.value, ast.Constant))]
  loops = [s for s in body if isinstance(s, ast.For)]
  ip.yields = any(isinstance(y, (ast.Yield, ast.YieldFrom)) for y in walk_no_nested(fn.node))
  if ip.yields:
    # a generator: the yielded pairs are the adjustments, in order; nothing is returned
    if any(isinstance(y, ast.YieldFrom) or (isinstance(y, ast.Return) and y.value is not None)
           for y in walk_no_nested(fn.node)):
      raise AnalysisError("fix_indents: generator form outside the supported subset")
    ip.listvar = "$yield"
    body = body + [ast.Return(value=ast.Name(id="$yield", ctx=ast.Load()))]
  if len(loops) != 1 or not isinstance(body[-1], ast.Return):
    raise AnalysisError("fix_indents: expected initialisations, one loop over the items, return")
  lp = loops[0]
  i = body.index(lp)
  view = H.View(fn)
  between = body[i + 1:-1]
  if lp.orelse or not all(isinstance(b, ast.Assign) and len(b.targets) == 1 and
                          isinstance(b.targets[0], ast.Name) and isinstance(b.value, ast.Name)
                          for b in between):
    raise AnalysisError("fix_indents: statements between the loop and the return")
  it = view.alias_root(lp.iter)
  if not (isinstance(lp.target, ast.Name) and isinstance(it, ast.Name) and it.id == ip.p_items
          and view.reaching(it.id, view.loop_head(lp)) == frozenset([view.ENTRY])):
    raise AnalysisError("fix_indents: the loop does not iterate the items parameter directly: %s"
                        % short(lp.iter))
  ip.view = view
  d0 = DBM(ip.names)
  d0.assign(K, ZERO, -1)
  init = ip.block([State(d0)], body[:i])
  if len(init) != 1:
    raise AnalysisError("fix_indents: branching before the loop")
  ip.item = lp.target.id
  # The loop-head invariant is a disjunction: one difference-bound element per valuation of the
  # "this integer local currently holds None" flags (such a local has no numeric meaning while it
  # is None, so mixing the two cases in one element would lose its bounds).
  def flags_of(st):
    return tuple(sorted((k, v) for k, v in st.bools.items() if k.startswith("$none:")))
  syms0 = dict(init[0].syms)
  h0 = init[0].d
  for v in (X, NEW):
    h0.forget(v)
  heads = {flags_of(init[0]): h0}
  ends = []
  for it in range(60):
    ends = []
    nxt = {k: d for k, d in heads.items()}
    for key, head in sorted(heads.items()):
      st = State(head.copy(), bools=dict(key), syms=syms0)
      st.d.forget(X).forget(NEW)
      st.d.assume(ZERO, X, 0)            # assumption: indentations are non-negative
      ip.cont_states = []
      out = ip.block([st], lp.body)
      out = out + ip.cont_states
      ends.extend(out)
      for e in out:
        post = _ghost_update(ip, e)
        k2 = flags_of(e)
        nxt[k2] = nxt[k2].join(post) if k2 in nxt else post
    if set(nxt) == set(heads) and all(nxt[k].leq(heads[k]) for k in nxt):
      break
    heads = {k: (heads[k].widen(nxt[k]) if (k in heads and it >= 3) else nxt[k]) for k in nxt}
  else:
    raise AnalysisError("fix_indents: no fixpoint after 60 iterations")
  ip.heads = heads
  inv = None
  for k in sorted(heads):
    inv = heads[k].copy() if inv is None else inv.join(heads[k])
  return ip, inv, ends, lp, body[-1]


def _deleted(ip, st):
  if "$deleted" in st.bools:
    return st.bools["$deleted"]
  raise AnalysisError("fix_indents: whether the item is removed is not decided on some path")


def _ghost_update(ip, e):
  """State at the next loop head: kept := new indentation of this item unless it is removed."""
  d = e.d.copy()
  if not _deleted(ip, e):
    if e.emitted:
      d.assign(K, NEW, 0)
    else:
      d.assign(K, X, 0)
  d.forget(X)
  d.forget(NEW)
  return d


# ============================================================================ rules

def check(run, repo, tier):
  w = World(repo)
  fn0 = w.fn("treeview.fix_indents")
  run.assume("page indentations are non-negative integers (the engine stores Int >= 0; the "
             "client never produces negative levels)")
  fn = _body_function(w, fn0)
  if fn is None:
    return          # (reported as an analysis error)
  # the scan must look at every page: an early exit leaves later pages unclamped
  R0 = run.rule("C36-R1", "valid tree: every page that stays gets an indentation <= kept+1 and "
                ">= 0 (inductive invariant max_next_indent <= kept+1)", floor=6)
  item_loops = [s for s in fn.node.body if isinstance(s, ast.For)]
  early = []
  if len(item_loops) == 1:
    def scan(stmts):
      for s in stmts:
        if isinstance(s, (ast.Break, ast.Return)):
          early.append(s)
        elif isinstance(s, (ast.For, ast.While, ast.FunctionDef, ast.ClassDef)):
          continue          # a break there belongs to that inner loop
        else:
          for fld in ("body", "orelse", "finalbody"):
            b = getattr(s, fld, None)
            if isinstance(b, list) and b and isinstance(b[0], ast.stmt):
              scan(b)
          for h in getattr(s, "handlers", []) or []:
            scan(h.body)
    scan(item_loops[0].body)
    run.ob(R0, fn.qualname, "the loop over the pages has no early exit",
           "every page that stays is examined (a scan that stops early, e.g. once all removed "
           "pages were seen, leaves a too-deep page further down unclamped)", not early,
           witness=("exit at line %d" % early[0].lineno) if early else None, fi=fn.fi,
           node=early[0] if early else item_loops[0])
    if early:
      return
  res = analyse(fn)
  if res is None:
    return          # analyse() could not follow the code (reported as an analysis error)
  ip, inv, ends, lp, ret = res
  R1 = run.rule("C36-R1", "valid tree: every page that stays gets an indentation <= kept+1 and "
                ">= 0 (inductive invariant max_next_indent <= kept+1)", floor=6)
  R2 = run.rule("C36-R2", "never deeper: every page that stays gets an indentation <= its old "
                "one", floor=2)
  R3 = run.rule("C36-R3", "adjustments: only for pages that stay, only when the value differs, "
                "once, under the page's id", floor=5)
  q = fn.qualname
  ints = sorted(ip.ints)
  run.note("C36 loop-head invariant of fix_indents: " + inv.describe(hide=(X, NEW)))
  run.extra["invariant"] = inv.describe(hide=(X, NEW))
  # the invariant DESIGN.md names, read off the fixpoint
  carry = [v for v in ints if all(h.entails(v, K, 1) and h.entails(ZERO, v, 0)
                                  for h in ip.heads.values())]
  run.ob(R1, q, "loop invariant: <carried bound> <= kept + 1 and >= 0",
         "some integer local carried around the loop is proved <= kept+1 and >= 0 at the loop "
         "head (fixpoint: %s)" % inv.describe(hide=(X, NEW)), bool(carry), fi=fn.fi, node=lp)
  run.ob(R1, q, "kept >= -1 at the loop head", "the ghost starts at -1 and is only ever set to a "
         "non-negative new indentation", inv.entails(ZERO, K, 1), fi=fn.fi, node=lp)
  kinds = {}
  for e in ends:
    dele = _deleted(ip, e)
    key = ("removed" if dele else "kept", "adjusted" if e.emitted else "unchanged")
    kinds.setdefault(key, []).append(e)
  for key in sorted(kinds):
    sts = kinds[key]
    label = "%s/%s page" % key
    if key[0] == "removed":
      run.ob(R3, q, "%s: no adjustment" % label, "a page that is being removed is not adjusted",
             key[1] == "unchanged", fi=fn.fi, node=lp)
      continue
    nv = NEW if key[1] == "adjusted" else X
    run.ob(R1, q, "%s: new indentation <= kept + 1" % label,
           "at most one level below the previous page that stays (<= 0 for the first)",
           all(s.d.entails(nv, K, 1) for s in sts), fi=fn.fi, node=lp)
    run.ob(R1, q, "%s: new indentation >= 0" % label, "with the bound above, the first page that "
           "stays is at level 0", all(s.d.entails(ZERO, nv, 0) for s in sts), fi=fn.fi, node=lp)
    run.ob(R2, q, "%s: new indentation <= old indentation" % label, "a page is never made deeper",
           all(s.d.entails(nv, X, 0) for s in sts), fi=fn.fi, node=lp)
    if key[1] == "adjusted":
      run.ob(R3, q, "%s: adjusted value != current value" % label,
             "an adjustment changes something", all(s.d.entails(NEW, X, -1) or
                                                    s.d.entails(X, NEW, -1) for s in sts),
             fi=fn.fi, node=lp)
      run.ob(R3, q, "%s: one adjustment per page" % label, "a page is adjusted at most once",
             all(s.emitted == 1 for s in sts), fi=fn.fi, node=lp)
  if (("kept", "adjusted") not in kinds or ("kept", "unchanged") not in kinds) and \
      all(o.ok for o in run.obs):
    raise AnalysisError("fix_indents: the analysis found no path that %s a page that stays"
                        % ("adjusts" if ("kept", "adjusted") not in kinds else "leaves alone"))
  for (c, idx) in ip.emissions:
    run.ob(R3, q, short(c), "the adjustment is recorded under the id of the page it was computed "
           "for, as (id, new indentation)", text(idx) == "%s.id" % ip.item, fi=fn.fi, node=c)
  if ip.yields:
    run.ob(R3, q, "fix_indents returns list(%s(..))" % fn.fi.name, "the list returned is the "
           "list of adjustments the generator yields", fn is not fn0, fi=fn.fi)
  else:
    rv = ip.view.alias_root(ret.value)
    run.ob(R3, q, "return %s" % ip.listvar, "the list returned is the list of adjustments",
           isinstance(rv, ast.Name) and rv.id == ip.listvar, fi=fn.fi, node=ret)
  r4_caller(run, w, ip)


KEEP = ("_removePageRecords",)


def _orders_by_page_pos(w, fn, kf):
  """True when the sort key maps a page to its pagePos: a lambda, a function (module-level or
  local) whose body is `return <arg>.pagePos`, or operator.attrgetter('pagePos'). False for a
  key that reads something else, None when the key cannot be read."""
  if isinstance(kf, ast.Lambda) and len(kf.args.args) == 1:
    return text(kf.body) == "%s.pagePos" % kf.args.args[0].arg
  if isinstance(kf, ast.Call) and endswith(dotted(kf.func), "attrgetter") and \
      len(kf.args) == 1 and isinstance(kf.args[0], ast.Constant):
    return kf.args[0].value == "pagePos"
  if isinstance(kf, ast.Name):
    cand = w.repo.funcs.get(fn.qualname + "." + kf.id) or fn.fi.module.functions.get(kf.id)
    if cand is not None and len(cand.params()) == 1:
      body = [b for b in cand.node.body
              if not (isinstance(b, ast.Expr) and isinstance(b.value, ast.Constant))]
      if len(body) == 1 and isinstance(body[0], ast.Return) and body[0].value is not None:
        return text(body[0].value) == "%s.pagePos" % cand.params()[0]
  return None


def _by_position(v, call, roles):
  """{role: argument} for the first len(roles) parameters of the callee, however they are
  passed."""
  out = {}
  for i, r in enumerate(roles):
    a = v.arg(call, i)
    if a is not None:
      out[r] = a
  return out


def r4_caller(run, w, ip):
  R4 = run.rule("C36-R4", "_removePageRecords fixes indentations of all pages in page order "
                "before removing, with (id, indentation) in the producer's order", floor=5)
  callers = []
  for fi in w.repo.all_functions():
    fn = w.fn_of(fi)
    for (n, c, nm) in fn.calls():
      if endswith(nm, "treeview.fix_indents"):
        callers.append(fi)
  if len(callers) != 1:
    raise AnalysisError("%d callers of treeview.fix_indents (one expected)" % len(callers))
  fn = H.xfn(w, callers[0].qualname, keep=KEEP)
  v = H.View(fn)
  run = H.Guarded(run, v, keep=KEEP)
  n, c = [(n, c) for (n, c, nm) in fn.calls() if endswith(nm, "treeview.fix_indents")][0]
  q = fn.qualname
  cfg = fn.cfg
  ps = fn.fi.params()      # self, table_id, row_ids
  fx = w.repo.func("treeview.fix_indents").params()
  b = H.bind_args(c, fx) or {}
  ok = len(b) == 2 and v.t(b[fx[1]]) == ps[2] and \
      v.reaching(ps[2], n.id) == frozenset([v.ENTRY])
  run.ob(R4, q, "treeview.fix_indents(<pages>, %s)" % ps[2], "the ids being removed are the "
         "removal set of the fix", ok, fi=fn.fi, node=c)
  pages = v.alias_root(b[fx[0]]) if fx[0] in b else None
  src_ok = sort_ok = False
  if isinstance(pages, ast.Name):
    sites = [d for d, names in v._gens().items() if pages.id in names]
    if len(sites) == 1:
      val = v._plain_value(pages.id, sites[0])
      vt_ = v.t(val, at=sites[0]) if val is not None else ""
      all_recs = "self._engine.tables[%s].filter_records()" % ps[1]
      forms = ("list(%s)" % all_recs, "sorted(%s, key=lambda p: p.pagePos)" % all_recs,
               "[_p for _p in %s]" % all_recs)
      if isinstance(val, ast.ListComp) and len(val.generators) == 1 and \
          isinstance(val.generators[0].target, ast.Name):
        vt_ = text(H._Renamer({val.generators[0].target.id: "_p"}).visit(
          v.x(val, at=sites[0])))
      if isinstance(val, ast.Call) and dotted(val.func) == "sorted" and len(val.args) == 1:
        k_ = [kw.value for kw in val.keywords if kw.arg == "key"]
        r_ = [kw.value for kw in val.keywords if kw.arg == "reverse"]
        by = _orders_by_page_pos(w, fn, v.res(k_[0])) if len(k_) == 1 else False
        if by is None:
          raise AnalysisError("%s: cannot read the sort key %s" % (q, short(k_[0])))
        if by and v.t(val.args[0], at=sites[0]) == all_recs and \
            all(isinstance(r, ast.Constant) and not r.value for r in r_):
          vt_ = forms[1]
      src_ok = val is not None and cfg.dominated_by(n.id, {sites[0]}) and vt_ in forms
      if not src_ok and all_recs in vt_:
        raise AnalysisError("%s: the page list is built from all page records in a form the "
                            "rule does not read: %s" % (q, short(val)))
      if src_ok and vt_.startswith("sorted("):
        sort_ok = True
    sorts = set()
    for (m, c2, nm) in fn.calls():
      if isinstance(c2.func, ast.Attribute) and c2.func.attr == "sort" and \
          isinstance(v.alias_root(c2.func.value), ast.Name) and \
          v.alias_root(c2.func.value).id == pages.id and not c2.args:
        k = [kw.value for kw in c2.keywords if kw.arg == "key"]
        rev = [kw.value for kw in c2.keywords if kw.arg == "reverse"]
        kf = v.res(k[0]) if len(k) == 1 else None
        by_pos = _orders_by_page_pos(w, fn, kf) if kf is not None else False
        if by_pos is None:
          raise AnalysisError("%s: cannot read the sort key %s" % (q, short(kf)))
        if by_pos and all(isinstance(r, ast.Constant) and not r.value for r in rev):
          sorts.add(m.id)
    others = {m for m in v.du.muts.get(pages.id, set()) if m not in sorts}
    if sorts and cfg.dominated_by(n.id, sorts) and not (cfg.reach_after(sorts) & others & \
                                                        cfg.reach({n.id}, forward=False)):
      sort_ok = True
  run.ob(R4, q, "<pages> = list(tables[%s].filter_records())" % ps[1],
         "every page of the document takes part (a page left out would not be fixed)", src_ok,
         fi=fn.fi)
  run.ob(R4, q, "<pages>.sort(key=lambda p: p.pagePos)", "pages are examined in the "
         "order they are displayed", sort_ok, fi=fn.fi)
  fixes_t = v.t(c)
  upd = [(m, c2) for (m, c2, nm) in fn.calls() if endswith(nm, "self.doBulkUpdateRecord")]
  rem = [(m, c2) for (m, c2, nm) in fn.calls() if endswith(nm, "self.doBulkRemoveRecord")]
  ok = False
  if len(upd) == 1:
    ub = _by_position(v, upd[0][1], ("table_id", "row_ids", "columns"))

    def comp_index(e):
      """k when e is [f[k] for f in <fixes>] (or the equivalent loop)"""
      try:
        cc = v.collection(e) if e is not None else None
      except AnalysisError:
        cc = None
      if cc is None or cc.conds or cc.kind != "list" or cc.iter_text != fixes_t:
        return None
      for k in (0, 1):
        if cc.value in ("_v0[%d]" % k, "_v0_%d" % k):
          return k
      return None

    vals = v.res(ub.get("columns")) if ub.get("columns") is not None else None
    ind = None
    if isinstance(vals, ast.Dict) and len(vals.keys) == 1 and \
        isinstance(vals.keys[0], ast.Constant) and vals.keys[0].value == "indentation":
      ind = comp_index(vals.values[0])
    ok = len(ub) == 3 and v.t(ub["table_id"]) == ps[1] and comp_index(ub["row_ids"]) == 0 and \
        ind == 1
  run.ob(R4, q, "doBulkUpdateRecord(%s, [f[0] for f in fixes], {'indentation': [f[1] ...]})"
         % ps[1], "element 0 of each fix is the row id and element 1 its new indentation, the "
         "order fix_indents appends them in", ok, fi=fn.fi)
  ok = len(upd) == 1 and len(rem) == 1
  if ok:
    rb = _by_position(v, rem[0][1], ("table_id", "row_ids"))
    ok = rem[0][0].id in cfg.reach_after({upd[0][0].id}) and \
        upd[0][0].id not in cfg.reach_after({rem[0][0].id}) and \
        cfg.dominated_by(cfg.exit.id, {rem[0][0].id}) and \
        cfg.dominated_by(rem[0][0].id, {n.id}) and \
        [v.t(rb.get("table_id")), v.t(rb.get("row_ids"))] == [ps[1], ps[2]]
  run.ob(R4, q, "fixes applied, then doBulkRemoveRecord(%s, %s) on every path" % (ps[1], ps[2]),
         "the pages that stay are fixed while the removed pages are still there to be seen, and "
         "the removal always happens", ok, fi=fn.fi)
  # the update is skipped only when there is nothing to fix
  g = v.facts_at(upd[0][1]) if len(upd) == 1 else None
  run.ob(R4, q, "if <fixes>: <apply>", "the fixes are applied whenever there are any",
         g is not None and g <= {(fixes_t, True), H.canon_atom("len(%s) > 0" % fixes_t),
                                 H.canon_atom("len(%s) == 0" % fixes_t, False),
                                 ("len(%s)" % fixes_t, True)}, fi=fn.fi)


TV = "sandbox/grist/treeview.py"
U = "sandbox/grist/useractions.py"
VARIANTS = [
  ("child-level-after-removed-page", TV,
   "    max_next_indent = indent if is_deleted else indent + 1",
   "    max_next_indent = indent + 1", "C36-R1"),
  ("two-levels-allowed", TV, "    max_next_indent = indent if is_deleted else indent + 1",
   "    max_next_indent = indent if is_deleted else indent + 2", "C36-R1"),
  ("first-page-may-be-indented", TV, "  max_next_indent = 0\n", "  max_next_indent = 1\n",
   "C36-R1"),
  ("bound-from-old-indentation", TV, "    max_next_indent = indent if is_deleted else indent + 1",
   "    max_next_indent = indent if is_deleted else item.indentation + 1", "C36-R1"),
  ("max-instead-of-min", TV, "    indent = min(max_next_indent, item.indentation)",
   "    indent = max(max_next_indent, item.indentation)", "C36-R2"),
  ("always-at-bound", TV, "    indent = min(max_next_indent, item.indentation)",
   "    indent = max_next_indent", "C36-R2"),
  ("adjust-removed-pages-too", TV, "    if indent != item.indentation and not is_deleted:",
   "    if indent != item.indentation:", "C36-R3"),
  ("adjust-even-when-equal", TV, "    if indent != item.indentation and not is_deleted:",
   "    if not is_deleted:", "C36-R3"),
  ("adjustment-never-recorded-when-needed", TV,
   "    if indent != item.indentation and not is_deleted:",
   "    if indent > item.indentation and not is_deleted:", "C36-R1"),
  ("seeded-next-page-capped-at-vacated-level-alone", TV,
   "  max_next_indent = 0\n"
   "  adjustments = []\n"
   "  for item in items:\n"
   "    indent = min(max_next_indent, item.indentation)\n"
   "    is_deleted = item.id in deleted_ids\n"
   "    if indent != item.indentation and not is_deleted:\n"
   "      adjustments.append((item.id, indent))\n"
   "    max_next_indent = indent if is_deleted else indent + 1\n",
   "  max_next_indent = 0\n"
   "  vacated_indent = None\n"
   "  adjustments = []\n"
   "  for item in items:\n"
   "    if item.id in deleted_ids:\n"
   "      if vacated_indent is None or item.indentation < vacated_indent:\n"
   "        vacated_indent = item.indentation\n"
   "      continue\n"
   "    if vacated_indent is not None:\n"
   "      max_next_indent, vacated_indent = vacated_indent, None\n"
   "    indent = min(max_next_indent, item.indentation)\n"
   "    if indent != item.indentation:\n"
   "      adjustments.append((item.id, indent))\n"
   "    max_next_indent = indent + 1\n", "C36-R1"),
  ("seeded-scan-stops-once-removed-pages-are-passed", TV,
   "    if indent != item.indentation and not is_deleted:\n"
   "      adjustments.append((item.id, indent))\n",
   "    if is_deleted:\n"
   "      pass\n"
   "    elif indent != item.indentation:\n"
   "      adjustments.append((item.id, indent))\n"
   "    elif item.indentation == 0:\n"
   "      break\n", "C36-R1"),
  ("adjustment-under-wrong-id", TV, "      adjustments.append((item.id, indent))",
   "      adjustments.append((indent, item.id))", "C36-R3"),
  ("fixes-applied-after-removal", U,
   "    fixes = treeview.fix_indents(all_pages, row_ids)\n",
   "    self.doBulkRemoveRecord(table_id, row_ids)\n"
   "    fixes = treeview.fix_indents(all_pages, row_ids)\n", "C36-R4"),
  ("fix-elements-swapped", U, "      fixed_row_ids = [f[0] for f in fixes]\n"
   "      fixed_indentation = [f[1] for f in fixes]\n",
   "      fixed_row_ids = [f[1] for f in fixes]\n      fixed_indentation = [f[0] for f in fixes]\n",
   "C36-R4"),
  ("pages-not-sorted", U, "    all_pages.sort(key=lambda p: p.pagePos)\n", "", "C36-R4"),
  ("fix-for-other-ids", U, "    fixes = treeview.fix_indents(all_pages, row_ids)",
   "    fixes = treeview.fix_indents(all_pages, [])", "C36-R4"),
]
