"""Helpers shared by the rule modules C08, C09, C10, C23, C26, C28, C31 (pure syntax; nothing is run)."""
import ast
from ..index import AnalysisError, dotted
from ..astutil import text, short, endswith, calls_in, walk_no_nested, names_loaded
from .. import events as E
from .. import types as T


class RuleAlias(object):
  """Adapter around a Run that records the obligations of a rule function written for another
  property under this property's rule id (e.g. C05-R5 -> C10-R3) without editing that module."""
  def __init__(self, run, mapping, world=None):
    self._run = run
    self._map = dict(mapping)
    self._world = world

  def _id(self, rid):
    return self._map.get(rid, rid)

  def rule(self, rule_id, desc, floor=None):
    return self._run.rule(self._id(rule_id), desc, floor)

  def ob(self, rule, *a, **k):
    # other groups' rule functions may tag an obligation missing=True: it fails because the
    # mechanism was not found at all (as opposed to found and seen broken). Not found in a
    # function that hands work to helpers the rule did not read is "cannot decide".
    missing = bool(k.pop("missing", False))
    ok = a[3] if len(a) > 3 else k.get("ok")
    if missing and not ok and self._world is not None:
      w = self._world
      fi = w.repo.funcs.get(a[0]) if a else None
      if fi is not None:
        fn = w.fn_of(fi)
        import re as _re
        toks = {t for t in _re.findall(r"[A-Za-z_][A-Za-z_0-9]*", str(a[1])) if "_" in t.strip("_")
                or t.startswith("_")}
        def relevant(h):
          return any((isinstance(x, ast.Attribute) and x.attr in toks) or
                     (isinstance(x, ast.Name) and x.id in toks) for x in ast.walk(h.node))
        opaque = [short(c, 50) for (n, c, nm) in fn.calls()
                  if local_callee(w, fn, c) is not None and
                  is_private_part(w, local_callee(w, fn, c)) == (True, fi.qualname) and
                  relevant(local_callee(w, fn, c))]
        if opaque:
          raise AnalysisError("%s: `%s` not found in the function itself, which calls %s"
                              % (a[0], str(a[1])[:70], opaque[0]))
    return self._run.ob(self._id(rule), *a, **k)

  def __getattr__(self, name):
    return getattr(self._run, name)


# --------------------------------------------------------------------------------- small syntax
def strip_wrappers(e, names=("sorted", "list", "tuple", "iter", "reversed")):
  """Peel order/container wrappers that keep every element: sorted(X, key=...) -> X."""
  while isinstance(e, ast.Call) and dotted(e.func) in names and len(e.args) >= 1:
    e = e.args[0]
  return e


def strip_bool(e):
  if isinstance(e, ast.Call) and dotted(e.func) == "bool" and len(e.args) == 1 and not e.keywords:
    return e.args[0]
  return e


def kwarg(call, name):
  for k in call.keywords:
    if k.arg == name:
      return k.value
  return None


def arg_of(call, fi, pname, skip_self=True):
  """The expression bound to parameter `pname` of callee `fi` at `call` (positional or keyword),
  or the parameter's default expression, or None when neither exists."""
  a = fi.node.args
  params = [x.arg for x in a.posonlyargs + a.args]
  if skip_self and params[:1] == ["self"]:
    params = params[1:]
  if any(isinstance(x, ast.Starred) for x in call.args) or any(k.arg is None for k in call.keywords):
    raise AnalysisError("call %s uses */** arguments; cannot bind %s" % (short(call), pname))
  if pname in params:
    i = params.index(pname)
    if i < len(call.args):
      return call.args[i]
  v = kwarg(call, pname)
  if v is not None:
    return v
  allp = [x.arg for x in a.posonlyargs + a.args]
  defaults = a.defaults
  if pname in allp:
    j = allp.index(pname) - (len(allp) - len(defaults))
    if 0 <= j < len(defaults):
      return defaults[j]
  for kp, kd in zip(a.kwonlyargs, a.kw_defaults):
    if kp.arg == pname:
      return kd
  return None


def const_value(e):
  """(True, value) for a literal constant expression, else (False, None)."""
  if isinstance(e, ast.Constant):
    return True, e.value
  return False, None


def stmts_under(stmts):
  """All statements lexically inside the given statement list (any depth, not nested defs)."""
  out = []
  def go(ss):
    for s in ss:
      out.append(s)
      if isinstance(s, (ast.FunctionDef, ast.AsyncFunctionDef, ast.ClassDef)):
        continue
      for fld in ("body", "orelse", "finalbody"):
        b = getattr(s, fld, None)
        if isinstance(b, list):
          go(b)
      for h in getattr(s, "handlers", []) or []:
        go(h.body)
  go(stmts)
  return out


def nodes_of_stmts(cfg, stmts):
  """CFG node ids whose statement is one of the given statements (all finally-copies included)."""
  ids = set(id(s) for s in stmts)
  return {n.id for n in cfg.nodes if n.stmt is not None and id(n.stmt) in ids}


def node_of_expr(cfg, expr):
  """ids of CFG nodes that evaluate the given expression object."""
  out = set()
  for n in cfg.nodes:
    for e in n.exprs:
      if e is None:
        continue
      if e is expr or any(x is expr for x in ast.walk(e)):
        out.add(n.id)
        break
  return out


def guards_of(fnode, target):
  """[(If/While/For/With/Try stmt, field)] enclosing `target` inside fnode, outermost first."""
  from ..astutil import enclosing_chain
  return enclosing_chain(fnode, target)


def stmt_of(fnode, target):
  """The innermost statement of fnode (not in nested defs) that contains expression `target`."""
  best = None
  for s in stmts_under(fnode.body):
    if isinstance(s, (ast.FunctionDef, ast.AsyncFunctionDef, ast.ClassDef)):
      continue
    hdr = []
    if isinstance(s, (ast.If, ast.While)):
      hdr = [s.test]
    elif isinstance(s, (ast.For, ast.AsyncFor)):
      hdr = [s.iter, s.target]
    elif isinstance(s, (ast.With, ast.AsyncWith)):
      hdr = [i.context_expr for i in s.items]
    elif isinstance(s, ast.Try):
      hdr = []
    else:
      hdr = [s]
    for h in hdr:
      if any(x is target for x in ast.walk(h)):
        best = s
  if best is None:
    raise AnalysisError("expression %s not found in %s" % (short(target), fnode.name))
  return best


def inside_with(fnode, target, suffix):
  """True when `target` (a statement or an expression inside one) is lexically inside a `with`
  block of fnode one of whose context managers is a call to <...>.<suffix>()."""
  st = target if isinstance(target, ast.stmt) else stmt_of(fnode, target)
  for (s, fld) in guards_of(fnode, st):
    if isinstance(s, (ast.With, ast.AsyncWith)) and fld == "body":
      for it in s.items:
        ce = it.context_expr
        if isinstance(ce, ast.Name):
          ds = E.local_defs(fnode, ce.id)
          ce = ds[0] if len(ds) == 1 else ce
        if isinstance(ce, ast.Call) and endswith(dotted(ce.func), suffix):
          return True
  return False


def unrebound_at(fn, du, name, node_id):
  """True when local/parameter `name` still holds its entry value at node `node_id`: no node that
  rebinds it can reach node_id."""
  reb = du.rebinders(name)
  if not reb:
    return True
  if node_id in reb and fn.cfg.nodes[node_id].kind in ("for", "with"):
    return False
  return node_id not in fn.cfg.reach_after(reb)


def single_def(fn, name):
  """The unique assigned value of local `name` in fn, else None."""
  ds = E.local_defs(fn.node, name)
  return ds[0] if len(ds) == 1 else None


# ------------------------------------------------------------------------------- gateway calls
def gateway_names(w):
  """(name of the strict gateway, names of all gateways incl. wrappers), the gateway being found
  by role when it was renamed: the UserActions method that appends its argument to
  out_actions.stored and hands it to apply_doc_action; wrappers are methods returning a call of
  it. Cached on the World."""
  got = w.__dict__.get("_hB_gateways")
  if got is not None:
    return got
  def role(fi):
    attrs = [x for x in ast.walk(fi.node) if isinstance(x, ast.Attribute)]
    return len(fi.params()) == 2 and any(x.attr == "apply_doc_action" for x in attrs) and \
        any(x.attr == "append" and isinstance(x.value, ast.Attribute) and
            x.value.attr == "stored" for x in attrs)
  try:
    gw = find_by_role(w, "useractions.UserActions", "_do_doc_action", role, "doc action gateway")
    strict = gw.name
  except AnalysisError:
    strict = "_do_doc_action"
  names = {strict, "_do_doc_action", "_do_extra_doc_action"}
  ci = w.repo.classes.get("useractions.UserActions")
  if ci is not None:
    for f in ci.methods.values():
      if len(f.params()) == 2 and f.name != strict:
        rets = [r.value for r in ast.walk(f.node) if isinstance(r, ast.Return)]
        if rets and all(isinstance(r, ast.Call) and isinstance(r.func, ast.Attribute) and
                        r.func.attr == strict for r in rets):
          names.add(f.name)
  w.__dict__["_hB_gateways"] = (strict, names)
  return (strict, names)


def is_strict_gateway(w, c, nm, fn):
  return E.is_strict_gateway_call(c, nm, fn) or endswith(nm, gateway_names(w)[0])


def is_gateway(w, c, nm, fn):
  return E.is_gateway_call(c, nm, fn) or (isinstance(c.func, (ast.Attribute, ast.Name)) and
                                          endswith(nm, *gateway_names(w)[1]))


def gateway_sites(fn):
  """[(cfg node, Call)] for calls of the strict gateway (_do_doc_action) in fn."""
  out = []
  for (n, c, nm) in fn.calls():
    if is_strict_gateway(fn.world, c, nm, fn):
      c = norm(fn.world, fn, c)
      if c.args:
        out.append((n, c))
  return out


def action_names_in(expr, names):
  """Action type names referenced (constructed or named) anywhere inside expr."""
  out = set()
  for x in ast.walk(expr):
    d = None
    if isinstance(x, ast.Attribute):
      d = dotted(x)
      if d is not None and d.startswith("actions.") and d.count(".") == 1 and x.attr in names:
        out.add(x.attr)
  return out


def action_kinds_of_arg(fn, du, arg, names):
  """Action type names the gateway argument may be: those constructed in the argument itself or
  in any local statement feeding it (backward slice)."""
  r = E.action_ctor(arg, names)
  if r:
    return {r[0]}
  out = set(action_names_in(arg, names))
  for nid in du.backward_slice([arg]):
    for e in fn.cfg.nodes[nid].exprs:
      if e is not None:
        out |= action_names_in(e, names)
  return out


# Producers of gateway arguments that are not action constructors written in the same function,
# one reason each.
OPAQUE_PRODUCERS = {
  "action_from_repr": "raw path: ApplyDocActions/ApplyUndoActions replay actions given as data",
  "recalc_from_reverse_values": "returns a BulkUpdateRecord for the reverse column, or None",
}
# A function that is itself a gateway (events.is_gateway_call names it) may forward its own
# parameter: what it is handed is decided at its call sites, which are gateway sites themselves.
GATEWAY_WRAPPERS = ("_do_extra_doc_action",)
FORWARDED = "<parameter of a gateway wrapper>"


def classify_gateway_arg(fn, du, call, names):
  """(kinds, opaque producer or None) for a gateway call: the action type names its argument may
  be, or the enumerated producer call it comes from. Anything else cannot be classified."""
  arg = call.args[0]
  kinds = action_kinds_of_arg(fn, du, arg, names)
  # the wrapper's own parameter handed on unchanged (possibly through plain copies)
  forwarded = False
  if (fn.fi.name in GATEWAY_WRAPPERS or
      fn.fi.name in gateway_names(fn.world)[1] - {gateway_names(fn.world)[0]}) and \
      isinstance(arg, ast.Name):
    n_ = arg
    while isinstance(alias_value(fn, n_.id), ast.Name):
      n_ = alias_value(fn, n_.id)
    ps_ = fn.fi.params()
    forwarded = n_.id in ps_[1:] and not E.local_defs(fn.node, n_.id)
  if kinds:
    return kinds, None
  if forwarded:
    return set(), FORWARDED
  cands = [arg]
  if isinstance(arg, ast.Name):
    cands = E.local_defs(fn.node, arg.id)
  prods = set()
  for v in cands:
    if isinstance(v, ast.Call):
      d = fn.name(v) or dotted(v.func) or (v.func.attr if isinstance(v.func, ast.Attribute)
                                           else None)
      last = d.split(".")[-1] if d else None
      if last in OPAQUE_PRODUCERS:
        prods.add(last)
        continue
    prods.add(None)
  if len(prods) == 1 and None not in prods:
    return set(), prods.pop()
  raise AnalysisError("%s: gateway argument %s is neither built from an action constructor in "
                      "this function nor produced by an enumerated source"
                      % (fn.qualname, short(arg)))


# ------------------------------------------------------------------- metadata tables and handles
def docmodel_handles(w):
  """{attribute of DocModel: metadata table id} read from DocModel.update_tables."""
  fn = w.fn("docmodel.DocModel.update_tables")
  out = {}
  for s in fn.node.body:
    if isinstance(s, ast.Assign) and len(s.targets) == 1 and isinstance(s.targets[0], ast.Attribute) \
        and isinstance(s.targets[0].value, ast.Name) and s.targets[0].value.id == "self" and \
        isinstance(s.value, ast.Call) and isinstance(s.value.func, ast.Attribute) and \
        isinstance(s.value.func.value, ast.Name) and s.value.func.value.id == "self" and \
        len(s.value.args) + len(s.value.keywords) == 1:
      # self.<handle> = self.<prepare>('<metadata table id>')  (the preparing method is found by
      # this shape, not by its name)
      a = (list(s.value.args) + [k.value for k in s.value.keywords])[0]
      if isinstance(a, ast.Constant) and isinstance(a.value, str) and \
          a.value.startswith("_grist_"):
        out[s.targets[0].attr] = a.value
  if len(out) < 5:
    raise AnalysisError("DocModel.update_tables: table handles not recognised")
  return out


def record_accessors(w):
  """{parent table: {accessor: (child table, child field, kind)}} read from the members of the
  inner classes of MetaTableExtras built by _record_set/_record_ref_list_set/_record_inverse."""
  if getattr(w, "_hB_accessors", None) is not None:
    return w._hB_accessors
  ci = w.repo.cls("docmodel.MetaTableExtras")
  out = {}
  def factory_kind(name):
    """which of the accessor factories a module-level function of docmodel is, by what the
    accessor it builds does (its name is only a hint): lookupRecords by the child's field ->
    '_record_set', with CONTAINS -> '_record_ref_list_set', lookupOne -> '_record_inverse'."""
    f = w.repo.funcs.get("docmodel.%s" % name) if name else None
    if f is None:
      return None
    attrs = {x.attr for x in ast.walk(f.node) if isinstance(x, ast.Attribute)}
    if "lookupOne" in attrs:
      return "_record_inverse"
    if "lookupRecords" in attrs:
      return "_record_ref_list_set" if "CONTAINS" in attrs else "_record_set"
    return None
  for name, inner in ci.inner.items():
    acc = {}
    for s in inner.node.body:
      if isinstance(s, ast.Assign) and len(s.targets) == 1 and isinstance(s.targets[0], ast.Name) \
          and isinstance(s.value, ast.Call) and factory_kind(dotted(s.value.func)) and \
          len(s.value.args) >= 2 and all(isinstance(a, ast.Constant) for a in s.value.args[:2]):
        acc[s.targets[0].id] = (s.value.args[0].value, s.value.args[1].value,
                                factory_kind(dotted(s.value.func)))
    out[name] = acc
  if not out:
    raise AnalysisError("MetaTableExtras: no inner classes found")
  w._hB_accessors = out
  return out


def meta_ref_columns(w):
  """{(table, column): type string} for the columns of the built-in tables declared in
  schema.schema_create_actions (make_column(<id>, <type>) inside actions.AddTable(<table>, [...]))."""
  if getattr(w, "_hB_metacols", None) is not None:
    return w._hB_metacols
  fn = w.fn("schema.schema_create_actions")
  out = {}
  for c in calls_in(fn.node):
    if endswith(dotted(c.func), "AddTable") and len(c.args) == 2 and \
        isinstance(c.args[0], ast.Constant) and isinstance(c.args[1], ast.List):
      for e in c.args[1].elts:
        if isinstance(e, ast.Call) and dotted(e.func) == "make_column" and len(e.args) >= 2 and \
            all(isinstance(a, ast.Constant) for a in e.args[:2]):
          out[(c.args[0].value, e.args[0].value)] = e.args[1].value
  if len(out) < 50:
    raise AnalysisError("schema_create_actions: built-in columns not recognised")
  w._hB_metacols = out
  return out


RECORD_SOURCES = {
  # DocModel method -> metadata table of the record it returns (read from the lookups they do)
  "get_table_rec": "_grist_Tables",
  "get_column_rec": "_grist_Tables_column",
}
HANDLE_RECORD_METHODS = ("lookupRecords", "lookupOne", "filter_records", "get_record")


def _accessor_child(w, parent_table, attr):
  """Child table of record-set accessor `attr`: on the known parent table, or -- when the parent
  is not known -- the table every MetaTableExtras class defining `attr` agrees on."""
  acc = record_accessors(w)
  if parent_table is not None:
    hit = acc.get(parent_table, {}).get(attr)
    return hit[0] if hit else None
  kids = {a[attr][0] for a in acc.values() if attr in a}
  return kids.pop() if len(kids) == 1 else None


def record_table_of(fn, expr, w, handles, depth=0, env=None, own_table=None):
  """Metadata table of the record(s) an expression denotes (a record, a list/generator of records,
  a record set), when it can be told from the code; else None. `env` maps comprehension variables
  to tables; own_table is the table an @override_action method is registered for."""
  env = env or {}
  if depth > 8:
    return None
  if isinstance(expr, ast.Name):
    if expr.id in env:
      return env[expr.id]
    ds = [d for d in E.local_defs(fn.node, expr.id) if not _empty_container(d)]
    # elements added in place (x.append(r) / x.add(r) / x.extend(rs)) and loop variables
    for x in walk_no_nested(fn.node):
      if isinstance(x, ast.Call) and isinstance(x.func, ast.Attribute) and \
          isinstance(x.func.value, ast.Name) and x.func.value.id == expr.id and \
          x.func.attr in ("append", "add", "extend") and len(x.args) == 1:
        ds.append(x.args[0])
      elif isinstance(x, (ast.For, ast.AsyncFor, ast.comprehension)) and \
          isinstance(x.target, ast.Name) and x.target.id == expr.id:
        ds.append(x.iter)
    if not ds:
      return None
    ts = {record_table_of(fn, d, w, handles, depth + 1, env, own_table) for d in ds}
    return ts.pop() if len(ts) == 1 else None
  if isinstance(expr, ast.Subscript):
    return record_table_of(fn, expr.value, w, handles, depth + 1, env, own_table)
  if isinstance(expr, (ast.List, ast.Tuple)) and expr.elts:
    ts = {record_table_of(fn, e, w, handles, depth + 1, env, own_table) for e in expr.elts}
    return ts.pop() if len(ts) == 1 else None
  if isinstance(expr, (ast.ListComp, ast.GeneratorExp, ast.SetComp)):
    env2 = dict(env)
    for g in expr.generators:
      t = record_table_of(fn, g.iter, w, handles, depth + 1, env2, own_table)
      tgt = g.target
      if isinstance(tgt, ast.Tuple) and len(tgt.elts) >= 2 and isinstance(g.iter, ast.Call) and \
          endswith(dotted(g.iter.func), "_bulk_action_iter"):
        tgt = tgt.elts[1]
      if isinstance(tgt, ast.Name):
        env2[tgt.id] = t
      else:
        for x in ast.walk(tgt):
          if isinstance(x, ast.Name):
            env2[x.id] = None
    return record_table_of(fn, expr.elt, w, handles, depth + 1, env2, own_table)
  if isinstance(expr, ast.BinOp) and isinstance(expr.op, ast.Add):
    ts = {record_table_of(fn, e, w, handles, depth + 1, env, own_table)
          for e in (expr.left, expr.right)}
    return ts.pop() if len(ts) == 1 else None
  if isinstance(expr, ast.Call):
    d = dotted(expr.func)
    if d in ("sorted", "list", "tuple", "reversed", "set") and expr.args:
      return record_table_of(fn, expr.args[0], w, handles, depth + 1, env, own_table)
    if endswith(d, "_bulk_action_iter") and expr.args:
      ok, v = const_value(expr.args[0])
      if ok:
        return v
      ps = fn.fi.params()
      if isinstance(expr.args[0], ast.Name) and len(ps) >= 2 and expr.args[0].id == ps[1]:
        return own_table
      return None
    if isinstance(expr.func, ast.Attribute):
      m = expr.func.attr
      recv = expr.func.value
      if fn.type_of(recv) == T.DOCMODEL:
        if m in RECORD_SOURCES:
          return RECORD_SOURCES[m]
        if m in ("add", "insert", "insert_after") and expr.args:
          return handle_table_of(fn, expr.args[0], w, handles, depth + 1)
      if m in HANDLE_RECORD_METHODS:
        # <docmodel handle>.lookupRecords(...) / <docmodel handle>.table.get_record(...)
        h = recv.value if isinstance(recv, ast.Attribute) and recv.attr == "table" else recv
        if isinstance(h, ast.Attribute) and fn.type_of(h.value) == T.DOCMODEL:
          return handles.get(h.attr)
    return None
  if isinstance(expr, ast.Attribute):
    # <docmodel handle>.all
    if expr.attr == "all" and isinstance(expr.value, ast.Attribute) and \
        fn.type_of(expr.value.value) == T.DOCMODEL:
      return handles.get(expr.value.attr)
    base = record_table_of(fn, expr.value, w, handles, depth + 1, env, own_table)
    kid = _accessor_child(w, base, expr.attr)
    if kid is not None:
      return kid
    if base is not None:
      typ = meta_ref_columns(w).get((base, expr.attr))
      if typ and typ.startswith(("Ref:", "RefList:")):
        return typ.split(":", 1)[1]
    return None
  return None


def handle_table_of(fn, expr, w, handles, depth=0):
  """Metadata table id denoted by the first argument of docmodel.add/insert: a DocModel handle
  (`self._docmodel.tables`) or a record-set accessor of a record (`table_rec.columns`)."""
  if isinstance(expr, ast.Attribute):
    if fn.type_of(expr.value) == T.DOCMODEL:
      return handles.get(expr.attr)
    rt = record_table_of(fn, expr.value, w, handles, depth + 1)
    return _accessor_child(w, rt, expr.attr)
  return None


def table_arg_value(fn, du, node_id, expr, own_table=None):
  """Table id a table argument denotes: a string literal, or the function's table_id parameter
  (bound by the @override_action decorator to own_table) while it still holds its entry value."""
  ok, v = const_value(expr)
  if ok and isinstance(v, str):
    return v
  if isinstance(expr, ast.Name):
    ps = fn.fi.params()
    if own_table is not None and len(ps) >= 2 and expr.id == ps[1] and \
        unrebound_at(fn, du, expr.id, node_id):
      return own_table
    if expr.id not in ps:
      d = single_def(fn, expr.id)       # a local naming a literal table id
      ok, v = const_value(d) if d is not None else (False, None)
      if ok and isinstance(v, str) and len(du.rebinders(expr.id)) == 1:
        return v
  return None


# ------------------------------------------------------------------ spelling-independent helpers
import copy as _copy


def _pure(e):
  """An expression with no side effect whose value does not depend on when it is evaluated
  relative to plain local code: names, attribute chains, constants, subscripts of those."""
  if isinstance(e, (ast.Name, ast.Constant)):
    return True
  if isinstance(e, ast.Attribute):
    return _pure(e.value)
  if isinstance(e, ast.Subscript):
    return _pure(e.value) and _pure(e.slice)
  if isinstance(e, ast.Tuple):
    return all(_pure(x) for x in e.elts)
  return False


def alias_value(fn, name, pure_only=True):
  """The expression a local stands for when it is bound exactly once in fn (a plain `name = expr`,
  not a parameter, loop/with/comprehension target or augmented assignment), else None."""
  if name in fn.fi.params() or name in ("self", "cls"):
    return None
  ds = E.local_defs(fn.node, name)
  if len(ds) != 1:
    return None
  nb = 0
  for x in walk_no_nested(fn.node):
    if isinstance(x, ast.Name) and x.id == name and isinstance(x.ctx, (ast.Store, ast.Del)):
      nb += 1
  if nb != 1:
    return None
  # the single binding must be a plain single-target assignment (not a tuple element)
  for x in walk_no_nested(fn.node):
    if isinstance(x, ast.Assign) and x.value is ds[0]:
      if not (len(x.targets) == 1 and isinstance(x.targets[0], ast.Name)):
        return None
  if pure_only and not _pure(ds[0]):
    return None
  return ds[0]


def expand(fn, e, depth=0, pure_only=True, stop=()):
  """Copy of expression e with single-assignment locals replaced by what they stand for
  (recursively), so that `x = a.b; f(x.c)` and `f(a.b.c)` compare equal."""
  if e is None:
    return None
  class Tr(ast.NodeTransformer):
    def visit_Name(self, node):
      if isinstance(node.ctx, ast.Load) and depth < 6 and node.id not in stop:
        v = alias_value(fn, node.id, pure_only)
        if v is not None and not any(isinstance(y, ast.Name) and y.id == node.id
                                     for y in ast.walk(v)):
          return expand(fn, v, depth + 1, pure_only, stop)
      return node
    def visit_Lambda(self, node):
      return node
  return Tr().visit(_copy.deepcopy(e))


def canon(fn, e, pure_only=True, stop=()):
  """Normalised text of e with local aliases expanded (names in `stop` are kept)."""
  return text(expand(fn, e, pure_only=pure_only, stop=stop)) if e is not None else None


def deref(fn, e, depth=0):
  """Follow a Name to the expression of its single binding (any expression, not only pure ones),
  repeatedly; other expressions are returned unchanged."""
  while isinstance(e, ast.Name) and depth < 6:
    v = alias_value(fn, e.id, pure_only=False)
    if v is None:
      break
    e = v
    depth += 1
  return e


def post_calls(exprs):
  """Call nodes of the given expressions in evaluation (post-) order; nested defs and lambdas are
  not entered."""
  out = []
  def go(n):
    for ch in ast.iter_child_nodes(n):
      if isinstance(ch, (ast.FunctionDef, ast.AsyncFunctionDef, ast.ClassDef, ast.Lambda)):
        continue
      go(ch)
    if isinstance(n, ast.Call):
      out.append(n)
  for e in exprs:
    if e is not None:
      go(e)
  return out


def self_method(w, fn, call):
  """FuncInfo of the method a `self.<name>(...)` call of fn resolves to in fn's own class (or an
  ancestor), else None."""
  if fn.fi.cls is None or not isinstance(call.func, ast.Attribute):
    return None
  v = call.func.value
  if not (isinstance(v, ast.Name) and v.id == "self"):
    nm = fn.name(call)
    if not (nm and nm.startswith("self.") and nm.count(".") == 1):
      return None
  return w.repo.find_method(fn.fi.cls, call.func.attr)


def module_function(w, fn, call):
  """FuncInfo of a plain `name(...)` call that resolves to a function of fn's own module."""
  if not isinstance(call.func, ast.Name):
    return None
  return w.repo.funcs.get("%s.%s" % (fn.fi.module.name, call.func.id))


def local_callee(w, fn, call):
  """Same-class method or same-module function a call resolves to, else None."""
  return self_method(w, fn, call) or module_function(w, fn, call)


def always_nodes(w, fn, pred, depth=2, cfg=None, _stack=()):
  """ids of nodes of fn that certainly perform the event: a call satisfying pred(call, name, fn),
  or a call of a same-class / same-module helper every normal path of which performs it (followed
  `depth` levels)."""
  cfg = cfg or fn.cfg
  out = set()
  for (n, c, nm) in fn.calls(cfg):
    if pred(c, nm, fn):
      out.add(n.id)
    elif depth > 0:
      fi = local_callee(w, fn, c)
      if fi is not None and fi.qualname not in _stack and fi.qualname != fn.qualname:
        h = w.fn_of(fi)
        inner = always_nodes(w, h, pred, depth - 1, None, _stack + (fn.qualname,))
        if inner and h.cfg.dominated_by(h.cfg.exit.id, inner):
          out.add(n.id)
  return out


def may_nodes(w, fn, pred, depth=2, cfg=None, _stack=()):
  """ids of nodes of fn that may perform the event, directly or inside a same-class / same-module
  helper (followed `depth` levels)."""
  cfg = cfg or fn.cfg
  out = set()
  for (n, c, nm) in fn.calls(cfg):
    if pred(c, nm, fn):
      out.add(n.id)
    elif depth > 0:
      fi = local_callee(w, fn, c)
      if fi is not None and fi.qualname not in _stack and fi.qualname != fn.qualname:
        h = w.fn_of(fi)
        if may_nodes(w, h, pred, depth - 1, None, _stack + (fn.qualname,)):
          out.add(n.id)
  return out


class ReachDefs(object):
  """Reaching definitions of locals over fn's normal CFG. A definition is a CFG node that
  (re)binds the name (DefUse.defs); "ENTRY" stands for the value the name has on entry (a
  parameter). In-place mutations (x.append, x[k] = v) are not definitions: they do not kill."""
  ENTRY = "ENTRY"

  def __init__(self, fn, du, cfg=None):
    self.fn = fn
    self.du = du
    self.cfg = cfg or fn.cfg
    self._cache = {}

  def _from(self, name, start):
    key = (name, start)
    if key in self._cache:
      return self._cache[key]
    D = self.du.defs.get(name, set())
    cfg = self.cfg
    seen = set()
    first = [cfg.entry.id] if start == self.ENTRY else list(cfg.succ[start])
    todo = list(first)
    while todo:
      x = todo.pop()
      if x in seen:
        continue
      seen.add(x)
      if x in D:
        continue            # a later binding: reached (it may read the name), not passed
      todo.extend(cfg.succ[x])
    self._cache[key] = seen
    return seen

  def reaching(self, name, node_id):
    """Definitions of `name` whose value a read at node_id may see."""
    out = set()
    for d in self.du.defs.get(name, set()):
      if node_id in self._from(name, d):
        out.add(d)
    if node_id in self._from(name, self.ENTRY):
      out.add(self.ENTRY)
    return out


def taint(fn, du, rd, seeds, stop=()):
  """Set of (name, def) pairs whose value is computed from one of the seed (name, def) pairs,
  propagated through local bindings (and in-place mutations, which add to the mutated name's
  reaching definitions). Definitions made at `stop` nodes are not tainted (e.g. the node whose
  result is the translated value)."""
  cfg = rd.cfg
  tainted = set(seeds)
  stop = set(stop)
  changed = True
  while changed:
    changed = False
    for n in cfg.nodes:
      if n.stmt is None or n.id in stop:
        continue
      loads = set()
      for e in n.exprs:
        if e is not None:
          loads |= names_loaded(e)
      hot = any((x, d) in tainted for x in loads for d in rd.reaching(x, n.id))
      if not hot:
        continue
      targets = {nm for nm, ds in du.defs.items() if n.id in ds} | \
          {nm for nm, ms in du.muts.items() if n.id in ms}
      for nm in targets:
        if nm in du.defs and n.id in du.defs[nm]:
          if (nm, n.id) not in tainted:
            tainted.add((nm, n.id))
            changed = True
        else:
          # mutation: every definition of nm reaching here now carries the taint
          for d in rd.reaching(nm, n.id):
            if (nm, d) not in tainted:
              tainted.add((nm, d))
              changed = True
  return tainted


def def_value(cfg, d):
  """The value expression of a plain `name = value` binding made at CFG node d, else None."""
  if d == ReachDefs.ENTRY:
    return None
  n = cfg.nodes[d]
  if n.kind == "stmt" and isinstance(n.stmt, ast.Assign) and len(n.stmt.targets) == 1 and \
      isinstance(n.stmt.targets[0], ast.Name):
    return n.stmt.value
  if n.kind == "stmt" and isinstance(n.stmt, ast.AnnAssign) and isinstance(n.stmt.target, ast.Name):
    return n.stmt.value
  return None


def whole_of(fn, rd, e, at, is_base, wrappers=("list", "tuple"), depth=0):
  """True when expression e, read at CFG node `at`, denotes every element of a base collection
  (through copies: list(x), x[:], [f(r) for r in x] without a filter, and locals bound to those);
  False when it is recognisably something else (a part, a filtered copy, another value); None
  when it cannot be told. is_base(name, def) / is_base(expr) identify the base."""
  if depth > 8:
    return None
  if is_base(e, None):
    return True
  if isinstance(e, ast.Name):
    ds = rd.reaching(e.id, at)
    if not ds:
      return None
    verdicts = []
    for d in ds:
      if is_base(e.id, d):
        verdicts.append(True)
        continue
      v = def_value(rd.cfg, d)
      if v is None:
        verdicts.append(False if d == ReachDefs.ENTRY else None)
      elif _empty_container(v) and len(ds) == 1 and rd.du.muts.get(e.id):
        comp = loop_as_comprehension(fn, rd.du, rd, e.id, at)
        verdicts.append(None if comp is None else
                        whole_of(fn, rd, comp, comp._loop_node, is_base, wrappers, depth + 1))
      else:
        verdicts.append(whole_of(fn, rd, v, d, is_base, wrappers, depth + 1))
    if all(x is True for x in verdicts):
      return True
    return False if any(x is False for x in verdicts) else None
  if isinstance(e, ast.Call) and dotted(e.func) in wrappers and len(e.args) == 1 and not e.keywords:
    return whole_of(fn, rd, e.args[0], at, is_base, wrappers, depth + 1)
  if isinstance(e, ast.Call) and isinstance(e.func, ast.Attribute) and e.func.attr == "copy" and \
      not e.args:
    return whole_of(fn, rd, e.func.value, at, is_base, wrappers, depth + 1)
  if isinstance(e, ast.Subscript):
    if isinstance(e.slice, ast.Slice) and e.slice.lower is None and e.slice.upper is None and \
        e.slice.step is None:
      return whole_of(fn, rd, e.value, at, is_base, wrappers, depth + 1)
    return False
  if isinstance(e, (ast.ListComp, ast.GeneratorExp, ast.SetComp)):
    if len(e.generators) != 1:
      return False
    g = e.generators[0]
    if g.ifs:
      return False
    tgt = text(g.target)
    el = e.elt
    if isinstance(el, ast.Call) and dotted(el.func) == "int" and len(el.args) == 1:
      el = el.args[0]
    if text(el) != tgt:
      return False
    return whole_of(fn, rd, g.iter, at, is_base, wrappers, depth + 1)
  if isinstance(e, (ast.BinOp, ast.Constant, ast.List, ast.Tuple, ast.Set, ast.IfExp)):
    return False
  return None


def action_arg(call, names, kind, i):
  """The i-th field of a doc action constructor call (positional or by the field's name), or None.
  `kind` may be 'A/B' for a class chosen between action types with the same leading fields."""
  if any(isinstance(x, ast.Starred) for x in call.args) or any(k.arg is None for k in call.keywords):
    return None
  if i < len(call.args):
    return call.args[i]
  for k in kind.split("/"):
    fields = names.get(k) or []
    if i < len(fields):
      v = kwarg(call, fields[i])
      if v is not None:
        return v
  return None


def action_nargs(call):
  return len(call.args) + len(call.keywords)


# ------------------------------------------------------------- values through locals and loops
def _empty_container(e):
  """'list' / 'set' / 'dict' when e builds an empty container, else None."""
  if isinstance(e, ast.List) and not e.elts:
    return "list"
  if isinstance(e, ast.Dict) and not e.keys:
    return "dict"
  if isinstance(e, ast.Call) and not e.args and not e.keywords and \
      dotted(e.func) in ("list", "set", "dict", "OrderedDict", "collections.OrderedDict"):
    return {"OrderedDict": "dict", "collections.OrderedDict": "dict"}.get(dotted(e.func),
                                                                          dotted(e.func))
  return None


def _subst(e, env):
  """Copy of e with the names of env replaced by their expressions."""
  class Tr(ast.NodeTransformer):
    def visit_Name(self, node):
      if isinstance(node.ctx, ast.Load) and node.id in env:
        return _copy.deepcopy(env[node.id])
      return node
  return Tr().visit(_copy.deepcopy(e))


def loop_as_comprehension(fn, du, rd, name, at):
  """When local `name`, read at node `at`, was built as
        name = [] / set() / {}
        for T in IT:  [if C:]  name.append(E) / name.add(E) / name[K] = V
  (nothing else writes it; an `if C: name.append(E1) else: name.append(E2)` counts as appending
  `E1 if C else E2`), the equivalent ListComp / SetComp / DictComp node, else None. Simple
  temporaries assigned in the loop body just before the write are substituted."""
  cfg = rd.cfg
  ds = rd.reaching(name, at)
  if len(ds) != 1:
    return None
  d0 = next(iter(ds))
  v0 = def_value(cfg, d0)
  kind = _empty_container(v0) if v0 is not None else None
  if kind is None:
    return None
  muts = {m for m in du.muts.get(name, set()) if m in cfg.reach_after({d0})}
  if not muts:
    return None
  # all writes sit in one `for` loop (not nested in another loop inside it)
  loop = None
  for m in muts:
    chain = enclosing_chain_of(fn, cfg.nodes[m].stmt)
    loops = [s for (s, f) in chain if isinstance(s, (ast.For, ast.While))]
    if len(loops) != 1 or not isinstance(loops[0], ast.For) or loops[0].orelse or \
        (loop is not None and loops[0] is not loop):
      return None
    loop = loops[0]
  lnode = [n for n in cfg.nodes if n.kind == "for" and n.stmt is loop]
  if not lnode or not cfg.dominated_by(lnode[0].id, {d0}) or at in nodes_of_stmts(
      cfg, stmts_under(loop.body)) or at == lnode[0].id:
    return None
  mut_stmts = [cfg.nodes[m].stmt for m in muts]

  def write_of(s, env):
    """(key or None, value) written by statement s, else None."""
    if isinstance(s, ast.Expr) and isinstance(s.value, ast.Call) and \
        isinstance(s.value.func, ast.Attribute) and isinstance(s.value.func.value, ast.Name) and \
        s.value.func.value.id == name and len(s.value.args) == 1 and not s.value.keywords:
      meth = s.value.func.attr
      if (kind == "list" and meth == "append") or (kind == "set" and meth == "add"):
        return (None, _subst(s.value.args[0], env))
    if isinstance(s, ast.Assign) and len(s.targets) == 1 and \
        isinstance(s.targets[0], ast.Subscript) and isinstance(s.targets[0].value, ast.Name) and \
        s.targets[0].value.id == name and kind == "dict":
      return (_subst(s.targets[0].slice, env), _subst(s.value, env))
    return None

  def skip_cond(s):
    """condition under which `if ...: [if ...:] continue` skips the rest of the iteration"""
    if isinstance(s, ast.If) and not s.orelse and len(s.body) == 1:
      if isinstance(s.body[0], ast.Continue):
        return s.test
      inner = skip_cond(s.body[0])
      if inner is not None:
        return ast.BoolOp(op=ast.And(), values=[s.test, inner])
    return None

  def block(stmts, env, allow_filter):
    """(filters, key or None, value) for a statement block that performs exactly one write on
    every path through it (filters: tests under which nothing is written), else None."""
    env = dict(env)
    skips = []
    for i, s in enumerate(stmts):
      last = i == len(stmts) - 1
      sk = skip_cond(s) if (allow_filter and not last) else None
      if sk is not None:
        skips.append(ast.UnaryOp(op=ast.Not(), operand=_subst(sk, env)))
        continue
      if isinstance(s, ast.Assign) and len(s.targets) == 1 and isinstance(s.targets[0], ast.Name) \
          and s.targets[0].id != name and not calls_in(s.value) and not last:
        env[s.targets[0].id] = _subst(s.value, env)
        continue
      if not last:
        return None
      w_ = write_of(s, env)
      if w_ is not None:
        return (skips, w_[0], w_[1])
      if skips and isinstance(s, ast.If) and s.orelse:
        return None
      if isinstance(s, ast.If):
        test = _subst(s.test, env)
        if not s.orelse:
          if not allow_filter:
            return None
          inner = block(s.body, env, True)
          return None if inner is None else (skips + [test] + inner[0], inner[1], inner[2])
        b1, b2 = block(s.body, env, False), block(s.orelse, env, False)
        if b1 is None or b2 is None or (b1[1] is None) != (b2[1] is None):
          return None
        val = ast.IfExp(test=test, body=b1[2], orelse=b2[2])
        key = None if b1[1] is None else (
          b1[1] if text(b1[1]) == text(b2[1]) else ast.IfExp(test=test, body=b1[1], orelse=b2[1]))
        return ([], key, val)
      return None
    return None

  res = block(loop.body, {}, True)
  if res is None:
    return None
  # every write of the name is one of those accounted for
  seen = {id(x) for x in ast.walk(loop)}
  if not all(id(ms) in seen for ms in mut_stmts):
    return None
  ifs, key, val = res
  gen = ast.comprehension(target=loop.target, iter=loop.iter, ifs=ifs, is_async=0)
  if kind == "list":
    out = ast.ListComp(elt=val, generators=[gen])
  elif kind == "set":
    out = ast.SetComp(elt=val, generators=[gen])
  else:
    out = ast.DictComp(key=key, value=val, generators=[gen])
  ast.copy_location(out, loop)
  ast.fix_missing_locations(out)
  out._loop = loop
  out._loop_node = lnode[0].id
  return out


def enclosing_chain_of(fn, stmt):
  from ..astutil import enclosing_chain
  return enclosing_chain(fn.node, stmt)


def resolve(fn, du, rd, e, at, depth=0):
  """What expression e, read at CFG node `at`, stands for: a local with one reaching plain binding
  is replaced by the bound expression (repeatedly), a local built by an accumulating loop by the
  equivalent comprehension. Returns (expression, node at which it is evaluated)."""
  while isinstance(e, ast.Name) and depth < 8:
    depth += 1
    ds = rd.reaching(e.id, at)
    if len(ds) != 1:
      break
    d = next(iter(ds))
    v = def_value(rd.cfg, d)
    if v is None:
      break
    comp = loop_as_comprehension(fn, du, rd, e.id, at) if _empty_container(v) else None
    if comp is not None:
      return comp, comp._loop_node
    if du.muts.get(e.id) and _empty_container(v):
      break
    e, at = v, d
  return e, at


def return_values(fn, du, rd):
  """[(return node, resolved returned expression or None, node where it is evaluated)]."""
  out = []
  for n in rd.cfg.nodes:
    if n.kind == "return":
      if n.stmt.value is None:
        out.append((n, None, n.id))
      else:
        e, at = resolve(fn, du, rd, n.stmt.value, n.id)
        out.append((n, e, at))
  return out


# ------------------------------------------------------------------------------ guards by role
def loop_heads_around(fn, cfg, stmt):
  """ids of the CFG loop-header nodes of the loops lexically enclosing stmt."""
  from ..astutil import enclosing_chain
  ls = [s for (s, f) in enclosing_chain(fn.node, stmt) if isinstance(s, (ast.For, ast.While))]
  return {n.id for n in cfg.nodes if n.kind in ("for", "while") and any(n.stmt is s for s in ls)}


def _reach_cut_edges(cfg, starts, cut_edges, removed=()):
  """Nodes reachable from `starts` without crossing an edge of cut_edges or entering `removed`."""
  removed = set(removed)
  seen = set(s for s in starts if s not in removed)
  todo = list(seen)
  while todo:
    a = todo.pop()
    for b in cfg.succ[a]:
      if (a, b) in cut_edges or b in seen or b in removed:
        continue
      seen.add(b)
      todo.append(b)
  return seen


def eval3(test, atom_value):
  """Three-valued truth of a test given atom_value(expr) -> True / False / None for its atoms."""
  if isinstance(test, ast.UnaryOp) and isinstance(test.op, ast.Not):
    v = eval3(test.operand, atom_value)
    return None if v is None else (not v)
  if isinstance(test, ast.BoolOp):
    vs = [eval3(v, atom_value) for v in test.values]
    if isinstance(test.op, ast.And):
      if any(v is False for v in vs):
        return False
      return True if all(v is True for v in vs) else None
    if any(v is True for v in vs):
      return True
    return False if all(v is False for v in vs) else None
  if isinstance(test, ast.Constant):
    return bool(test.value)
  return atom_value(test)


def impossible_edges(cfg, atom_value):
  """Branch edges of `if` nodes that cannot be taken when the atoms have the given values."""
  out = set()
  for n in cfg.nodes:
    if n.kind != "if" or n.id not in cfg.if_true:
      continue
    v = eval3(n.stmt.test, atom_value)
    if v is None:
      continue
    t_succ = cfg.if_true[n.id]
    exc = cfg.if_exc.get(n.id, set())
    f_succ = set(cfg.succ[n.id]) - t_succ - exc
    out |= {(n.id, s) for s in (f_succ if v else t_succ)}
  return out


def reach_assuming(cfg, starts, atom_value, removed=()):
  """Nodes reachable from starts on paths consistent with the assumed atom values."""
  return _reach_cut_edges(cfg, set(starts), impossible_edges(cfg, atom_value), removed)


def test_atoms(test):
  """Leaf expressions of a test after peeling not / and / or."""
  out = []
  def go(e):
    if isinstance(e, ast.UnaryOp) and isinstance(e.op, ast.Not):
      go(e.operand)
    elif isinstance(e, ast.BoolOp):
      for v in e.values:
        go(v)
    else:
      out.append(e)
  go(test)
  return out


# ------------------------------------------------------------------- CFG with helpers spliced in
class InlinedCFG(object):
  """A CFG of fn in which calls of same-class private helpers / same-module functions (those for
  which select(FuncInfo) holds) are replaced by the helper's own CFG, so that path questions about
  attribute-level events (`self.x = ...`, `self.f()`) get the same answer whether a group of
  statements is written in place or extracted into a helper called at that point. Nodes keep
  their statements; `owner[node id]` is the Fn the statement is written in. Only nodes with
  exactly one such call, written as a statement of its own (`self.h(...)`, `x = self.h(...)`,
  `return self.h(...)`), are expanded; locals do not carry across the boundary, so rules must not
  compare local names of different owners."""

  def __init__(self, w, fn, exceptional=False, depth=2, select=None, _stack=()):
    from ..cfg import CFG, Node
    base = fn.xcfg if exceptional else fn.cfg
    c = CFG.__new__(CFG)
    c.fnode = base.fnode
    c.may_raise = base.may_raise
    c.nodes = [Node(n.id, n.kind, n.stmt, n.exprs) for n in base.nodes]
    c.succ = {k: set(v) for k, v in base.succ.items()}
    c.pred = {k: set(v) for k, v in base.pred.items()}
    c.exc_edges = set(base.exc_edges)
    c.if_true = {k: set(v) for k, v in base.if_true.items()}
    c.if_exc = {k: set(v) for k, v in base.if_exc.items()}
    c.entry, c.exit, c.raise_exit = c.nodes[base.entry.id], c.nodes[base.exit.id], \
        c.nodes[base.raise_exit.id]
    c._marking_exc = False
    c._implicit_srcs = set(getattr(base, "_implicit_srcs", ()))
    c._exc_pred_filter = None
    self.cfg = c
    self.owner = {n.id: fn for n in c.nodes}
    self.call_of = {}          # first node id of a spliced body -> id of the calling node
    self.spliced = {}          # calling node id -> set of node ids of the helper's body
    if depth <= 0:
      return
    for n in list(base.nodes):
      if n.kind not in ("stmt", "return") or n.stmt is None:
        continue
      s = n.stmt
      v = s.value if isinstance(s, (ast.Expr, ast.Assign, ast.Return)) else None
      if not isinstance(v, ast.Call):
        continue
      fi = local_callee(w, fn, v)
      if fi is None or fi.qualname == fn.qualname or fi.qualname in _stack:
        continue
      if select is not None and not select(fi):
        continue
      if any(isinstance(x, (ast.Yield, ast.YieldFrom)) for x in ast.walk(fi.node)):
        continue
      sub = InlinedCFG(w, w.fn_of(fi), exceptional, depth - 1, select, _stack + (fn.qualname,))
      self._splice(n.id, sub)

  def _splice(self, nid, sub):
    from ..cfg import Node
    c, h = self.cfg, sub.cfg
    m = {}
    for hn in h.nodes:
      if hn.id in (h.entry.id, h.exit.id, h.raise_exit.id):
        continue
      nn = Node(len(c.nodes), hn.kind if hn.kind != "return" else "return*", hn.stmt, hn.exprs)
      c.nodes.append(nn)
      c.succ[nn.id] = set()
      c.pred[nn.id] = set()
      m[hn.id] = nn.id
      self.owner[nn.id] = sub.owner[hn.id]
    normal_out = {t for t in c.succ[nid] if (nid, t) not in c.exc_edges}
    exc_out = {t for t in c.succ[nid] if (nid, t) in c.exc_edges}
    if c.nodes[nid].kind == "return":
      normal_out = {c.exit.id}
    for t in normal_out:
      c.succ[nid].discard(t)
      c.pred[t].discard(nid)
    def link(a, b, exc=False):
      c.succ[a].add(b)
      c.pred[b].add(a)
      if exc:
        c.exc_edges.add((a, b))
    for a in h.nodes:
      for b in h.succ[a.id]:
        is_exc = (a.id, b) in h.exc_edges
        srcs = [nid] if a.id == h.entry.id else ([m[a.id]] if a.id in m else [])
        for src in srcs:
          if b == h.exit.id:
            for t in normal_out:
              link(src, t)
          elif b == h.raise_exit.id:
            for t in (exc_out or {c.raise_exit.id}):
              link(src, t, exc=is_exc)
          elif b in m:
            link(src, m[b], exc=is_exc)
    for k, v in h.if_true.items():
      if k in m:
        c.if_true[m[k]] = {m[x] for x in v if x in m} | \
            (normal_out if h.exit.id in v else set())
    for k, v in h.if_exc.items():
      if k in m:
        c.if_exc[m[k]] = {m[x] for x in v if x in m}
    self.spliced[nid] = set(m.values())
    for k, v in sub.spliced.items():
      if k in m:
        self.spliced[m[k]] = {m[x] for x in v if x in m}

  def calls(self):
    """[(node, Call, dotted name expanded with the aliases of the function it is written in)]."""
    out = []
    for n in self.cfg.nodes:
      f = self.owner[n.id]
      for c in calls_in(n.exprs):
        out.append((n, c, f.name(c)))
    return out


def is_var(fn, e, name, depth=0):
  """Expression e is local/parameter `name`, or a local that is a plain copy of it."""
  if not isinstance(e, ast.Name) or depth > 6:
    return False
  if e.id == name:
    return True
  v = alias_value(fn, e.id, pure_only=True)
  return isinstance(v, ast.Name) and is_var(fn, v, name, depth + 1)


def nonempty_value(fn, e, name):
  """Truth value expression e has when collection local `name` is non-empty (True / False), for
  the spellings `name`, `len(name)`, `len(name) > 0`, `!= 0`, `>= 1`, `== 0`, `bool(name)`;
  None for anything else."""
  if isinstance(e, ast.Call) and dotted(e.func) == "bool" and len(e.args) == 1:
    return nonempty_value(fn, e.args[0], name)
  if is_var(fn, e, name):
    return True
  is_len = lambda x: isinstance(x, ast.Call) and dotted(x.func) == "len" and len(x.args) == 1 and \
      is_var(fn, x.args[0], name)
  if is_len(e):
    return True
  if isinstance(e, ast.Compare) and len(e.ops) == 1:
    l, r, op = e.left, e.comparators[0], e.ops[0]
    if is_len(r) and isinstance(l, ast.Constant):
      l, r = r, l
      op = {ast.Lt: ast.Gt, ast.Gt: ast.Lt, ast.LtE: ast.GtE, ast.GtE: ast.LtE}.get(type(op),
                                                                                   type(op))()
    if is_len(l) and isinstance(r, ast.Constant) and isinstance(r.value, int):
      k = r.value
      if (isinstance(op, (ast.Gt, ast.NotEq)) and k == 0) or (isinstance(op, ast.GtE) and k == 1):
        return True
      if (isinstance(op, ast.Eq) and k == 0) or (isinstance(op, ast.Lt) and k == 1) or \
          (isinstance(op, ast.LtE) and k == 0):
        return False
    if is_var(fn, l, name) and isinstance(r, (ast.List, ast.Tuple)) and not r.elts:
      if isinstance(op, ast.NotEq):
        return True
      if isinstance(op, ast.Eq):
        return False
  return None


# ---------------------------------------------------------------------- private helper closure
def referrers(w, fi):
  """[(FuncInfo of the referring function, is a `self.<name>(...)` call that resolves to fi)] for
  every mention of method fi's name as an attribute that can denote fi."""
  cache = w.__dict__.setdefault("_hB_refs", {})
  if fi.qualname in cache:
    return cache[fi.qualname]
  # index: attribute name -> functions mentioning it (built once)
  idx = w.__dict__.get("_hB_attr_index")
  if idx is None:
    idx = {}
    for g in w.repo.all_functions():
      for x in ast.walk(g.node):
        if isinstance(x, ast.Attribute):
          idx.setdefault(x.attr, set()).add(g.qualname)
    w.__dict__["_hB_attr_index"] = idx
  cache[fi.qualname] = out = _referrers(w, fi, idx.get(fi.name, ()))
  return out


def _referrers(w, fi, among):
  out = []
  for g in w.repo.all_functions():
    if g.qualname not in among:
      continue
    for x in ast.walk(g.node):
      if isinstance(x, ast.Attribute) and x.attr == fi.name:
        own = g.cls is not None and w.repo.find_method(g.cls, fi.name) is fi
        recv_self = isinstance(x.value, ast.Name) and x.value.id == "self"
        if recv_self and g.cls is not None and not own:
          continue          # another class's own method of the same name
        called = any(isinstance(c, ast.Call) and c.func is x for c in ast.walk(g.node))
        out.append((g, bool(own and recv_self and called)))
  return out


def private_helpers(w, roots):
  """Qualnames of the methods that are, in effect, parts of the root functions: same-class
  methods reached from a root through `self.<m>(...)` calls (transitively) every mention of which
  anywhere in the repository is such a call made by a root or by another such helper."""
  roots = set(roots)
  ua = set(f.qualname for f in w.useraction_methods().values())
  cand = {}
  todo = list(roots)
  seen = set()
  while todo:
    q = todo.pop()
    if q in seen:
      continue
    seen.add(q)
    fi = w.repo.funcs.get(q)
    if fi is None or fi.cls is None:
      continue
    fn = w.fn_of(fi)
    for (n, c, nm) in fn.calls():
      h = self_method(w, fn, c)
      if h is not None and h.qualname not in roots and h.qualname not in cand and \
          h.qualname not in ua and not h.name.startswith("__") and h.parent is None:
        cand[h.qualname] = h
        todo.append(h.qualname)
  refs = {q: [(g, ok) for (g, ok) in referrers(w, h)
              if g.qualname != q and (g.parent is None or g.parent.qualname != q)]
          for q, h in cand.items()}
  ok = set(cand)
  changed = True
  while changed:
    changed = False
    for q in list(ok):
      for (g, good) in refs[q]:
        gq = g.qualname if g.parent is None else g.parent.qualname
        if not good or not (gq in roots or gq in ok):
          ok.discard(q)
          changed = True
          break
  return ok


def bound_args(w, call, callee_qualname, n=None):
  """Expressions bound to the first n parameters (after self) of the named callee at `call`,
  positional or by keyword; None for parameters that are not given; None altogether when the call
  uses */** arguments."""
  fi = w.repo.funcs.get(callee_qualname)
  if fi is None:
    return None
  ps = fi.params()
  if ps[:1] in (["self"], ["cls"]):
    ps = ps[1:]
  if n is not None:
    ps = ps[:n]
  if any(isinstance(x, ast.Starred) for x in call.args) or any(k.arg is None for k in call.keywords):
    # **kwargs after the explicit arguments (docmodel.insert(recs, pos, **values)) is fine for the
    # leading parameters as long as those are given positionally
    if any(isinstance(x, ast.Starred) for x in call.args) or len(call.args) < len(ps):
      return None
  out = []
  for i, p in enumerate(ps):
    if i < len(call.args):
      out.append(call.args[i])
    else:
      out.append(kwarg(call, p))
  return out


def funnel_args(w, call):
  """(table expression, rows expression) of a doBulkRemoveRecord call, else (None, None)."""
  a = bound_args(w, call, "useractions.UserActions.doBulkRemoveRecord", 2)
  return (a[0], a[1]) if a and len(a) == 2 else (None, None)


# --------------------------------------------------------------- keyword-argument normalisation
def callee_of(w, fn, call):
  """FuncInfo a call resolves to: a method of fn's own class, a method of the receiver's class
  when the receiver is typed, a function of fn's module, or -- for an untyped receiver -- the one
  signature every method of that name in the repository shares. None when unknown."""
  fi = local_callee(w, fn, call)
  if fi is not None:
    return fi
  if isinstance(call.func, ast.Attribute):
    t = fn.type_of(call.func.value)
    ci = w.repo.classes.get(t) if t else None
    if ci is not None:
      m = w.repo.find_method(ci, call.func.attr)
      if m is not None:
        return m
    cands = [c.methods[call.func.attr] for c in w.repo.classes.values()
             if call.func.attr in c.methods]
    sigs = {tuple(f.params()) for f in cands}
    if cands and len(sigs) == 1:
      return cands[0]
  return None


def norm(w, fn, call):
  """The call with its keyword arguments moved to their positions (a new Call node sharing the
  argument expressions) when the callee is known and that is possible; else the call itself."""
  if not call.keywords or any(k.arg is None for k in call.keywords) or \
      any(isinstance(a, ast.Starred) for a in call.args):
    return call
  fi = callee_of(w, fn, call)
  if fi is None:
    return call
  ps = fi.params()
  if ps[:1] in (["self"], ["cls"]) and fi.cls is not None:
    ps = ps[1:]
  args = list(call.args)
  kws = {k.arg: k.value for k in call.keywords}
  for p in ps[len(args):]:
    if p in kws:
      args.append(kws.pop(p))
    else:
      break
  if kws:
    return call          # some keyword could not be placed (gap, or keyword-only parameter)
  new = ast.Call(func=call.func, args=args, keywords=[])
  ast.copy_location(new, call)
  new.end_lineno = getattr(call, "end_lineno", None)
  new.end_col_offset = getattr(call, "end_col_offset", None)
  return new


# ------------------------------------------------------------------ helpers read in place (AST)
def name_referrers(w, fi):
  """[(FuncInfo or None for module level, is a plain `name(...)` call)] for every mention of the
  module-level function fi by name in its own module, plus (None, False) for any attribute
  mention `<x>.<name>` elsewhere in the repository (another module may import and call it)."""
  out = []
  mod = fi.module
  def mentions(root):
    return [x for x in ast.walk(root) if isinstance(x, ast.Name) and x.id == fi.name and
            isinstance(x.ctx, ast.Load)]
  own = {id(x) for x in mentions(fi.node)}
  in_funcs = set()
  for g in w.repo.all_functions():
    if g.module is not mod or g.node is fi.node or g.parent is not None:
      continue              # nested functions are covered by the walk of their top-level parent
    calls = {id(c.func) for c in ast.walk(g.node) if isinstance(c, ast.Call)}
    for x in mentions(g.node):
      if id(x) in own:
        continue
      in_funcs.add(id(x))
      out.append((g, id(x) in calls))
  for x in mentions(mod.tree):
    if id(x) not in own and id(x) not in in_funcs:
      out.append((None, False))        # used at module level (decorator, table of functions, ...)
  for m in w.repo.modules.values():
    if m is mod:
      continue
    for x in ast.walk(m.tree):
      if isinstance(x, ast.Attribute) and x.attr == fi.name and \
          isinstance(x.value, ast.Name) and x.value.id == mod.name:
        out.append((None, False))
      elif isinstance(x, ast.ImportFrom) and x.module == mod.name and \
          any(a.name == fi.name for a in x.names):
        out.append((None, False))
  return out


def _inlinable_helper(w, fn, call, select):
  fi = self_method(w, fn, call) or module_function(w, fn, call)
  if fi is None or fi.qualname == fn.qualname or fi.parent is not None:
    return None
  if select is not None and not select(fi):
    return None
  node = fi.node
  if node.decorator_list or node.args.vararg or node.args.kwarg or node.args.kwonlyargs or \
      node.args.posonlyargs:
    return None
  for x in ast.walk(node):
    if isinstance(x, (ast.Yield, ast.YieldFrom, ast.Global, ast.Nonlocal)) or \
        (isinstance(x, (ast.FunctionDef, ast.AsyncFunctionDef, ast.ClassDef)) and x is not node):
      return None
  # `return` only as the last top-level statement
  rets = [x for x in ast.walk(node) if isinstance(x, ast.Return)]
  if len(rets) > 1 or (rets and rets[0] is not node.body[-1]):
    return None
  return fi


def inlined_fn(w, qualname, select=None, suffix="__h"):
  """An Fn for function `qualname` in which every statement `self._helper(...)` /
  `<name> = self._helper(...)` calling a private method of the same class (select(FuncInfo)) is
  replaced by the helper's body: parameters become fresh locals bound to the arguments, the
  helper's other locals are renamed apart, a final `return X` becomes `<name> = X`. The result
  behaves like the original, so a rule reading it decides the same property whether a group of
  statements is written in place or extracted into a helper called at that point. Helpers with
  early returns, nested functions, lambdas, generators or */** parameters are left as calls.
  Returns the ordinary Fn when nothing was inlined."""
  from ..fn import Fn
  from ..index import FuncInfo
  fn = w.fn(qualname)
  ua = set(f.qualname for f in w.useraction_methods().values())
  if select is None:
    # by default only helpers that exist for this one function: private, no user action, and every
    # mention of their name anywhere is a self.<name>(...) call made by this function
    def select(fi):
      if not fi.name.startswith("_") or fi.name.startswith("__") or fi.qualname in ua:
        return False
      if fi.cls is None:
        rs = name_referrers(w, fi)
        return bool(rs) and all(ok and g is not None and (
          g.qualname == qualname or (g.parent is not None and g.parent.qualname == qualname))
          for (g, ok) in rs)
      rs = referrers(w, fi)
      return bool(rs) and all(ok and (g.qualname == qualname or
                                      (g.parent is not None and g.parent.qualname == qualname))
                              for (g, ok) in rs)
  counter = [0]

  def expand_stmt(s):
    v = s.value if isinstance(s, (ast.Expr, ast.Assign)) else None
    if not isinstance(v, ast.Call):
      return None
    if isinstance(s, ast.Assign) and not (len(s.targets) == 1 and
                                          isinstance(s.targets[0], ast.Name)):
      return None
    hfi = _inlinable_helper(w, fn, v, select)
    if hfi is None:
      return None
    params = hfi.params()[1:] if hfi.cls is not None else hfi.params()
    try:
      args = [arg_of(v, hfi, p, skip_self=hfi.cls is not None) for p in params]
    except AnalysisError:
      return None
    if any(a is None for a in args):
      return None
    counter[0] += 1
    tag = "%s%d" % (suffix, counter[0])
    hnode = hfi.node
    stored = {x.id for x in ast.walk(hnode) if isinstance(x, ast.Name) and
              isinstance(x.ctx, (ast.Store, ast.Del))}
    stored |= {h.name for h in ast.walk(hnode) if isinstance(h, ast.ExceptHandler) and h.name}
    rename = {n: n + tag for n in stored | set(params)}
    class Ren(ast.NodeTransformer):
      shield = frozenset()
      def visit_Name(self, node):
        if node.id in rename and node.id not in self.shield:
          return ast.copy_location(ast.Name(id=rename[node.id], ctx=node.ctx), node)
        return node
      def visit_Lambda(self, node):
        # a lambda's own parameters are not the helper's locals
        own = {a.arg for a in ast.walk(node.args) if isinstance(a, ast.arg)}
        prev = self.shield
        self.shield = prev | own
        try:
          node.args = self.generic_visit(node.args)
          node.body = self.visit(node.body)
        finally:
          self.shield = prev
        return node
      def visit_ExceptHandler(self, node):
        self.generic_visit(node)
        if node.name in rename:
          node.name = rename[node.name]
        return node
    body = [Ren().visit(_copy.deepcopy(st)) for st in hnode.body]
    if body and isinstance(body[0], ast.Expr) and isinstance(body[0].value, ast.Constant) and \
        isinstance(body[0].value.value, str):
      body = body[1:]         # docstring
    out = []
    for p, a in zip(params, args):
      st = ast.Assign(targets=[ast.Name(id=rename[p], ctx=ast.Store())], value=a)
      out.append(ast.copy_location(st, s))
    if body and isinstance(body[-1], ast.Return):
      r = body.pop()
      if isinstance(s, ast.Assign):
        val = r.value if r.value is not None else ast.Constant(value=None)
        body.append(ast.copy_location(ast.Assign(targets=s.targets, value=val), r))
      elif r.value is not None:
        body.append(ast.copy_location(ast.Expr(value=r.value), r))
    elif isinstance(s, ast.Assign):
      body.append(ast.copy_location(ast.Assign(targets=s.targets,
                                               value=ast.Constant(value=None)), s))
    out.extend(body)
    if not out:
      out = [ast.copy_location(ast.Pass(), s)]
    for st in out:
      ast.fix_missing_locations(st)
    return out

  changed = [False]
  def walk_block(stmts):
    res = []
    for s in stmts:
      rep = expand_stmt(s)
      if rep is not None:
        changed[0] = True
        res.extend(rep)
        continue
      for fld in ("body", "orelse", "finalbody"):
        b = getattr(s, fld, None)
        if isinstance(b, list) and b and isinstance(b[0], ast.stmt) and \
            not isinstance(s, (ast.FunctionDef, ast.AsyncFunctionDef, ast.ClassDef)):
          setattr(s, fld, walk_block(b))
      for h in getattr(s, "handlers", []) or []:
        h.body = walk_block(h.body)
      res.append(s)
    return res

  node = _copy.deepcopy(fn.node)
  node.body = walk_block(node.body)
  if not changed[0]:
    return fn
  ast.fix_missing_locations(node)
  fi = fn.fi
  fake = FuncInfo(fi.module, fi.cls, node, fi.qualname, fi.parent)
  typer = w.typer
  saved = typer._cache.pop(fi.qualname, None)
  try:
    f2 = Fn(w, fake)
    f2._env = typer.env(fake)
  finally:
    typer._cache.pop(fi.qualname, None)
    if saved is not None:
      typer._cache[fi.qualname] = saved
  f2.inlined_from = fn
  return f2


def origin_defs(rd, name, at, depth=0):
  """Definition nodes the value of local `name` read at `at` originates from, looking through plain
  copies (`a = b`): the bindings that are not themselves a copy of another local."""
  out = set()
  if depth > 8:
    return out
  for d in rd.reaching(name, at):
    v = def_value(rd.cfg, d) if d != ReachDefs.ENTRY else None
    if isinstance(v, ast.Name):
      out |= origin_defs(rd, v.id, d, depth + 1)
    else:
      out.add(d)
  return out


# -------------------------------------------------- a World whose functions are keyword-normalised
class NormWorld(object):
  """Proxy of a World for running a rule written for positional arguments: fn()/fn_of() return Fn
  objects over copies of the function bodies in which keyword arguments of calls whose callee is
  known (same class, typed receiver, or one shared signature) have been moved to their positions.
  Passing an argument by keyword instead of by position does not change what a call does, so the
  rule decides the same property. Everything else is delegated to the real World."""

  def __init__(self, w, canonical=None):
    """canonical: {qualname the reused rule names: role(FuncInfo)} for private anchors of that
    rule; when such a function was renamed it is found by role and shown to the rule under the
    name it expects (definition and call sites in the normalised copies)."""
    self._w = w
    self._nfns = {}
    self._back = {}          # actual private name -> canonical name
    self._alias = {}         # canonical qualname -> actual FuncInfo
    for q, role in (canonical or {}).items():
      if w.repo.funcs.get(q) is None:
        owner, name = q.rsplit(".", 1)
        try:
          fi = find_by_role(w, owner, name, role, "anchor of a reused rule")
        except AnalysisError:
          continue
        self._back[fi.name] = name
        self._alias[q] = fi

  def __getattr__(self, name):
    return getattr(self._w, name)

  def fn(self, qualname):
    if qualname in self._alias:
      f = self.fn_of(self._alias[qualname])
      return f
    return self.fn_of(self._w.repo.func(qualname))

  def fn_of(self, fi):
    if fi.qualname in self._nfns:
      return self._nfns[fi.qualname]
    from ..fn import Fn
    from ..index import FuncInfo
    w = self._w
    base = w.fn_of(fi)
    node = _copy.deepcopy(fi.node)
    # resolve callees on the original nodes (types are computed for them), rewrite the copy
    orig_calls = [x for x in ast.walk(fi.node) if isinstance(x, ast.Call)]
    copy_calls = [x for x in ast.walk(node) if isinstance(x, ast.Call)]
    changed = False
    if len(orig_calls) == len(copy_calls):
      for oc, cc in zip(orig_calls, copy_calls):
        if not oc.keywords:
          continue
        n2 = norm(w, base, oc)
        if n2 is not oc:
          # same argument order, taken from the copy
          kws = {k.arg: k.value for k in cc.keywords}
          order = []
          for a in n2.args[len(oc.args):]:
            for k in oc.keywords:
              if k.value is a:
                order.append(k.arg)
          cc.args = list(cc.args) + [kws[k] for k in order]
          cc.keywords = []
          changed = True
    qual = fi.qualname
    if self._back:
      for x in ast.walk(node):
        if isinstance(x, ast.Attribute) and x.attr in self._back:
          x.attr = self._back[x.attr]
          changed = True
      if node.name in self._back:
        node.name = self._back[node.name]
        qual = fi.qualname.rsplit(".", 1)[0] + "." + node.name
        changed = True
    if not changed:
      self._nfns[fi.qualname] = base
      return base
    ast.fix_missing_locations(node)
    fake = FuncInfo(fi.module, fi.cls, node, qual, fi.parent)
    typer = w.typer
    saved = typer._cache.pop(fi.qualname, None)
    try:
      f2 = Fn(self, fake)
      f2._env = typer.env(fake)
    finally:
      typer._cache.pop(fi.qualname, None)
      if saved is not None:
        typer._cache[fi.qualname] = saved
    self._nfns[fi.qualname] = f2
    return f2


# ------------------------------------------------ "not found here" is not "not done" (round 2)
def hidden_in_callees(w, fn, pred, depth=3, cfg=None):
  """True when an event pred(call, name, fn) that fn does not perform itself may be performed
  inside a same-class / same-module function fn calls (followed `depth` levels): the rule then
  cannot say the mechanism is missing, only that it cannot see it."""
  cfg = cfg or fn.cfg
  for (n, c, nm) in fn.calls(cfg):
    if pred(c, nm, fn):
      continue
    fi = local_callee(w, fn, c)
    if fi is not None and fi.qualname != fn.qualname:
      if may_nodes(w, w.fn_of(fi), pred, depth - 1, None, (fn.qualname,)):
        return True
  return False


def mentions_in_reach(w, fn, node_pred, depth=3, _seen=None):
  """True when fn, or a same-class / same-module function it calls (depth levels), contains an
  AST node satisfying node_pred."""
  _seen = _seen if _seen is not None else set()
  if fn.qualname in _seen:
    return False
  _seen.add(fn.qualname)
  if any(node_pred(x) for x in ast.walk(fn.node)):
    return True
  if depth <= 0:
    return False
  for (n, c, nm) in fn.calls():
    fi = local_callee(w, fn, c)
    if fi is not None and mentions_in_reach(w, w.fn_of(fi), node_pred, depth - 1, _seen):
      return True
  return False


def is_private_part(w, fi):
  """fi is a private method/function used only through plain calls from one other function (an
  extracted part of it): (True, caller qualname) else (False, None)."""
  if not fi.name.startswith("_") or fi.name.startswith("__") or fi.parent is not None:
    return (False, None)
  rs = referrers(w, fi) if fi.cls is not None else name_referrers(w, fi)
  rs = [(g, ok) for (g, ok) in rs if g is None or g.qualname != fi.qualname]
  if not rs or not all(ok and g is not None for (g, ok) in rs):
    return (False, None)
  callers = {g.qualname if g.parent is None else g.parent.qualname for (g, ok) in rs}
  return (True, callers.pop()) if len(callers) == 1 else (False, None)


# ---------------------------------------------------------------- private anchors by role (round 3)
def find_by_role(w, owner, name_hint, role, what):
  """FuncInfo of a private anchor: the method `name_hint` of class `owner` (or function of module
  `owner`) when it still exists, else the one method of that class -- or function of its module,
  for a self-less method moved to module level (or the reverse) -- that satisfies role(FuncInfo):
  a renamed or moved private helper is followed, its name being only a hint."""
  ci = w.repo.classes.get(owner)
  mod = ci.module if ci is not None else w.repo.modules.get(owner)
  if ci is not None and name_hint in ci.methods:
    return ci.methods[name_hint]
  if mod is not None:
    f = w.repo.funcs.get("%s.%s" % (mod.name, name_hint))
    if f is not None:
      return f
  cands = []
  if ci is not None:
    for c in w.repo.mro(ci):
      cands += [f for f in c.methods.values()]
  if mod is not None:
    cands += [f for f in w.repo.all_functions() if f.module is mod and f.cls is None and
              f.parent is None]
  hits = []
  for f in cands:
    try:
      if role(f):
        hits.append(f)
    except AnalysisError:
      pass
  uniq = {f.qualname: f for f in hits}
  if len(uniq) == 1:
    return next(iter(uniq.values()))
  raise AnalysisError("%s: %s.%s no longer exists and %s found by what it does"
                      % (what, owner, name_hint,
                         "no replacement was" if not uniq else "several candidates were"))


def calls_to(w, fn, fi, cfg=None):
  """[(node, Call)] for the calls in fn that resolve to function fi (by resolution, or -- for an
  untyped receiver -- by its unique name)."""
  out = []
  for (n, c, nm) in fn.calls(cfg):
    t = local_callee(w, fn, c)
    if t is fi or (t is None and isinstance(c.func, ast.Attribute) and c.func.attr == fi.name
                   and callee_of(w, fn, c) is fi):
      out.append((n, c))
  return out


def engine_anchor(w, which):
  """Private Engine methods the rules about apply_user_actions refer to, found by role when the
  name no longer exists: 'recalc' (brings every dirty node up to date: no parameters, works off
  self.recompute_map), 'undo' (rollback: cuts out_actions.stored with `del ...stored[n:]`),
  'apply_one' (dispatches one user action: getattr(self.user_actions, <name>)(*args))."""
  E_ = "engine.Engine"
  def mentions_attr(fi, attr):
    return any(isinstance(x, ast.Attribute) and x.attr == attr for x in ast.walk(fi.node))
  if which == "recalc":
    def role(fi):
      if fi.params() != ["self"] or not mentions_attr(fi, "recompute_map"):
        return False
      # the one that apply_user_actions (or a private part of it) calls in the loop of the
      # auto-removal rounds
      for (g, ok) in referrers(w, fi):
        if not ok or not (g.qualname.startswith(E_ + ".apply_user_actions") or
                          is_private_part(w, g)[1] == E_ + ".apply_user_actions"):
          continue
        for lp in ast.walk(g.node):
          if isinstance(lp, (ast.While, ast.For)):
            attrs = {x.attr for x in ast.walk(lp) if isinstance(x, ast.Attribute)}
            if fi.name in attrs and "apply_auto_removes" in attrs:
              return True
      return False
    return find_by_role(w, E_, "_bring_all_up_to_date", role, "recalculation of all dirty nodes")
  if which == "undo":
    def role(fi):
      return any(isinstance(x, ast.Delete) and any(
        isinstance(t, ast.Subscript) and isinstance(t.value, ast.Attribute) and
        t.value.attr == "stored" for t in x.targets) for x in ast.walk(fi.node))
    return find_by_role(w, E_, "_undo_to_checkpoint", role, "rollback to a checkpoint")
  if which == "apply_one":
    def role(fi):
      for x in ast.walk(fi.node):
        if isinstance(x, ast.Call) and isinstance(x.func, ast.Call) and \
            dotted(x.func.func) == "getattr" and x.func.args and \
            endswith(dotted(x.func.args[0]), "user_actions"):
          return True
      return False
    try:
      return find_by_role(w, E_, "_apply_one_user_action", role, "dispatch of one user action")
    except AnalysisError:
      return None          # inlined into its caller: the dispatch itself is recognised there
  raise AnalysisError("unknown engine anchor %s" % which)
