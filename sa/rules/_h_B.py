"""Helpers shared by the rule modules C08, C09, C10, C23, C26, C28, C31 (pure syntax; nothing is run)."""
import ast
from ..index import AnalysisError, dotted
from ..astutil import text, short, endswith, calls_in, walk_no_nested, names_loaded
from .. import events as E
from .. import types as T


class RuleAlias(object):
  """Adapter around a Run that records the obligations of a rule function written for another
  property under this property's rule id (e.g. C05-R5 -> C10-R3) without editing that module."""
  def __init__(self, run, mapping):
    self._run = run
    self._map = dict(mapping)

  def _id(self, rid):
    return self._map.get(rid, rid)

  def rule(self, rule_id, desc, floor=None):
    return self._run.rule(self._id(rule_id), desc, floor)

  def ob(self, rule, *a, **k):
    return self._run.ob(self._id(rule), *a, **k)

  def __getattr__(self, name):
    return getattr(self._run, name)


# --------------------------------------------------------------------------------- small syntax
def strip_wrappers(e, names=("sorted", "list", "tuple", "iter", "reversed")):
  """Peel order/container wrappers that keep every element: sorted(X, key=...) -> X."""
  while isinstance(e, ast.Call) and dotted(e.func) in names and len(e.args) >= 1:
    e = e.args[0]
  return e


def strip_bool(e):
  if isinstance(e, ast.Call) and dotted(e.func) == "bool" and len(e.args) == 1 and not e.keywords:
    return e.args[0]
  return e


def kwarg(call, name):
  for k in call.keywords:
    if k.arg == name:
      return k.value
  return None


def arg_of(call, fi, pname, skip_self=True):
  """The expression bound to parameter `pname` of callee `fi` at `call` (positional or keyword),
  or the parameter's default expression, or None when neither exists."""
  a = fi.node.args
  params = [x.arg for x in a.posonlyargs + a.args]
  if skip_self and params[:1] == ["self"]:
    params = params[1:]
  if any(isinstance(x, ast.Starred) for x in call.args) or any(k.arg is None for k in call.keywords):
    raise AnalysisError("call %s uses */** arguments; cannot bind %s" % (short(call), pname))
  if pname in params:
    i = params.index(pname)
    if i < len(call.args):
      return call.args[i]
  v = kwarg(call, pname)
  if v is not None:
    return v
  allp = [x.arg for x in a.posonlyargs + a.args]
  defaults = a.defaults
  if pname in allp:
    j = allp.index(pname) - (len(allp) - len(defaults))
    if 0 <= j < len(defaults):
      return defaults[j]
  for kp, kd in zip(a.kwonlyargs, a.kw_defaults):
    if kp.arg == pname:
      return kd
  return None


def const_value(e):
  """(True, value) for a literal constant expression, else (False, None)."""
  if isinstance(e, ast.Constant):
    return True, e.value
  return False, None


def stmts_under(stmts):
  """All statements lexically inside the given statement list (any depth, not nested defs)."""
  out = []
  def go(ss):
    for s in ss:
      out.append(s)
      if isinstance(s, (ast.FunctionDef, ast.AsyncFunctionDef, ast.ClassDef)):
        continue
      for fld in ("body", "orelse", "finalbody"):
        b = getattr(s, fld, None)
        if isinstance(b, list):
          go(b)
      for h in getattr(s, "handlers", []) or []:
        go(h.body)
  go(stmts)
  return out


def nodes_of_stmts(cfg, stmts):
  """CFG node ids whose statement is one of the given statements (all finally-copies included)."""
  ids = set(id(s) for s in stmts)
  return {n.id for n in cfg.nodes if n.stmt is not None and id(n.stmt) in ids}


def node_of_expr(cfg, expr):
  """ids of CFG nodes that evaluate the given expression object."""
  out = set()
  for n in cfg.nodes:
    for e in n.exprs:
      if e is None:
        continue
      if e is expr or any(x is expr for x in ast.walk(e)):
        out.add(n.id)
        break
  return out


def guards_of(fnode, target):
  """[(If/While/For/With/Try stmt, field)] enclosing `target` inside fnode, outermost first."""
  from ..astutil import enclosing_chain
  return enclosing_chain(fnode, target)


def stmt_of(fnode, target):
  """The innermost statement of fnode (not in nested defs) that contains expression `target`."""
  best = None
  for s in stmts_under(fnode.body):
    if isinstance(s, (ast.FunctionDef, ast.AsyncFunctionDef, ast.ClassDef)):
      continue
    hdr = []
    if isinstance(s, (ast.If, ast.While)):
      hdr = [s.test]
    elif isinstance(s, (ast.For, ast.AsyncFor)):
      hdr = [s.iter, s.target]
    elif isinstance(s, (ast.With, ast.AsyncWith)):
      hdr = [i.context_expr for i in s.items]
    elif isinstance(s, ast.Try):
      hdr = []
    else:
      hdr = [s]
    for h in hdr:
      if any(x is target for x in ast.walk(h)):
        best = s
  if best is None:
    raise AnalysisError("expression %s not found in %s" % (short(target), fnode.name))
  return best


def inside_with(fnode, target, suffix):
  """True when `target` (a statement or an expression inside one) is lexically inside a `with`
  block of fnode one of whose context managers is a call to <...>.<suffix>()."""
  st = target if isinstance(target, ast.stmt) else stmt_of(fnode, target)
  for (s, fld) in guards_of(fnode, st):
    if isinstance(s, (ast.With, ast.AsyncWith)) and fld == "body":
      for it in s.items:
        ce = it.context_expr
        if isinstance(ce, ast.Name):
          ds = E.local_defs(fnode, ce.id)
          ce = ds[0] if len(ds) == 1 else ce
        if isinstance(ce, ast.Call) and endswith(dotted(ce.func), suffix):
          return True
  return False


def unrebound_at(fn, du, name, node_id):
  """True when local/parameter `name` still holds its entry value at node `node_id`: no node that
  rebinds it can reach node_id."""
  reb = du.rebinders(name)
  if not reb:
    return True
  if node_id in reb and fn.cfg.nodes[node_id].kind in ("for", "with"):
    return False
  return node_id not in fn.cfg.reach_after(reb)


def single_def(fn, name):
  """The unique assigned value of local `name` in fn, else None."""
  ds = E.local_defs(fn.node, name)
  return ds[0] if len(ds) == 1 else None


# ------------------------------------------------------------------------------- gateway calls
def gateway_sites(fn):
  """[(cfg node, Call)] for calls of the strict gateway (_do_doc_action) in fn."""
  return [(n, c) for (n, c, nm) in fn.calls() if E.is_strict_gateway_call(c, nm, fn) and c.args]


def action_names_in(expr, names):
  """Action type names referenced (constructed or named) anywhere inside expr."""
  out = set()
  for x in ast.walk(expr):
    d = None
    if isinstance(x, ast.Attribute):
      d = dotted(x)
      if d is not None and d.startswith("actions.") and d.count(".") == 1 and x.attr in names:
        out.add(x.attr)
  return out


def action_kinds_of_arg(fn, du, arg, names):
  """Action type names the gateway argument may be: those constructed in the argument itself or
  in any local statement feeding it (backward slice)."""
  r = E.action_ctor(arg, names)
  if r:
    return {r[0]}
  out = set(action_names_in(arg, names))
  for nid in du.backward_slice([arg]):
    for e in fn.cfg.nodes[nid].exprs:
      if e is not None:
        out |= action_names_in(e, names)
  return out


# Producers of gateway arguments that are not action constructors written in the same function,
# one reason each.
OPAQUE_PRODUCERS = {
  "action_from_repr": "raw path: ApplyDocActions/ApplyUndoActions replay actions given as data",
  "recalc_from_reverse_values": "returns a BulkUpdateRecord for the reverse column, or None",
}


def classify_gateway_arg(fn, du, call, names):
  """(kinds, opaque producer or None) for a gateway call: the action type names its argument may
  be, or the enumerated producer call it comes from. Anything else cannot be classified."""
  arg = call.args[0]
  kinds = action_kinds_of_arg(fn, du, arg, names)
  if kinds:
    return kinds, None
  cands = [arg]
  if isinstance(arg, ast.Name):
    cands = E.local_defs(fn.node, arg.id)
  prods = set()
  for v in cands:
    if isinstance(v, ast.Call):
      d = dotted(v.func) if dotted(v.func) else (v.func.attr if isinstance(v.func, ast.Attribute)
                                                 else None)
      last = d.split(".")[-1] if d else None
      if last in OPAQUE_PRODUCERS:
        prods.add(last)
        continue
    prods.add(None)
  if len(prods) == 1 and None not in prods:
    return set(), prods.pop()
  raise AnalysisError("%s: gateway argument %s is neither built from an action constructor in "
                      "this function nor produced by an enumerated source"
                      % (fn.qualname, short(arg)))


# ------------------------------------------------------------------- metadata tables and handles
def docmodel_handles(w):
  """{attribute of DocModel: metadata table id} read from DocModel.update_tables."""
  fn = w.fn("docmodel.DocModel.update_tables")
  out = {}
  for s in fn.node.body:
    if isinstance(s, ast.Assign) and len(s.targets) == 1 and isinstance(s.targets[0], ast.Attribute) \
        and isinstance(s.targets[0].value, ast.Name) and s.targets[0].value.id == "self" and \
        isinstance(s.value, ast.Call) and endswith(dotted(s.value.func), "_prep_table") and \
        len(s.value.args) == 1 and isinstance(s.value.args[0], ast.Constant):
      out[s.targets[0].attr] = s.value.args[0].value
  if len(out) < 5:
    raise AnalysisError("DocModel.update_tables: table handles not recognised")
  return out


def record_accessors(w):
  """{parent table: {accessor: (child table, child field, kind)}} read from the members of the
  inner classes of MetaTableExtras built by _record_set/_record_ref_list_set/_record_inverse."""
  if getattr(w, "_hB_accessors", None) is not None:
    return w._hB_accessors
  ci = w.repo.cls("docmodel.MetaTableExtras")
  out = {}
  for name, inner in ci.inner.items():
    acc = {}
    for s in inner.node.body:
      if isinstance(s, ast.Assign) and len(s.targets) == 1 and isinstance(s.targets[0], ast.Name) \
          and isinstance(s.value, ast.Call) and dotted(s.value.func) in (
            "_record_set", "_record_ref_list_set", "_record_inverse") and \
          len(s.value.args) >= 2 and all(isinstance(a, ast.Constant) for a in s.value.args[:2]):
        acc[s.targets[0].id] = (s.value.args[0].value, s.value.args[1].value, dotted(s.value.func))
    out[name] = acc
  if not out:
    raise AnalysisError("MetaTableExtras: no inner classes found")
  w._hB_accessors = out
  return out


def meta_ref_columns(w):
  """{(table, column): type string} for the columns of the built-in tables declared in
  schema.schema_create_actions (make_column(<id>, <type>) inside actions.AddTable(<table>, [...]))."""
  if getattr(w, "_hB_metacols", None) is not None:
    return w._hB_metacols
  fn = w.fn("schema.schema_create_actions")
  out = {}
  for c in calls_in(fn.node):
    if endswith(dotted(c.func), "AddTable") and len(c.args) == 2 and \
        isinstance(c.args[0], ast.Constant) and isinstance(c.args[1], ast.List):
      for e in c.args[1].elts:
        if isinstance(e, ast.Call) and dotted(e.func) == "make_column" and len(e.args) >= 2 and \
            all(isinstance(a, ast.Constant) for a in e.args[:2]):
          out[(c.args[0].value, e.args[0].value)] = e.args[1].value
  if len(out) < 50:
    raise AnalysisError("schema_create_actions: built-in columns not recognised")
  w._hB_metacols = out
  return out


RECORD_SOURCES = {
  # DocModel method -> metadata table of the record it returns (read from the lookups they do)
  "get_table_rec": "_grist_Tables",
  "get_column_rec": "_grist_Tables_column",
}
HANDLE_RECORD_METHODS = ("lookupRecords", "lookupOne", "filter_records", "get_record")


def _accessor_child(w, parent_table, attr):
  """Child table of record-set accessor `attr`: on the known parent table, or -- when the parent
  is not known -- the table every MetaTableExtras class defining `attr` agrees on."""
  acc = record_accessors(w)
  if parent_table is not None:
    hit = acc.get(parent_table, {}).get(attr)
    return hit[0] if hit else None
  kids = {a[attr][0] for a in acc.values() if attr in a}
  return kids.pop() if len(kids) == 1 else None


def record_table_of(fn, expr, w, handles, depth=0, env=None, own_table=None):
  """Metadata table of the record(s) an expression denotes (a record, a list/generator of records,
  a record set), when it can be told from the code; else None. `env` maps comprehension variables
  to tables; own_table is the table an @override_action method is registered for."""
  env = env or {}
  if depth > 8:
    return None
  if isinstance(expr, ast.Name):
    if expr.id in env:
      return env[expr.id]
    ds = E.local_defs(fn.node, expr.id)
    if not ds:
      return None
    ts = {record_table_of(fn, d, w, handles, depth + 1, env, own_table) for d in ds}
    return ts.pop() if len(ts) == 1 else None
  if isinstance(expr, ast.Subscript):
    return record_table_of(fn, expr.value, w, handles, depth + 1, env, own_table)
  if isinstance(expr, (ast.List, ast.Tuple)) and expr.elts:
    ts = {record_table_of(fn, e, w, handles, depth + 1, env, own_table) for e in expr.elts}
    return ts.pop() if len(ts) == 1 else None
  if isinstance(expr, (ast.ListComp, ast.GeneratorExp, ast.SetComp)):
    env2 = dict(env)
    for g in expr.generators:
      t = record_table_of(fn, g.iter, w, handles, depth + 1, env2, own_table)
      tgt = g.target
      if isinstance(tgt, ast.Tuple) and len(tgt.elts) >= 2 and isinstance(g.iter, ast.Call) and \
          endswith(dotted(g.iter.func), "_bulk_action_iter"):
        tgt = tgt.elts[1]
      if isinstance(tgt, ast.Name):
        env2[tgt.id] = t
      else:
        for x in ast.walk(tgt):
          if isinstance(x, ast.Name):
            env2[x.id] = None
    return record_table_of(fn, expr.elt, w, handles, depth + 1, env2, own_table)
  if isinstance(expr, ast.BinOp) and isinstance(expr.op, ast.Add):
    ts = {record_table_of(fn, e, w, handles, depth + 1, env, own_table)
          for e in (expr.left, expr.right)}
    return ts.pop() if len(ts) == 1 else None
  if isinstance(expr, ast.Call):
    d = dotted(expr.func)
    if d in ("sorted", "list", "tuple", "reversed", "set") and expr.args:
      return record_table_of(fn, expr.args[0], w, handles, depth + 1, env, own_table)
    if endswith(d, "_bulk_action_iter") and expr.args:
      ok, v = const_value(expr.args[0])
      if ok:
        return v
      ps = fn.fi.params()
      if isinstance(expr.args[0], ast.Name) and len(ps) >= 2 and expr.args[0].id == ps[1]:
        return own_table
      return None
    if isinstance(expr.func, ast.Attribute):
      m = expr.func.attr
      recv = expr.func.value
      if fn.type_of(recv) == T.DOCMODEL:
        if m in RECORD_SOURCES:
          return RECORD_SOURCES[m]
        if m in ("add", "insert", "insert_after") and expr.args:
          return handle_table_of(fn, expr.args[0], w, handles, depth + 1)
      if m in HANDLE_RECORD_METHODS:
        # <docmodel handle>.lookupRecords(...) / <docmodel handle>.table.get_record(...)
        h = recv.value if isinstance(recv, ast.Attribute) and recv.attr == "table" else recv
        if isinstance(h, ast.Attribute) and fn.type_of(h.value) == T.DOCMODEL:
          return handles.get(h.attr)
    return None
  if isinstance(expr, ast.Attribute):
    # <docmodel handle>.all
    if expr.attr == "all" and isinstance(expr.value, ast.Attribute) and \
        fn.type_of(expr.value.value) == T.DOCMODEL:
      return handles.get(expr.value.attr)
    base = record_table_of(fn, expr.value, w, handles, depth + 1, env, own_table)
    kid = _accessor_child(w, base, expr.attr)
    if kid is not None:
      return kid
    if base is not None:
      typ = meta_ref_columns(w).get((base, expr.attr))
      if typ and typ.startswith(("Ref:", "RefList:")):
        return typ.split(":", 1)[1]
    return None
  return None


def handle_table_of(fn, expr, w, handles, depth=0):
  """Metadata table id denoted by the first argument of docmodel.add/insert: a DocModel handle
  (`self._docmodel.tables`) or a record-set accessor of a record (`table_rec.columns`)."""
  if isinstance(expr, ast.Attribute):
    if fn.type_of(expr.value) == T.DOCMODEL:
      return handles.get(expr.attr)
    rt = record_table_of(fn, expr.value, w, handles, depth + 1)
    return _accessor_child(w, rt, expr.attr)
  return None


def table_arg_value(fn, du, node_id, expr, own_table=None):
  """Table id a table argument denotes: a string literal, or the function's table_id parameter
  (bound by the @override_action decorator to own_table) while it still holds its entry value."""
  ok, v = const_value(expr)
  if ok and isinstance(v, str):
    return v
  if isinstance(expr, ast.Name):
    ps = fn.fi.params()
    if own_table is not None and len(ps) >= 2 and expr.id == ps[1] and \
        unrebound_at(fn, du, expr.id, node_id):
      return own_table
    if expr.id not in ps:
      d = single_def(fn, expr.id)       # a local naming a literal table id
      ok, v = const_value(d) if d is not None else (False, None)
      if ok and isinstance(v, str) and len(du.rebinders(expr.id)) == 1:
        return v
  return None
