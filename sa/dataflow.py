"""Intra-procedural def-use over the statement CFG: which nodes define, mutate or alias a local."""
import ast
from .astutil import stmt_defs, names_loaded, calls_in, walk_no_nested, assigned_names

MUTATING_METHODS = ("append", "extend", "insert", "update", "setdefault", "add", "pop", "remove",
                    "discard", "clear", "sort", "reverse", "appendleft", "popitem",
                    "difference_update", "intersection_update", "__setitem__")


class DefUse(object):
  def __init__(self, fn, cfg=None):
    self.fn = fn
    self.cfg = cfg or fn.cfg
    self.defs = {}        # name -> set(node id) : (re)binding nodes
    self.muts = {}        # name -> set(node id) : in-place mutation nodes (x.append, x[k] = v)
    self._parent = {}     # alias union-find
    self._build()

  # ---- alias groups
  def _find(self, a):
    p = self._parent.setdefault(a, a)
    if p != a:
      p = self._parent[a] = self._find(p)
    return p

  def _union(self, a, b):
    ra, rb = self._find(a), self._find(b)
    if ra != rb:
      self._parent[ra] = rb

  def group(self, name):
    r = self._find(name)
    return {n for n in self._parent if self._find(n) == r} | {name}

  def _build(self):
    cfg = self.cfg
    for n in cfg.nodes:
      s = n.stmt
      if s is None:
        continue
      if n.kind == "stmt":
        for nm in stmt_defs(s):
          self.defs.setdefault(nm, set()).add(n.id)
        if isinstance(s, ast.Assign):
          tnames = []
          for t in s.targets:
            if isinstance(t, ast.Name):
              tnames.append(t.id)
            elif isinstance(t, ast.Subscript) and isinstance(t.value, ast.Name):
              self.muts.setdefault(t.value.id, set()).add(n.id)
              tnames.append(t.value.id)
            elif isinstance(t, ast.Attribute) and isinstance(t.value, ast.Name):
              self.muts.setdefault(t.value.id, set()).add(n.id)
          for a in tnames[1:]:
            self._union(tnames[0], a)
          if isinstance(s.value, ast.Name):
            for a in tnames:
              self._union(a, s.value.id)
        elif isinstance(s, ast.AugAssign):
          t = s.target
          if isinstance(t, ast.Subscript) and isinstance(t.value, ast.Name):
            self.muts.setdefault(t.value.id, set()).add(n.id)
        elif isinstance(s, ast.Delete):
          for t in s.targets:
            if isinstance(t, ast.Subscript) and isinstance(t.value, ast.Name):
              self.muts.setdefault(t.value.id, set()).add(n.id)
      elif n.kind in ("for", "with"):
        for nm in stmt_defs(s):
          self.defs.setdefault(nm, set()).add(n.id)
      # comprehension targets and walrus are local bindings at this node too
      for e in n.exprs:
        for x in walk_no_nested(e):
          if isinstance(x, ast.comprehension):
            for nm in assigned_names(x.target):
              self.defs.setdefault(nm, set()).add(n.id)
          elif isinstance(x, ast.NamedExpr):
            for nm in assigned_names(x.target):
              self.defs.setdefault(nm, set()).add(n.id)
      for c in calls_in(n.exprs):
        if isinstance(c.func, ast.Attribute) and c.func.attr in MUTATING_METHODS and \
            isinstance(c.func.value, ast.Name):
          self.muts.setdefault(c.func.value.id, set()).add(n.id)
          for a in c.args:
            if isinstance(a, ast.Name):
              self._union(c.func.value.id, a.id) if c.func.attr in ("append", "add") else None

  def writers(self, name):
    """Nodes that bind or mutate `name` or any alias of it."""
    out = set()
    for nm in self.group(name):
      out |= self.defs.get(nm, set()) | self.muts.get(nm, set())
    return out

  def rebinders(self, name):
    return set(self.defs.get(name, set()))

  def backward_slice(self, roots):
    """Node ids whose statements feed (transitively, through local names) the given ast roots."""
    seen, work, feed = set(), [], set()
    for r in roots:
      work.extend(names_loaded(r))
    while work:
      nm = work.pop()
      if nm in seen:
        continue
      seen.add(nm)
      for d in self.writers(nm):
        if d not in feed:
          feed.add(d)
          for e in self.cfg.nodes[d].exprs:
            work.extend(names_loaded(e))
    return feed

  def flows_from(self, src_pred, expr, depth=6):
    """True when `expr` is (transitively through local assignments) built from an expression
    satisfying src_pred(ast node)."""
    seen = set()
    def go(e, d):
      for x in ast.walk(e):
        if src_pred(x):
          return True
      if d <= 0:
        return False
      for nm in names_loaded(e):
        if nm in seen:
          continue
        seen.add(nm)
        for nid in self.writers(nm):
          for ex in self.cfg.nodes[nid].exprs:
            if go(ex, d - 1):
              return True
      return False
    return go(expr, depth)

  # ---- must-aliasing through simple local assignments
  def values_of(self, name):
    """Value expressions of the plain `name = value` assignments binding `name`; None when some
    binding is not of that form (loop target, unpacking, augmented assignment, parameter)."""
    out = []
    params = {a.arg for a in ast.walk(self.fn.fi.node.args) if isinstance(a, ast.arg)}
    if name in params and not self.defs.get(name):
      return None
    for nid in self.defs.get(name, ()):
      s = self.cfg.nodes[nid].stmt
      if isinstance(s, ast.Assign) and len(s.targets) == 1 and isinstance(s.targets[0], ast.Name) \
          and s.targets[0].id == name:
        out.append(s.value)
      elif isinstance(s, ast.AnnAssign) and isinstance(s.target, ast.Name) and s.target.id == name \
          and s.value is not None:
        out.append(s.value)
      else:
        return None
    if name in params:
      return None
    return out or None

  def reaching_values(self, nid, name):
    """Value expressions of the bindings of `name` that reach CFG node nid (reaching definitions
    through plain assignments); None when a binding of another form, or no binding at all (the
    entry / a parameter), may reach it."""
    defs = self.defs.get(name, set())
    out, seen, todo = [], set(), list(self.cfg.pred[nid])
    while todo:
      a = todo.pop()
      if a in seen:
        continue
      seen.add(a)
      if a in defs:
        s = self.cfg.nodes[a].stmt
        if isinstance(s, ast.Assign) and len(s.targets) == 1 and isinstance(s.targets[0], ast.Name) \
            and s.targets[0].id == name:
          out.append(s.value)
          continue
        return None
      if a == self.cfg.entry.id:
        return None
      todo.extend(self.cfg.pred[a])
    return out or None

  def denotes(self, expr, pred, depth=5):
    """True when `expr` satisfies pred, or is a local name every binding of which is a plain
    assignment of an expression that (recursively) denotes pred. Spelling-independent test for
    "this operand is that value", whether written inline or through named locals."""
    if pred(expr):
      return True
    if depth <= 0 or not isinstance(expr, ast.Name):
      return False
    vals = self.values_of(expr.id)
    return bool(vals) and all(self.denotes(v, pred, depth - 1) for v in vals)

  def inline(self, expr, depth=5, stop=()):
    """Copy of `expr` with every local name that has exactly one plain assignment replaced by the
    assigned expression (recursively; names in `stop` are kept). For comparing normalised text of an operand."""
    du = self
    class T(ast.NodeTransformer):
      def visit_Name(self, n):
        if isinstance(n.ctx, ast.Load) and depth > 0 and n.id not in stop:
          vals = du.values_of(n.id)
          if vals and len(vals) == 1:
            return du.inline(vals[0], depth - 1, stop)
        return n
    import copy
    return T().visit(copy.deepcopy(expr))

