"""
Mutation self-test: each rule module lists VARIANTS -- single edits to a scratch copy of the
analysed sources -- on which the named rule must report a violation, while the unedited copy
must be silent. Scratch copies live under $TMPDIR (outside /repo and /verif) and are deleted after
each variant. Not part of the registered quick/thorough commands.

  ./vcheck selftest [Cxx ...] [-j N] [-k substring]
"""
import importlib
import os
import shutil
import subprocess
import sys
import tempfile
import types
from concurrent.futures import ThreadPoolExecutor

from .index import REPO
from .report import VERIF

COPY = ["sandbox/grist", "sandbox/gen_js_schema.py", "app/common/schema.ts",
        "app/common/gristTypes.ts", "app/plugin/GristData.ts", "app/common/PredicateFormula.ts"]


def _ignore(d, names):
  return [n for n in names if n in ("__pycache__", "fixtures") or n.endswith(".pyc")]


def make_copy(dst):
  for rel in COPY:
    src = os.path.join(REPO, rel)
    if not os.path.exists(src):
      continue
    out = os.path.join(dst, rel)
    os.makedirs(os.path.dirname(out), exist_ok=True)
    if os.path.isdir(src):
      shutil.copytree(src, out, ignore=_ignore)
    else:
      shutil.copy(src, out)


def run_check(prop, root, tier="quick"):
  env = dict(os.environ, VERIF_REPO=root, VERIF_NO_EVIDENCE="1")
  p = subprocess.run([sys.executable, "-B", "-m", "sa.main", prop, "--tier", tier], cwd=VERIF,
                     env=env, capture_output=True, text=True)
  return p.returncode, p.stdout + p.stderr


def run_variant(v):
  prop, name, rel, old, new, rule = v
  tmp = tempfile.mkdtemp(prefix="vst_")
  try:
    make_copy(tmp)
    path = os.path.join(tmp, rel)
    with open(path) as fh:
      src = fh.read()
    cnt = src.count(old)
    if cnt != 1:
      return (v, "BROKEN-VARIANT", "pattern occurs %d times in %s" % (cnt, rel))
    src2 = src.replace(old, new)
    try:
      compile(src2, path, "exec") if rel.endswith(".py") else None
    except SyntaxError as e:
      return (v, "BROKEN-VARIANT", "variant does not compile: %s" % e)
    with open(path, "w") as fh:
      fh.write(src2)
    rc, out = run_check(prop, tmp)
    fired = rc == 1 and ("FINDING %s " % rule) in out and "VIOLATION property=%s" % prop in out
    if fired:
      return (v, "ok", "")
    return (v, "MISSED", "rc=%d\n%s" % (rc, out[-1500:]))
  finally:
    shutil.rmtree(tmp, ignore_errors=True)


def collect(props):
  out = []
  for i in range(1, 42):
    p = "C%02d" % i
    if props and p not in props:
      continue
    try:
      mod = importlib.import_module("sa.rules.%s" % p.lower())
    except ModuleNotFoundError:
      continue
    for v in getattr(mod, "VARIANTS", []):
      out.append((p,) + tuple(v))
    # property-specific helper modules imported by the rule module (sa/rules/_cNN_*.py)
    for sub in list(vars(mod).values()):
      if isinstance(sub, types.ModuleType) and \
          sub.__name__.startswith("sa.rules._%s_" % p.lower()):
        for v in getattr(sub, "VARIANTS", []):
          out.append((p,) + tuple(v))
  return out


def main(argv):
  jobs = 16
  props = []
  sub = None
  i = 0
  while i < len(argv):
    if argv[i] == "-j":
      jobs = int(argv[i + 1]); i += 2; continue
    if argv[i] == "-k":
      sub = argv[i + 1]; i += 2; continue
    props.append(argv[i].upper()); i += 1
  variants = collect(props)
  if sub:
    variants = [v for v in variants if sub in v[1]]
  # the unedited copy must be silent for every property that has variants
  tmp = tempfile.mkdtemp(prefix="vst_clean_")
  bad = 0
  try:
    make_copy(tmp)
    for p in sorted({v[0] for v in variants}):
      rc, out = run_check(p, tmp)
      if rc != 0:
        print("CLEAN-COPY-NOT-SILENT %s rc=%d\n%s" % (p, rc, out[-800:]))
        bad += 1
  finally:
    shutil.rmtree(tmp, ignore_errors=True)
  with ThreadPoolExecutor(max_workers=jobs) as ex:
    results = list(ex.map(run_variant, variants))
  for (v, status, info) in results:
    if status != "ok":
      bad += 1
      print("%s %s/%s expected %s: %s" % (status, v[0], v[1], v[5], info))
  print("selftest: %d variants, %d caught, %d problems" %
        (len(results), sum(1 for r in results if r[1] == "ok"), bad))
  return 1 if bad else 0


def summary(prop, jobs=16):
  """Vitality of a property's rules on the current tree: apply every VARIANT of the property to
  a scratch copy and see whether the named rule fires. Used by the thorough tier; the result
  goes into the evidence, it never changes the verdict about /repo."""
  variants = collect([prop])
  if not variants:
    return {"variants": 0}
  with ThreadPoolExecutor(max_workers=jobs) as ex:
    results = list(ex.map(run_variant, variants))
  out = {"variants": len(results),
         "caught": sum(1 for r in results if r[1] == "ok"),
         "missed": [r[0][1] for r in results if r[1] == "MISSED"],
         "inapplicable": [r[0][1] for r in results if r[1] == "BROKEN-VARIANT"],
         "samples": [{"variant": r[0][1], "file": r[0][2], "expected_rule": r[0][5],
                      "result": r[1]} for r in results[:8]]}
  return out


def stability(prop, jobs=8):
  """Verdict of the property's rules on mechanically refactored copies of the current tree (the
  behaviour-preserving transforms of sa/refactor.py). Recorded as evidence by the thorough tier;
  it never changes the verdict about /repo. A rule that changes its verdict under a rename or a
  flipped branch is a rule that matches spelling, not meaning."""
  from . import refactor
  def one(t):
    tmp = tempfile.mkdtemp(prefix="vsb_")
    try:
      make_copy(tmp)
      for rel in refactor.target_files(tmp, []):
        refactor.rewrite(os.path.join(tmp, rel), t)
      rc, out = run_check(prop, tmp)
      return (t, {0: "same verdict", 1: "VIOLATION reported", 2: "could not decide"}.get(rc, "rc=%d" % rc))
    except Exception as e:        # a transform that cannot be applied is not the rules' problem
      return (t, "transform not applicable: %s" % e)
    finally:
      shutil.rmtree(tmp, ignore_errors=True)
  with ThreadPoolExecutor(max_workers=jobs) as ex:
    return dict(ex.map(one, sorted(refactor.TRANSFORMS)))

