"""Obligation bookkeeping, known findings, evidence and exit codes."""
import json
import os
import sys
import time
import hashlib

from .index import AnalysisError

VERIF = os.path.dirname(os.path.dirname(os.path.abspath(__file__)))
KNOWN_FILE = os.path.join(VERIF, "known_findings.txt")


class Obligation(object):
  __slots__ = ("rule", "site", "construct", "what", "ok", "witness", "nontrivial", "file", "line")

  def __init__(self, rule, site, construct, what, ok, witness, nontrivial, file, line):
    self.rule = rule
    self.site = site
    self.construct = construct
    self.what = what
    self.ok = ok
    self.witness = witness
    self.nontrivial = nontrivial
    self.file = file
    self.line = line

  def key(self):
    return "%s|%s::%s" % (self.rule, self.site, self.construct)

  def as_dict(self):
    d = {"rule": self.rule, "site": self.site, "construct": self.construct, "what": self.what,
         "verdict": "discharged" if self.ok else "VIOLATED"}
    if self.file:
      d["file"] = self.file
      d["line"] = self.line
    if self.witness:
      d["witness"] = self.witness
    return d


def load_known():
  """known: property=<id> rule=<rule> site=<site>::<construct> -- <what fails>"""
  known = {}
  if not os.path.exists(KNOWN_FILE):
    return known
  with open(KNOWN_FILE) as fh:
    for line in fh:
      line = line.strip()
      if not line.startswith("known:"):
        continue
      body, _, desc = line[len("known:"):].partition(" -- ")
      parts = body.strip().split(" ", 2)
      try:
        prop = parts[0].split("=", 1)[1]
        rule = parts[1].split("=", 1)[1]
        site = parts[2].split("=", 1)[1]
      except Exception:
        continue
      known.setdefault(prop, {})["%s|%s" % (rule, site)] = desc.strip()
  return known


class Run(object):
  def __init__(self, prop_id, tier, repo, level="other"):
    self.prop = prop_id
    self.tier = tier
    self.repo = repo
    self.level = level
    self.obs = []
    self.rules = {}       # rule id -> dict(desc, instances, floor)
    self.notes = []
    self.assumptions = []
    self.explanation = ""
    self.extra = {}
    self.t0 = time.time()
    self.funcs_analysed = set()
    self._seen_keys = set()
    self.errors = []      # (rule function name, message): rules that could not decide

  # ---------------------------------------------------------------- recording
  def rule(self, rule_id, desc, floor=None):
    r = self.rules.setdefault(rule_id, {"desc": desc, "instances": 0, "floor": floor})
    if floor is not None:
      r["floor"] = floor
    return rule_id

  def ob(self, rule, site, construct, what, ok, witness=None, nontrivial=True, node=None, fi=None):
    """Record one obligation. `site` is a qualified function name (or other stable symbol),
    `construct` a normalised construct text, never a line number."""
    if rule not in self.rules:
      self.rule(rule, "")
    file = line = None
    if fi is not None:
      file = fi.path
      self.funcs_analysed.add(fi.qualname)
      line = getattr(node if node is not None else fi.node, "lineno", None)
    o = Obligation(rule, site, construct, what, bool(ok), witness, nontrivial, file, line)
    self.obs.append(o)
    self.rules[rule]["instances"] += 1
    return bool(ok)

  def guard(self, func, *args, **kw):
    """Run one rule function; if it cannot decide, record that and let the other rules run."""
    try:
      return func(*args, **kw)
    except AnalysisError as e:
      self.errors.append((getattr(func, "__name__", "?"), str(e)))
      return None

  def analysed(self, fi):
    self.funcs_analysed.add(fi.qualname)

  def note(self, msg):
    self.notes.append(msg)

  def assume(self, msg):
    if msg not in self.assumptions:
      self.assumptions.append(msg)

  # ---------------------------------------------------------------- finishing
  def check_floors(self):
    for rid, r in self.rules.items():
      if r["floor"] is not None and r["instances"] < r["floor"]:
        raise AnalysisError("rule %s matched %d instance(s), fewer than the %d confirmed by hand; "
                            "the mechanism moved and the rule no longer sees it"
                            % (rid, r["instances"], r["floor"]))

  def finish(self, floors=True):
    known = load_known().get(self.prop, {})
    viol = [o for o in self.obs if not o.ok]
    if floors and not any(o.key() not in known for o in viol):
      # A rule that sees fewer instances than were confirmed by hand must not pass silently;
      # when a violation was found anyway, the violation is the more useful report.
      self.check_floors()
    new, kf = [], []
    for o in viol:
      k = o.key()
      if k in known:
        kf.append((o, known[k]))
      else:
        new.append(o)
    outdir = os.path.join(VERIF, "out", self.prop)
    if os.environ.get("VERIF_NO_EVIDENCE"):
      outdir = os.path.join(VERIF, "out", "_selftest", self.prop)
    lines = []
    seen = set()
    for o, desc in kf:
      if o.key() in seen:
        continue
      seen.add(o.key())
      lines.append("KNOWN-FINDING: property=%s rule=%s site=%s::%s -- %s"
                   % (self.prop, o.rule, o.site, o.construct, desc))
    replay_paths = []
    if new:
      os.makedirs(outdir, exist_ok=True)
      for o in new:
        h = hashlib.sha1(o.key().encode()).hexdigest()[:12]
        p = os.path.join(outdir, "%s_%s.json" % (o.rule.replace("/", "_"), h))
        with open(p, "w") as fh:
          json.dump({"property": self.prop, "tier": self.tier, "finding": o.as_dict(),
                     "key": o.key()}, fh, indent=1)
        replay_paths.append((o, p))
    self.write_evidence(len(new), len(kf))
    for ln in lines:
      print(ln)
    for n in self.notes:
      print("NOTE: %s" % n)
    for o, p in replay_paths:
      print("FINDING %s %s:%s %s :: %s -- %s" % (o.rule, o.file or "", o.line or "", o.site,
                                                 o.construct, o.what))
      if o.witness:
        print("   witness: %s" % (o.witness,))
      print("VIOLATION property=%s replay=%s" % (self.prop, p))
    ndis = sum(1 for o in self.obs if o.ok)
    print("%s %s: %d obligations, %d discharged, %d known finding(s), %d violation(s); "
          "%d rules, %d functions analysed, %.2fs"
          % (self.prop, self.tier, len(self.obs), ndis, len(kf), len(new),
             len(self.rules), len(self.funcs_analysed), time.time() - self.t0))
    return 1 if new else 0

  def write_evidence(self, nviol, nknown):
    if os.environ.get("VERIF_NO_EVIDENCE"):
      return
    obs = self.obs
    distinct_nt = len({o.key() for o in obs if o.nontrivial})
    # samples: every violated obligation plus a spread of discharged ones (at least one per rule)
    samples = [o.as_dict() for o in obs if not o.ok]
    per_rule = {}
    for o in obs:
      if o.ok and per_rule.get(o.rule, 0) < 3:
        per_rule[o.rule] = per_rule.get(o.rule, 0) + 1
        samples.append(o.as_dict())
    cov = {
      "explanation": self.explanation,
      "obligations": len(obs),
      "discharged": sum(1 for o in obs if o.ok),
      "evaluations": len(obs),
      "distinct_nontrivial": distinct_nt,
      "rule": "one obligation per (rule, site, construct) enumerated from the current source; "
              "non-trivial = its decision needed a path, dataflow or cross-site comparison "
              "(not a bare existence test); distinct = distinct (rule, site, construct) keys",
      "samples": samples[:60],
      "exhaustive": True,
      "rules": [{"id": rid, "decides": r["desc"], "instances": r["instances"],
                 "floor": r["floor"]} for rid, r in sorted(self.rules.items())],
      "functions_analysed": sorted(self.funcs_analysed),
      "modules_indexed": len(self.repo.modules) if self.repo is not None else 0,
      "known_findings": nknown,
      "checker_cmd": "./vcheck %s --tier %s" % (self.prop, self.tier),
      "trusted_base": ["python ast", "rule tables in /verif/sa/rules (one reason per entry)"],
    }
    cov.update(self.extra)
    ev = {
      "property_id": self.prop,
      "tier": self.tier,
      "seed": int(os.environ.get("VERIF_SEED", "0") or 0),
      "level": self.level,
      "coverage": cov,
      "assumptions": self.assumptions,
      "wall_s": round(time.time() - self.t0, 3),
      "violations": nviol,
      "notes": self.notes,
    }
    os.makedirs(os.path.join(VERIF, "evidence"), exist_ok=True)
    p = os.path.join(VERIF, "evidence", "%s.json" % self.prop)
    tmp = p + ".tmp"
    with open(tmp, "w") as fh:
      json.dump(ev, fh, indent=1, sort_keys=False)
      fh.write("\n")
    os.replace(tmp, p)
