"""
Mechanical behaviour-preserving rewrites of the analysed sources (library part of
tools/auto_benign.py; also used by the thorough tier to record, as evidence, that a property's
verdict is stable under them). Each transform was validated on the repository's own test-suite.

  T0  parse + unparse only (layout, quoting, parenthesis normalisation)
  T1  rename every plain local variable x -> x_r (parameters, globals, names captured by nested
      functions/lambdas and functions using locals()/eval are left alone)
  T2  `if c: A else: B`  ->  `if not c: B else: A`
  T3  trailing `if c: BODY` of a function body / loop body  ->  `if not c: return|continue` + BODY
  T4  `return EXPR`  ->  `ret_value = EXPR; return ret_value`
  T5  `x = A if c else B` -> if/else statement;  `return A if c else B` -> if c: return A / return B
  T6  `x = [E for t in IT if C]` (list/set/dict comprehension, one generator) -> explicit loop
  T7  `self._engine` / `self._docmodel` aliased to a local at the top of each method reading it
  T8  `self.m(a, b)` -> `self.m(p=a, q=b)` for undecorated methods defined exactly once in the code
      base with plain positional parameters
"""
import ast
import copy
import os


def _nested_scopes(fnode):
  out = []
  for s in fnode.body:
    for n in ast.walk(s):
      if isinstance(n, (ast.FunctionDef, ast.AsyncFunctionDef, ast.Lambda, ast.ClassDef)):
        out.append(n)
  return out


def _own_nodes(fnode):
  """Nodes of the function body that are not inside a nested def/lambda/class."""
  out = []
  def go(n):
    for c in ast.iter_child_nodes(n):
      if isinstance(c, (ast.FunctionDef, ast.AsyncFunctionDef, ast.Lambda, ast.ClassDef)):
        # decorators / defaults are evaluated in the enclosing scope, but keep it simple: skip
        continue
      out.append(c)
      go(c)
  for s in fnode.body:
    out.append(s)
    go(s)
  return out


class T1(ast.NodeTransformer):
  def _do(self, f):
    self.generic_visit(f)
    own = _own_nodes(f)
    params = {a.arg for a in ast.walk(f.args) if isinstance(a, ast.arg)}
    declared = set()
    for n in own:
      if isinstance(n, (ast.Global, ast.Nonlocal)):
        declared |= set(n.names)
      if isinstance(n, ast.Call) and isinstance(n.func, ast.Name) and n.func.id in ("locals", "vars", "eval", "exec"):
        return f
    stored = {n.id for n in own if isinstance(n, ast.Name) and isinstance(n.ctx, (ast.Store, ast.Del))}
    stored |= {n.name for n in own if isinstance(n, ast.ExceptHandler) and n.name}
    captured = set()
    for sc in _nested_scopes(f):
      captured |= {n.id for n in ast.walk(sc) if isinstance(n, ast.Name)}
      if not isinstance(sc, ast.Lambda):
        captured.add(sc.name)
    # names of nested defs are locals too but renaming them changes qualnames: leave them
    nested_names = {n.name for n in own if isinstance(n, (ast.FunctionDef, ast.ClassDef))}
    ren = {x for x in stored - params - declared - captured - nested_names if not x.startswith("__")}
    for n in own:
      if isinstance(n, ast.Name) and n.id in ren:
        n.id = n.id + "_r"
      elif isinstance(n, ast.ExceptHandler) and n.name in ren:
        n.name = n.name + "_r"
    return f
  visit_FunctionDef = _do
  visit_AsyncFunctionDef = _do


def _neg(t):
  if isinstance(t, ast.UnaryOp) and isinstance(t.op, ast.Not):
    return t.operand
  return ast.UnaryOp(op=ast.Not(), operand=t)


class T2(ast.NodeTransformer):
  def visit_If(self, n):
    self.generic_visit(n)
    if n.orelse:
      n.test, n.body, n.orelse = _neg(n.test), n.orelse, n.body
    return n


class T3(ast.NodeTransformer):
  def _tail(self, body, exit_stmt):
    if body and isinstance(body[-1], ast.If) and not body[-1].orelse:
      last = body[-1]
      guard = ast.If(test=_neg(last.test), body=[exit_stmt], orelse=[])
      return body[:-1] + [guard] + last.body
    return body
  def visit_FunctionDef(self, f):
    self.generic_visit(f)
    f.body = self._tail(f.body, ast.Return(value=None))
    return f
  def visit_For(self, n):
    self.generic_visit(n)
    n.body = self._tail(n.body, ast.Continue())
    return n
  visit_While = visit_For


class T4(ast.NodeTransformer):
  def visit_Lambda(self, n):
    return n
  def _block(self, stmts):
    out = []
    for s in stmts:
      if isinstance(s, ast.Return) and s.value is not None and \
          not isinstance(s.value, (ast.Name, ast.Constant)):
        out.append(ast.Assign(targets=[ast.Name(id="ret_value", ctx=ast.Store())], value=s.value))
        out.append(ast.Return(value=ast.Name(id="ret_value", ctx=ast.Load())))
      else:
        out.append(s)
    return out
  def generic_visit(self, node):
    super().generic_visit(node)
    for fld in ("body", "orelse", "finalbody"):
      v = getattr(node, fld, None)
      if isinstance(v, list) and v and isinstance(v[0], ast.stmt):
        setattr(node, fld, self._block(v))
    return node
  def visit_FunctionDef(self, f):
    # generators: `return x` is fine too; functions using ret_value already: skip
    if any(isinstance(n, ast.Name) and n.id == "ret_value" for n in ast.walk(f)):
      return f
    return self.generic_visit(f)


class T5(ast.NodeTransformer):
  def visit_Lambda(self, n):
    return n
  def _block(self, stmts):
    out = []
    for s in stmts:
      if isinstance(s, ast.Assign) and isinstance(s.value, ast.IfExp) and len(s.targets) == 1 and \
          isinstance(s.targets[0], ast.Name):
        v = s.value
        out.append(ast.If(test=v.test,
                          body=[ast.Assign(targets=[copy.deepcopy(s.targets[0])], value=v.body)],
                          orelse=[ast.Assign(targets=[copy.deepcopy(s.targets[0])], value=v.orelse)]))
      elif isinstance(s, ast.Return) and isinstance(s.value, ast.IfExp):
        v = s.value
        out.append(ast.If(test=v.test, body=[ast.Return(value=v.body)], orelse=[]))
        out.append(ast.Return(value=v.orelse))
      else:
        out.append(s)
    return out
  def generic_visit(self, node):
    super().generic_visit(node)
    for fld in ("body", "orelse", "finalbody"):
      v = getattr(node, fld, None)
      if isinstance(v, list) and v and isinstance(v[0], ast.stmt):
        setattr(node, fld, self._block(v))
    return node


class T6(ast.NodeTransformer):
  """`x = [E for t in IT if C]` (also set/dict comprehensions, one generator) -> explicit loop."""
  def visit_Lambda(self, n):
    return n
  def _do(self, f):
    self.generic_visit(f)
    names_outside = {}
    comps = [n for n in ast.walk(f) if isinstance(n, (ast.ListComp, ast.SetComp, ast.DictComp, ast.GeneratorExp))]
    inside = {id(x) for c in comps for x in ast.walk(c)}
    outside = {n.id for n in ast.walk(f) if isinstance(n, ast.Name) and id(n) not in inside}
    outside |= {a.arg for a in ast.walk(f.args) if isinstance(a, ast.arg)}
    def block(stmts):
      out = []
      for s in stmts:
        v = s.value if isinstance(s, ast.Assign) else None
        if v is not None and isinstance(v, (ast.ListComp, ast.SetComp, ast.DictComp)) and \
            len(s.targets) == 1 and isinstance(s.targets[0], ast.Name) and len(v.generators) == 1 and \
            not v.generators[0].is_async:
          g = v.generators[0]
          tnames = {n.id for n in ast.walk(g.target) if isinstance(n, ast.Name)}
          used_in_comp = {n.id for n in ast.walk(v) if isinstance(n, ast.Name)}
          nested = any(isinstance(x, (ast.ListComp, ast.SetComp, ast.DictComp, ast.GeneratorExp, ast.Lambda))
                       for x in ast.walk(v) if x is not v)
          tgt = s.targets[0].id
          if not (tnames & outside) and tgt not in used_in_comp and not nested:
            acc = ast.Name(id=tgt, ctx=ast.Load())
            if isinstance(v, ast.ListComp):
              init, add = ast.List(elts=[], ctx=ast.Load()), ast.Expr(ast.Call(
                func=ast.Attribute(value=acc, attr="append", ctx=ast.Load()), args=[v.elt], keywords=[]))
            elif isinstance(v, ast.SetComp):
              init, add = ast.Call(func=ast.Name(id="set", ctx=ast.Load()), args=[], keywords=[]), ast.Expr(ast.Call(
                func=ast.Attribute(value=acc, attr="add", ctx=ast.Load()), args=[v.elt], keywords=[]))
            else:
              init = ast.Dict(keys=[], values=[])
              # key is evaluated before the value in a dict comprehension: keep that order
              add = [ast.Assign(targets=[ast.Name(id="comp_key", ctx=ast.Store())], value=v.key),
                     ast.Assign(targets=[ast.Subscript(value=acc, slice=ast.Name(id="comp_key", ctx=ast.Load()),
                                                       ctx=ast.Store())], value=v.value)]
              if "comp_key" in outside or "comp_key" in used_in_comp:
                out.append(s); continue
            body = add if isinstance(add, list) else [add]
            for c in reversed(g.ifs):
              body = [ast.If(test=c, body=body, orelse=[])]
            out.append(ast.Assign(targets=[ast.Name(id=tgt, ctx=ast.Store())], value=init))
            out.append(ast.For(target=g.target, iter=g.iter, body=body, orelse=[]))
            continue
        for fld in ("body", "orelse", "finalbody"):
          b = getattr(s, fld, None)
          if isinstance(b, list) and b and isinstance(b[0], ast.stmt) and \
              not isinstance(s, (ast.FunctionDef, ast.AsyncFunctionDef, ast.ClassDef)):
            setattr(s, fld, block(b))
        if isinstance(s, ast.Try):
          for h in s.handlers:
            h.body = block(h.body)
        out.append(s)
      return out
    f.body = block(f.body)
    return f
  visit_FunctionDef = _do


class T7(ast.NodeTransformer):
  """alias `self._engine` / `self._docmodel` to a local at the top of methods that read it (these
  attributes are assigned once in __init__ and never rebound)."""
  ATTRS = ("_engine", "_docmodel")
  def __init__(self):
    self.rebound = set()
  def visit_Module(self, m):
    for n in ast.walk(m):
      if isinstance(n, ast.FunctionDef) and n.name != "__init__":
        for x in ast.walk(n):
          if isinstance(x, ast.Attribute) and isinstance(x.ctx, (ast.Store, ast.Del)) and x.attr in self.ATTRS:
            self.rebound.add(x.attr)
    return self.generic_visit(m)
  def visit_Lambda(self, n):
    return n
  def visit_FunctionDef(self, f):
    if f.name == "__init__" or not f.args.args or f.args.args[0].arg != "self":
      return f
    own = _own_nodes(f)
    for a in self.ATTRS:
      if a in self.rebound:
        continue
      alias = a.lstrip("_") + "_alias"
      hits = [n for n in own if isinstance(n, ast.Attribute) and n.attr == a and isinstance(n.ctx, ast.Load)
              and isinstance(n.value, ast.Name) and n.value.id == "self"]
      if not hits or any(isinstance(n, ast.Name) and n.id == alias for n in ast.walk(f)):
        continue
      # `self` must not be rebound, and the read must not be able to fail differently: these
      # attributes always exist after __init__
      if any(isinstance(n, ast.Name) and n.id == "self" and isinstance(n.ctx, ast.Store) for n in own):
        continue
      class R(ast.NodeTransformer):
        def visit_FunctionDef(s, n): return n
        def visit_Lambda(s, n): return n
        def visit_ClassDef(s, n): return n
        def visit_Attribute(s, n):
          s.generic_visit(n)
          if n.attr == a and isinstance(n.ctx, ast.Load) and isinstance(n.value, ast.Name) and n.value.id == "self":
            return ast.Name(id=alias, ctx=ast.Load())
          return n
      r = R()
      f.body = [r.visit(s) if not isinstance(s, (ast.FunctionDef, ast.ClassDef)) else s for s in f.body]
      doc = f.body[:1] if f.body and isinstance(f.body[0], ast.Expr) and isinstance(f.body[0].value, ast.Constant) \
          and isinstance(f.body[0].value.value, str) else []
      rest = f.body[len(doc):]
      f.body = doc + [ast.Assign(targets=[ast.Name(id=alias, ctx=ast.Store())],
                                 value=ast.Attribute(value=ast.Name(id="self", ctx=ast.Load()), attr=a, ctx=ast.Load()))] + rest
    return f


_METHOD_INDEX = {}


def _method_index(root):
  """{method name: [(class name, [positional parameter names after self], decorated)]} over every
  non-test module under root."""
  if root in _METHOD_INDEX:
    return _METHOD_INDEX[root]
  idx = {}
  for dp, dn, fn in os.walk(root):
    for f in fn:
      if not f.endswith(".py") or f.startswith("test_"):
        continue
      try:
        tree = ast.parse(open(os.path.join(dp, f)).read())
      except SyntaxError:
        continue
      for c in ast.walk(tree):
        if isinstance(c, ast.ClassDef):
          for m in c.body:
            if isinstance(m, ast.FunctionDef):
              a = m.args
              plain = not (a.vararg or a.kwarg or a.posonlyargs)
              names = [x.arg for x in a.args][1:] if plain and a.args else None
              idx.setdefault(m.name, []).append((c.name, names, bool(m.decorator_list)))
  _METHOD_INDEX[root] = idx
  return idx


class T8(ast.NodeTransformer):
  """`self.m(a, b)` -> `self.m(p=a, q=b)` for methods defined exactly once in the code base,
  undecorated, with plain positional parameters (so the binding cannot differ)."""
  root = None
  def visit_Call(self, n):
    self.generic_visit(n)
    f = n.func
    if isinstance(f, ast.Attribute) and isinstance(f.value, ast.Name) and f.value.id == "self" and \
        n.args and not any(isinstance(a, ast.Starred) for a in n.args):
      ent = _method_index(self.root).get(f.attr, [])
      if len(ent) == 1 and ent[0][1] is not None and not ent[0][2] and \
          len(n.args) <= len(ent[0][1]) and not f.attr.startswith("__"):
        names = ent[0][1]
        given = {k.arg for k in n.keywords}
        if not (set(names[:len(n.args)]) & given) and None not in given:
          n.keywords = [ast.keyword(arg=names[i], value=a) for i, a in enumerate(n.args)] + n.keywords
          n.args = []
    return n


class T0(ast.NodeTransformer):
  pass


TRANSFORMS = {"T0": T0, "T1": T1, "T2": T2, "T3": T3, "T4": T4, "T5": T5, "T6": T6, "T7": T7, "T8": T8}


def target_files(root, sub):
  base = os.path.join(root, "sandbox/grist")
  out = []
  for dp, dn, fn in os.walk(base):
    for f in fn:
      p = os.path.join(dp, f)
      rel = os.path.relpath(p, root)
      if not f.endswith(".py") or f.startswith("test_") or "/tests/" in rel or f.startswith("testutil"):
        continue
      if sub and not any(x in rel for x in sub):
        continue
      out.append(rel)
  return sorted(out)


def rewrite(path, tname):
  src = open(path).read()
  tree = ast.parse(src)
  tr = TRANSFORMS[tname]()
  if hasattr(tr, "root"):
    p = os.path.abspath(path)
    tr.root = p[:p.index("sandbox/grist") + len("sandbox/grist")] if "sandbox/grist" in p else os.path.dirname(p)
  new = tr.visit(tree)
  ast.fix_missing_locations(new)
  out = ast.unparse(new) + "\n"
  compile(out, path, "exec")
  open(path, "w").write(out)


