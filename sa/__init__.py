"""Static-analysis machinery for the grist-core data-engine properties (see /verif/DESIGN.md)."""
