"""CLI: ./vcheck <ID> [--tier quick|thorough] | explain <path> | all [--tier t] | list"""
import importlib
import json
import os
import sys
import traceback

from .index import Repo, AnalysisError
from .report import Run, VERIF


def rule_module(prop):
  try:
    return importlib.import_module("sa.rules.%s" % prop.lower())
  except ModuleNotFoundError as e:
    if e.name == "sa.rules.%s" % prop.lower():
      return None
    raise


def run_property(prop, tier, repo=None):
  """Runs all rules of a property. A rule function that cannot decide (AnalysisError) does not
  hide the verdicts of the other rules: it is recorded, disabled, and the module is run again.
  Exit code: 1 if any rule found a violation, else 2 if any rule could not decide, else 0."""
  mod = rule_module(prop)
  if mod is None:
    print("ANALYSIS-ERROR property=%s no rules implemented (fail-closed)" % prop)
    return 2
  errors = []
  patched = {}
  try:
    repo = repo or Repo()
    # the engine's private role-bearing helpers are found by role when their name is gone (a
    # rename or a move between method and module function); no-op on a tree that has the names
    try:
      from .rules._h_A import canonicalise
      canonicalise(repo)
    except Exception:
      pass
    try:
      from .canon import canonicalise_module_functions
      canonicalise_module_functions(repo)
    except Exception:
      pass
    while True:
      run = Run(prop, tier, repo, level=getattr(mod, "LEVEL", "other"))
      run.explanation = getattr(mod, "EXPLANATION", "")
      try:
        mod.check(run, repo, tier)
        break
      except AnalysisError as e:
        name = _failing_rule_function(mod, e)
        errors.append((name, str(e)))
        if name is None or name in patched or len(patched) > 12:
          run = None
          break
        patched[name] = getattr(mod, name)
        setattr(mod, name, lambda *a, **k: None)
    if run is not None:
      errors.extend(run.errors)
      if tier == "thorough" and not os.environ.get("VERIF_NO_EVIDENCE") and \
          not os.environ.get("VERIF_REPO"):
        from . import selftest
        st = selftest.summary(prop)
        run.extra["rule_vitality_selftest"] = st
        if st.get("missed"):
          run.note("self-test: rule(s) did not fire on variant(s) %s" % ", ".join(st["missed"]))
        sb = selftest.stability(prop)
        run.extra["verdict_under_behaviour_preserving_refactors"] = sb
        unstable = sorted(t for t, v in sb.items() if v != "same verdict")
        if unstable:
          run.note("verdict not stable under mechanical refactor(s) %s" % ", ".join(unstable))
        print("%s thorough: verdict stable under %d/%d mechanical refactors%s" % (
          prop, len(sb) - len(unstable), len(sb),
          (" (not: %s)" % ", ".join(unstable)) if unstable else ""))
        print("%s thorough: mutation self-test %s/%s variants caught%s" % (
          prop, st.get("caught", 0), st.get("variants", 0),
          (", inapplicable: %s" % ", ".join(st["inapplicable"])) if st.get("inapplicable") else ""))
    for (name, msg) in errors:
      print("ANALYSIS-ERROR property=%s %s%s" % (prop, ("[%s] " % name) if name else "", msg))
    if run is None:
      return 2
    try:
      rc = run.finish(floors=not errors)
    except AnalysisError as e:
      print("ANALYSIS-ERROR property=%s %s" % (prop, e))
      return 2
    if rc == 1:
      return 1
    return 2 if errors else rc
  except AnalysisError as e:
    print("ANALYSIS-ERROR property=%s %s" % (prop, e))
    return 2
  except Exception:
    traceback.print_exc()
    print("ANALYSIS-ERROR property=%s internal checker error (see traceback)" % prop)
    return 2
  finally:
    for name, f in patched.items():
      setattr(mod, name, f)


def _failing_rule_function(mod, exc):
  """Name of the module-level function of `mod` called from mod.check in whose dynamic extent
  the AnalysisError was raised."""
  tb = exc.__traceback__
  frames = []
  while tb is not None:
    frames.append(tb.tb_frame)
    tb = tb.tb_next
  for i, fr in enumerate(frames):
    if fr.f_code is getattr(mod.check, "__code__", None) and i + 1 < len(frames):
      nxt = frames[i + 1]
      name = nxt.f_code.co_name
      if nxt.f_globals.get("__name__") == mod.__name__ and callable(getattr(mod, name, None)):
        return name
  return None


def explain(path):
  with open(path) as fh:
    d = json.load(fh)
  print(json.dumps(d, indent=1))
  prop = d["property"]
  print("--- re-deciding %s on the current tree ---" % prop)
  rc = run_property(prop, d.get("tier", "quick"))
  return rc


def main(argv):
  if not argv:
    print(__doc__)
    return 2
  tier = os.environ.get("VERIF_TIER", "quick")
  args = []
  i = 0
  while i < len(argv):
    if argv[i] == "--tier":
      tier = argv[i + 1]
      i += 2
      continue
    args.append(argv[i])
    i += 1
  if tier not in ("quick", "thorough"):
    tier = "quick"
  cmd = args[0]
  if cmd == "explain":
    return explain(args[1])
  if cmd == "selftest":
    from . import selftest
    return selftest.main(args[1:])
  if cmd == "all":
    repo = None
    worst = 0
    for i in range(1, 42):
      p = "C%02d" % i
      if rule_module(p) is None:
        continue
      rc = run_property(p, tier)
      worst = max(worst, rc)
    return worst
  return run_property(cmd.upper(), tier)


if __name__ == "__main__":
  sys.exit(main(sys.argv[1:]))
