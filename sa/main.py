"""CLI: ./vcheck <ID> [--tier quick|thorough] | explain <path> | all [--tier t] | list"""
import importlib
import json
import os
import sys
import traceback

from .index import Repo, AnalysisError
from .report import Run, VERIF


def rule_module(prop):
  try:
    return importlib.import_module("sa.rules.%s" % prop.lower())
  except ModuleNotFoundError as e:
    if e.name == "sa.rules.%s" % prop.lower():
      return None
    raise


def run_property(prop, tier, repo=None):
  mod = rule_module(prop)
  if mod is None:
    print("ANALYSIS-ERROR property=%s no rules implemented (fail-closed)" % prop)
    return 2
  try:
    repo = repo or Repo()
    run = Run(prop, tier, repo, level=getattr(mod, "LEVEL", "other"))
    run.explanation = getattr(mod, "EXPLANATION", "")
    mod.check(run, repo, tier)
    return run.finish()
  except AnalysisError as e:
    print("ANALYSIS-ERROR property=%s %s" % (prop, e))
    return 2
  except Exception:
    traceback.print_exc()
    print("ANALYSIS-ERROR property=%s internal checker error (see traceback)" % prop)
    return 2


def explain(path):
  with open(path) as fh:
    d = json.load(fh)
  print(json.dumps(d, indent=1))
  prop = d["property"]
  print("--- re-deciding %s on the current tree ---" % prop)
  rc = run_property(prop, d.get("tier", "quick"))
  return rc


def main(argv):
  if not argv:
    print(__doc__)
    return 2
  tier = os.environ.get("VERIF_TIER", "quick")
  args = []
  i = 0
  while i < len(argv):
    if argv[i] == "--tier":
      tier = argv[i + 1]
      i += 2
      continue
    args.append(argv[i])
    i += 1
  if tier not in ("quick", "thorough"):
    tier = "quick"
  cmd = args[0]
  if cmd == "explain":
    return explain(args[1])
  if cmd == "selftest":
    from . import selftest
    return selftest.main(args[1:])
  if cmd == "all":
    repo = None
    worst = 0
    for i in range(1, 42):
      p = "C%02d" % i
      if rule_module(p) is None:
        continue
      rc = run_property(p, tier)
      worst = max(worst, rc)
    return worst
  return run_property(cmd.upper(), tier)


if __name__ == "__main__":
  sys.exit(main(sys.argv[1:]))
