"""
Small abstract domains interpreted over the AST (no repository code is executed).

IntSet: sets of values of one variable drawn from Z plus the distinguished value None, as a
union of closed integer intervals. `cond_set(test, var)` interprets a boolean expression over
that variable (comparisons with integer constants, `is None`, truthiness, and/or/not); anything
else is outside the subset and raises AnalysisError.
"""
import ast
from .index import AnalysisError

INF = float("inf")


class IntSet(object):
  def __init__(self, intervals=(), none=False):
    self.iv = self._norm(intervals)
    self.none = none

  @staticmethod
  def _norm(ivs):
    ivs = sorted((lo, hi) for (lo, hi) in ivs if lo <= hi)
    out = []
    for lo, hi in ivs:
      if out and lo <= out[-1][1] + 1:
        out[-1] = (out[-1][0], max(out[-1][1], hi))
      else:
        out.append((lo, hi))
    return out

  @classmethod
  def all(cls):
    return cls([(-INF, INF)], none=True)

  @classmethod
  def ints(cls):
    return cls([(-INF, INF)], none=False)

  def union(self, o):
    return IntSet(self.iv + o.iv, self.none or o.none)

  def complement(self):
    out, cur = [], -INF
    for lo, hi in self.iv:
      if lo > cur:
        out.append((cur, lo - 1))
      cur = hi + 1
    if cur != INF:
      out.append((cur, INF))
    return IntSet(out, not self.none)

  def intersect(self, o):
    return self.complement().union(o.complement()).complement()

  def minus(self, o):
    return self.intersect(o.complement())

  def subset_of(self, o):
    return self.minus(o).empty()

  def empty(self):
    return not self.iv and not self.none

  def __repr__(self):
    parts = ["[%s, %s]" % (lo, hi) for lo, hi in self.iv]
    if self.none:
      parts.append("None")
    return "{" + ", ".join(parts) + "}"


def _const_int(node):
  if isinstance(node, ast.Constant) and isinstance(node.value, int) and \
      not isinstance(node.value, bool):
    return node.value
  if isinstance(node, ast.UnaryOp) and isinstance(node.op, ast.USub):
    v = _const_int(node.operand)
    return -v if v is not None else None
  return None


def cond_set(test, var):
  """Values of `var` (ints or None) for which `test` is true."""
  if isinstance(test, ast.BoolOp):
    sets = [cond_set(v, var) for v in test.values]
    out = sets[0]
    for s in sets[1:]:
      out = out.union(s) if isinstance(test.op, ast.Or) else out.intersect(s)
    return out
  if isinstance(test, ast.UnaryOp) and isinstance(test.op, ast.Not):
    return cond_set(test.operand, var).complement()
  if isinstance(test, ast.Name) and test.id == var:
    return IntSet([(-INF, -1), (1, INF)])          # truthy
  if isinstance(test, ast.Compare) and len(test.ops) == 1:
    l, op, r = test.left, test.ops[0], test.comparators[0]
    flip = False
    if not (isinstance(l, ast.Name) and l.id == var):
      l, r, flip = r, l, True
    if isinstance(l, ast.Name) and l.id == var:
      if isinstance(op, (ast.Is, ast.IsNot, ast.Eq, ast.NotEq)) and \
          isinstance(r, ast.Constant) and r.value is None:
        s = IntSet([], none=True)
        return s if isinstance(op, (ast.Is, ast.Eq)) else s.complement()
      c = _const_int(r)
      if c is not None:
        opn = type(op)
        if flip:
          opn = {ast.Lt: ast.Gt, ast.Gt: ast.Lt, ast.LtE: ast.GtE, ast.GtE: ast.LtE}.get(opn, opn)
        # comparisons with None raise in py3; the repo guards None first with `or`, and for the
        # accept-set computation a None that reaches an ordering comparison is not "accepted"
        if opn is ast.Lt:
          return IntSet([(-INF, c - 1)])
        if opn is ast.LtE:
          return IntSet([(-INF, c)])
        if opn is ast.Gt:
          return IntSet([(c + 1, INF)])
        if opn is ast.GtE:
          return IntSet([(c, INF)])
        if opn is ast.Eq:
          return IntSet([(c, c)])
        if opn is ast.NotEq:
          return IntSet([(c, c)]).complement()
      if isinstance(op, (ast.In, ast.NotIn)) and isinstance(r, (ast.Tuple, ast.List, ast.Set)):
        vals = [_const_int(e) for e in r.elts]
        none = any(isinstance(e, ast.Constant) and e.value is None for e in r.elts)
        if all(v is not None or (isinstance(e, ast.Constant) and e.value is None)
               for v, e in zip(vals, r.elts)):
          s = IntSet([(v, v) for v in vals if v is not None], none=none)
          return s if isinstance(op, ast.In) else s.complement()
  raise AnalysisError("condition outside the interval domain: %s" % ast.unparse(test))
