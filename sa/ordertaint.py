"""
Order-taint analysis for determinism (C30).

Sources   : iteration order of a set-typed expression (hash/identity dependent).
Carriers  : lists/tuples/dicts/generators built by iterating a source or carrier.
Sanitisers: sorted(...), <list>.sort(), conversion back to a set, order-insensitive reducers.
Sinks     : (a) a loop over a source/carrier whose body can reach the doc-action gateway,
            (b) a source/carrier passed to a call that can reach the gateway,
            (c) a source/carrier returned from a user action (reply retValues).
Flow-insensitive inside a function; function return summaries are iterated to a fixpoint.
"""
import ast
from .index import dotted
from .astutil import walk_no_nested, calls_in, text, short, names_loaded

SET_CTORS = {"set", "frozenset"}
SET_BINOPS = (ast.BitOr, ast.BitAnd, ast.Sub, ast.BitXor)
SET_METHODS = {"union", "intersection", "difference", "symmetric_difference", "copy"}
SEQ_WRAPPERS = {"list", "tuple", "iter", "enumerate", "reversed", "zip", "map", "filter",
                "itertools.chain", "itertools.islice", "dict.fromkeys", "OrderedDict.fromkeys",
                "OrderedDict", "dict", "itertools.product", "itertools.groupby"}
REDUCERS = {"sorted", "len", "min", "max", "sum", "any", "all", "bool", "set", "frozenset",
            "SortedSet", "Counter", "isinstance"}


# Sort keys known to be injective on the elements they are applied to (a keyed sort is a total
# order -- and hence a sanitiser -- only then: ties keep the incoming, unordered, order).
INJECTIVE_KEYS = {
  # (module, canonical key text, required suffix of what is sorted or None): reason
  ("useractions", "lambda x: x.node", "._back_references"):
    "a column's node (table_id, col_id) identifies it uniquely among the back references",
  ("lookup", "sort_key", None):
    "SortKey compares the sort values and then the row id (sort_key.py), None means plain sorted",
}


def _key_function(fn, key):
  """(parameter name, [result expressions]) of a sort key written as a lambda, as a local `def`
  (or a local bound to a lambda) of the enclosing function; None when it is neither."""
  from .rules._h_F import local_function, function_results, all_params, res_of, Res
  f = local_function(fn, key)
  if f is None:
    # a function of the same module, or a method of the same class, named as the key
    fi = None
    mod = getattr(fn.fi, "module", None)
    if isinstance(key, ast.Name) and mod is not None:
      fi = mod.functions.get(key.id)
    elif isinstance(key, ast.Attribute) and isinstance(key.value, ast.Name) and \
        key.value.id in ("self", "cls") and getattr(fn.fi, "cls", None) is not None:
      fi = fn.world.repo.find_method(fn.fi.cls, key.attr)
    if fi is None:
      return None
    ps = [p for p in fi.params() if not (fi.cls is not None and p in ("self", "cls"))]
    if len(ps) != 1 or fi.node.args.vararg or fi.node.args.kwarg:
      return None
    try:
      r = res_of(fn.world, fn.world.fn_of(fi))
      leaves = [leaf for (n, v) in r.returns() for (facts, leaf) in Res.cases(v)]
      if not leaves or r.falls_off_end():
        return None
    except Exception:
      return None
    return ps[0], leaves
  ps = all_params(f)
  if isinstance(f, ast.Lambda):
    if len(ps) != 1:
      return None
    return ps[0], [f.body]
  if len(ps) != 1 or f.args.defaults:
    return None
  try:
    leaves = [leaf for (facts, leaf) in function_results(fn.world, f, fn.fi)]
  except Exception:
    return None
  if not leaves:
    return None
  return ps[0], leaves


def key_canon(fn, key):
  """Spelling-independent text of a sort key: `lambda x: <result>` with the parameter renamed to
  x, whether the key is an inline lambda or a named local function returning that expression."""
  kf = _key_function(fn, key)
  if kf is None or len(kf[1]) != 1:
    return text(key)
  p, (body,) = kf
  import copy
  b = copy.deepcopy(body)
  for n in ast.walk(b):
    if isinstance(n, ast.Name) and n.id == p:
      n.id = "x"
  return "lambda x: " + text(b)


def key_has_element(fn, call):
  """sorted(...)/.sort(...) whose key (every result of it) is the element itself or a tuple with
  the element as a member: ties are impossible between distinct elements."""
  key = None
  for k in call.keywords:
    if k.arg == "key":
      key = k.value
  if key is None:
    return True
  kf = _key_function(fn, key)
  if kf is None:
    return False
  p, leaves = kf
  def has(body):
    if isinstance(body, ast.Name) and body.id == p:
      return True
    return isinstance(body, ast.Tuple) and any(isinstance(e, ast.Name) and e.id == p
                                               for e in body.elts)
  return all(has(b) for b in leaves)


def key_is_injective(fn, call):
  """sorted(...)/.sort(...) call: no key, or a key that cannot tie on distinct elements."""
  key = None
  for k in call.keywords:
    if k.arg == "key":
      key = k.value
  if key is None or key_has_element(fn, call):
    return True
  mod = fn.fi.module.name if getattr(fn.fi, "module", None) is not None else None
  canon = {key_canon(fn, key), text(key)}
  for (m, k, suffix) in INJECTIVE_KEYS:
    if m != mod or k not in canon:
      continue
    if suffix is None:
      return True
    subject = call.args[0] if call.args else None
    if subject is None and isinstance(call.func, ast.Attribute):
      subject = call.func.value          # <list>.sort(key=...)
    if subject is None:
      continue
    if text(subject).endswith(suffix):
      return True
    from .rules._h_F import res_of
    r = res_of(fn.world, fn)
    at = r.node_of_expr(call)
    if at and r.norm(subject, at[0].id).endswith(suffix):
      return True
  return False


def key_known(fn, call):
  """Can the sort key of this sorted()/sort() call be inspected (no key, a lambda / local or
  module-level function whose results are visible, or a key listed in INJECTIVE_KEYS)?"""
  key = None
  for k in call.keywords:
    if k.arg == "key":
      key = k.value
  if key is None or _key_function(fn, key) is not None:
    return True
  return key_is_injective(fn, call)


def _undecided_key(fn, call):
  from .index import AnalysisError
  raise AnalysisError("%s: an unordered value is sorted with a key that cannot be inspected (%s): "
                      "whether ties are possible is undecided" % (fn.qualname, short(call, 70)))


class FnTaint(object):
  """Taint facts for one function."""
  def __init__(self, ana, fn):
    self.ana = ana
    self.fn = fn
    self.setvars = set()
    self.seqvars = set()
    self.setlists = set()     # lists whose elements are sets (factors of itertools.product)
    self.sorted_lists = set()
    # Flow-sensitivity per local: taint is recorded per *definition* (name, cfg node id); a use is
    # tainted when a tainted definition can reach it. A name rebound later to something else (or
    # reused for an unrelated value) does not inherit the earlier value's taint.
    self.setdefs = set()
    self.seqdefs = set()
    self._res = None
    self._where = None
    self._solve()

  # ---- where is a Name evaluated / which definitions reach it ------------------------------
  def _locate(self):
    if self._where is None:
      from .rules._h_F import res_of
      self._res = res_of(self.fn.world, self.fn)
      self._where = {}
      self._stmt_node = {}
      for n in self._res.cfg.nodes:
        if n.stmt is not None:
          self._stmt_node.setdefault(id(n.stmt), n.id)
        for e in n.exprs:
          for x in ast.walk(e):
            if isinstance(x, ast.Name):
              self._where.setdefault(id(x), n.id)
    return self._where

  def _reaching_defs(self, name_node):
    """ids of the definitions of a Name that reach its use, or None when unknown (parameter,
    closure, nested scope): the caller falls back to the flow-insensitive answer."""
    nid = self._locate().get(id(name_node))
    if nid is None:
      return None
    r = self._res
    if name_node.id in r.params and not r.defs.get(name_node.id):
      return None
    defs, entry = r.reaching(nid, name_node.id)
    if not defs:
      return None
    return defs

  def _name_in(self, name_node, flat, perdef):
    if name_node.id not in flat:
      return False
    defs = self._reaching_defs(name_node)
    if defs is None:
      return True
    tainted = {d for (nm, d) in perdef if nm == name_node.id}
    if not tainted:
      return True          # tainted by accumulation only (no defining statement recorded)
    return bool(defs & tainted)

  # ---- expression classification -----------------------------------------------------
  def is_set(self, e):
    if isinstance(e, (ast.Set, ast.SetComp)):
      return True
    if isinstance(e, ast.Name):
      return self._name_in(e, self.setvars, self.setdefs)
    if isinstance(e, ast.Attribute):
      t = self.fn.type_of(e)
      return bool(t) and t.startswith(("set:", "set["))
    if isinstance(e, ast.Call):
      d = dotted(e.func)
      if d in SET_CTORS:
        return True
      if isinstance(e.func, ast.Attribute) and e.func.attr in SET_METHODS and \
          self.is_set(e.func.value):
        return True
      tg = self.ana.cg.resolve(self.fn, e)
      if tg and all(t.qualname in self.ana.set_returns for t in tg):
        return True
      return False
    if isinstance(e, ast.BinOp) and isinstance(e.op, SET_BINOPS):
      def keysview(x):
        return isinstance(x, ast.Call) and isinstance(x.func, ast.Attribute) and \
            x.func.attr in ("keys", "items") and not x.args
      return self.is_set(e.left) or self.is_set(e.right) or \
          (keysview(e.left) and not isinstance(e.op, ast.Sub) or
           (keysview(e.left) and isinstance(e.op, ast.Sub)))
    if isinstance(e, ast.IfExp):
      return self.is_set(e.body) or self.is_set(e.orelse)
    return False

  def is_seq(self, e):
    """Order-tainted sequence/dict/generator."""
    if isinstance(e, ast.Name):
      return e.id not in self.sorted_lists and self._name_in(e, self.seqvars, self.seqdefs)
    if isinstance(e, (ast.ListComp, ast.GeneratorExp, ast.DictComp)):
      return any(self.unordered(g.iter) for g in e.generators)
    if isinstance(e, ast.Call):
      d = dotted(e.func)
      if d == "sorted" and e.args and not key_is_injective(self.fn, e):
        if not self.unordered(e.args[0]):
          return False
        if not key_known(self.fn, e):
          _undecided_key(self.fn, e)
        return True                          # ties keep the unordered incoming order
      if d in REDUCERS:
        return False
      if d in ("itertools.product", "product"):
        # the order of a product follows the order of each factor
        for a in e.args:
          v = a.value if isinstance(a, ast.Starred) else a
          if self.unordered(v) or (isinstance(v, ast.Name) and v.id in self.setlists):
            return True
        return False
      if d in SEQ_WRAPPERS:
        return any(self.unordered(a) for a in e.args)
      if isinstance(e.func, ast.Attribute):
        if e.func.attr in ("items", "keys", "values") and not e.args:
          return self.is_seq(e.func.value)
        if e.func.attr == "join":
          return any(self.unordered(a) for a in e.args)
      # function whose return value is order-tainted
      tg = self.ana.cg.resolve(self.fn, e)
      if tg and len(tg) <= 8 and any(t.qualname in self.ana.tainted_returns for t in tg):
        return True
      return False
    if isinstance(e, ast.BinOp) and isinstance(e.op, ast.Add):
      return self.is_seq(e.left) or self.is_seq(e.right)
    if isinstance(e, ast.IfExp):
      return self.is_seq(e.body) or self.is_seq(e.orelse)
    if isinstance(e, ast.Starred):
      return self.unordered(e.value)
    if isinstance(e, (ast.List, ast.Tuple)):
      return any(isinstance(x, ast.Starred) and self.unordered(x.value) for x in e.elts)
    return False

  def unordered(self, e):
    return self.is_set(e) or self.is_seq(e)

  # ---- solving ---------------------------------------------------------------------------
  def _solve(self):
    node = self.fn.node
    # lists sorted in place anywhere in the function are treated as sanitised
    for c in calls_in(node.body):
      if isinstance(c.func, ast.Attribute) and c.func.attr == "sort" and \
          isinstance(c.func.value, ast.Name) and key_is_injective(self.fn, c):
        self.sorted_lists.add(c.func.value.id)
    changed = True
    guard = 0
    while changed and guard < 10:
      guard += 1
      changed = False
      for s in node.body:
        for n in walk_no_nested(s):
          if isinstance(n, ast.Assign):
            for t in n.targets:
              if isinstance(t, ast.Name):
                changed |= self._bind(t.id, n.value, n)
          elif isinstance(n, ast.Call) and isinstance(n.func, ast.Attribute) and \
              n.func.attr == "append" and isinstance(n.func.value, ast.Name) and n.args and \
              self.is_set(n.args[0]):
            changed |= self._add(self.setlists, n.func.value.id)
          elif isinstance(n, ast.AugAssign) and isinstance(n.target, ast.Name):
            if self.unordered(n.value):
              changed |= self._add(self.seqvars if not self.is_set(n.target) else self.setvars,
                                   n.target.id)
          elif isinstance(n, (ast.For, ast.comprehension)):
            if self.unordered(n.iter):
              body = n.body if isinstance(n, ast.For) else []
              for b in body:
                for m in walk_no_nested(b):
                  tgt = self._accumulated(m)
                  if tgt and tgt not in self.setvars:
                    changed |= self._add(self.seqvars, tgt)
                    changed |= self._taint_object(tgt, b)

  def _accumulated(self, m):
    """Name of a local list/dict that statement/expression m grows in iteration order."""
    if isinstance(m, ast.Call) and isinstance(m.func, ast.Attribute) and \
        m.func.attr in ("append", "extend", "insert", "setdefault") and \
        isinstance(m.func.value, ast.Name):
      return m.func.value.id
    if isinstance(m, ast.Call) and isinstance(m.func, ast.Attribute) and \
        m.func.attr in ("append", "extend") and isinstance(m.func.value, ast.Call) and \
        isinstance(m.func.value.func, ast.Attribute) and \
        m.func.value.func.attr == "setdefault" and isinstance(m.func.value.func.value, ast.Name):
      return m.func.value.func.value.id
    if isinstance(m, ast.Assign):
      for t in m.targets:
        if isinstance(t, ast.Subscript) and isinstance(t.value, ast.Name):
          return t.value.id
    if isinstance(m, ast.AugAssign) and isinstance(m.target, ast.Name) and \
        isinstance(m.op, ast.Add):
      return m.target.id
    return None

  def _bind(self, name, value, stmt=None):
    self._locate()
    nid = self._stmt_node.get(id(stmt)) if stmt is not None else None
    if self.is_set(value):
      ch = self._add(self.setvars, name)
      if nid is not None:
        ch |= self._add(self.setdefs, (name, nid))
      return ch
    if self.is_seq(value):
      ch = self._add(self.seqvars, name)
      if nid is not None:
        ch |= self._add(self.seqdefs, (name, nid))
      return ch
    return False

  def _taint_object(self, name, stmt):
    """A list/dict grown in unordered iteration order inside statement `stmt`: every definition
    of the name that reaches the growing statement denotes a tainted object."""
    self._locate()
    nid = self._stmt_node.get(id(stmt))
    if nid is None:
      return False
    defs, entry = self._res.reaching(nid, name)
    ch = False
    for d in defs:
      ch |= self._add(self.seqdefs, (name, d))
    return ch

  @staticmethod
  def _add(s, x):
    if x in s:
      return False
    s.add(x)
    return True

  def tainted_names_in(self, e):
    """Names inside e that carry order taint and are not under a sanitiser in e."""
    out = []
    def go(x, clean):
      if isinstance(x, ast.Call) and dotted(x.func) in REDUCERS and \
          not (dotted(x.func) == "sorted" and not key_is_injective(self.fn, x)):
        clean = True
      elif isinstance(x, ast.Call) and dotted(x.func) == "sorted" and x.args and not clean and \
          not key_known(self.fn, x) and self.unordered(x.args[0]):
        _undecided_key(self.fn, x)
      if isinstance(x, (ast.Lambda,)):
        return
      if not clean and isinstance(x, ast.AST) and self.unordered(x) and \
          isinstance(x, (ast.Name, ast.Attribute, ast.Set, ast.SetComp, ast.ListComp,
                         ast.GeneratorExp, ast.DictComp, ast.Call, ast.BinOp)):
        out.append(x)
        return
      for ch in ast.iter_child_nodes(x):
        go(ch, clean)
    go(e, False)
    return out


class Analysis(object):
  def __init__(self, world, cg):
    self.w = world
    self.cg = cg
    self.tainted_returns = set()
    self.set_returns = set()
    self._ft = {}
    self._fixpoint()

  def ft(self, fi):
    if fi.qualname not in self._ft:
      self._ft[fi.qualname] = FnTaint(self, self.w.fn_of(fi))
    return self._ft[fi.qualname]

  def _fixpoint(self):
    for _ in range(4):
      self._ft = {}
      new, news = set(), set()
      for fi in self.w.repo.all_functions():
        ft = self.ft(fi)
        rets = [n for s in fi.node.body for n in walk_no_nested(s)
                if isinstance(n, ast.Return) and n.value is not None]
        if any(ft.is_seq(n.value) for n in rets):
          new.add(fi.qualname)
        if rets and all(ft.is_set(n.value) for n in rets):
          news.add(fi.qualname)
      if new == self.tainted_returns and news == self.set_returns:
        break
      self.tainted_returns, self.set_returns = new, news
