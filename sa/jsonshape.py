"""
JSON-shape abstract interpretation (C25-R2).

A value produced by json.loads / safe_parse is "any JSON": its kind is one of
{dict, list, str, num, bool, none}. Every operation that needs a particular shape must be applied
under a guard that has narrowed the kinds accordingly, or inside a try that catches Exception.

The interpreter walks the statements of one function structurally (if / for / while / try / with /
return), keeps an environment  name -> abstract value, refines it on isinstance / truthiness /
None tests (including short-circuit and/or and conditional expressions), inlines local closures at
their call sites, and records one obligation per shape-needing operation on a JSON value.
Statement kinds outside this subset raise AnalysisError.
"""
import ast
from .index import dotted, AnalysisError
from .astutil import text, short

ALL = frozenset(["dict", "list", "str", "num", "bool", "none"])
ITERABLE = frozenset(["dict", "list", "str"])
HASHABLE = frozenset(["str", "num", "bool", "none"])
NUMERIC = frozenset(["num", "bool"])

ISINSTANCE_KINDS = {"dict": {"dict"}, "list": {"list"}, "str": {"str"}, "int": {"num", "bool"},
                    "float": {"num"}, "bool": {"bool"}, "tuple": set(), "Number": {"num", "bool"}}


class J(object):
  """A JSON value with a set of possible kinds."""
  __slots__ = ("kinds",)
  def __init__(self, kinds=ALL):
    self.kinds = frozenset(kinds)
  def __repr__(self):
    return "J{%s}" % ",".join(sorted(self.kinds))


class Cont(object):
  """A python container (built by the code itself) whose elements / values are JSON values."""
  __slots__ = ("elem",)
  def __init__(self, elem):
    self.elem = elem


def join(a, b):
  if isinstance(a, J) and isinstance(b, J):
    return J(a.kinds | b.kinds)
  if isinstance(a, J) and b is None:
    return a        # a non-JSON python value on the other path cannot fail shape checks
  if isinstance(b, J) and a is None:
    return b
  if isinstance(a, Cont) and isinstance(b, Cont):
    return Cont(join(a.elem, b.elem))
  return a if b is None else (b if a is None else None)


def join_env(e1, e2):
  if e1 is None:
    return e2
  if e2 is None:
    return e1
  out = {}
  for k in set(e1) | set(e2):
    out[k] = join(e1.get(k), e2.get(k))
  return out


class Op(object):
  def __init__(self, node, need, value, ok, func, via=()):
    self.node = node
    self.need = need
    self.value = value
    self.ok = ok
    self.func = func
    self.via = via      # call sites (text) through which a helper's operation was reached


class Interp(object):
  def __init__(self, sources, closures=None, func_name=""):
    """sources: set of dotted callee names that return arbitrary JSON."""
    self.sources = sources
    self.ops = []
    self.closures = closures or {}
    self.func_name = func_name
    self.fenced = 0
    self._inline_depth = 0
    self._via = []

  # ------------------------------------------------------------------ obligations
  def need(self, node, what, val, allowed):
    if not isinstance(val, J):
      return
    ok = val.kinds <= frozenset(allowed) or self.fenced > 0
    self.ops.append(Op(node, what, val, ok, self.func_name, tuple(self._via)))

  # ------------------------------------------------------------------ expressions
  def ev(self, e, env):
    """Abstract value of expression e (None = not JSON-derived); records obligations."""
    if e is None:
      return None
    if isinstance(e, ast.Name):
      return env.get(e.id)
    if isinstance(e, ast.Constant):
      return None
    if isinstance(e, ast.Call):
      return self.ev_call(e, env)
    if isinstance(e, ast.Attribute):
      v = self.ev(e.value, env)
      if isinstance(v, J):
        self.need(e, "attribute .%s needs an object" % e.attr, v, ())
      return None
    if isinstance(e, ast.Subscript):
      v = self.ev(e.value, env)
      self.ev(e.slice, env)
      if isinstance(v, J):
        guarded = self._key_guarded(e, env)
        minlen = env.get(("__len__", text(e.value)), 0)
        idx = e.slice.value if isinstance(e.slice, ast.Constant) and \
            isinstance(e.slice.value, int) and not isinstance(e.slice.value, bool) else None
        if guarded:
          self.need(e, "subscript needs a dict holding that key", v, {"dict"})
        elif idx is not None and 0 <= idx < minlen:
          self.need(e, "index %d needs a list/str of at least %d items" % (idx, idx + 1), v,
                    {"list", "str"})
        else:
          self.need(e, "subscript can raise TypeError/KeyError/IndexError", v, ())
        return J(ALL)
      if isinstance(v, Cont):
        k = self.ev(e.slice, env)
        return v.elem
      return None
    if isinstance(e, ast.BoolOp):
      cur = env
      out = None
      for i, x in enumerate(e.values):
        v = self.ev(x, cur)
        out = join(out, v) if i else v
        t, f = self.refine(x, cur)
        cur = t if isinstance(e.op, ast.And) else f
        if cur is None:
          cur = env
      return out
    if isinstance(e, ast.IfExp):
      self.ev(e.test, env)
      t, f = self.refine(e.test, env)
      a = self.ev(e.body, t if t is not None else env)
      b = self.ev(e.orelse, f if f is not None else env)
      return join(a, b)
    if isinstance(e, ast.UnaryOp):
      v = self.ev(e.operand, env)
      if isinstance(e.op, (ast.USub, ast.UAdd, ast.Invert)):
        self.need(e, "arithmetic needs a number", v, NUMERIC)
      return None
    if isinstance(e, ast.BinOp):
      l, r = self.ev(e.left, env), self.ev(e.right, env)
      if isinstance(e.op, ast.Mod) and isinstance(e.left, ast.Constant) and \
          isinstance(e.left.value, str):
        return None     # "..." % value formatting accepts anything
      self.need(e, "arithmetic needs a number", l, NUMERIC)
      self.need(e, "arithmetic needs a number", r, NUMERIC)
      return None
    if isinstance(e, ast.Compare):
      l = self.ev(e.left, env)
      for op, c in zip(e.ops, e.comparators):
        r = self.ev(c, env)
        if isinstance(op, (ast.In, ast.NotIn)):
          self.need(e, "membership test needs a container", r, ITERABLE)
          if isinstance(r, J) and "str" in r.kinds and not self.fenced:
            pass
          if isinstance(l, J) and not isinstance(r, (J,)):
            # JSON value looked up in a python set/dict: must be hashable
            self.need(e, "membership in a set/dict needs a hashable value", l, HASHABLE)
        elif isinstance(op, (ast.Lt, ast.LtE, ast.Gt, ast.GtE)):
          self.need(e, "ordering comparison needs a number", l, NUMERIC)
          self.need(e, "ordering comparison needs a number", r, NUMERIC)
        l = r
      return None
    if isinstance(e, (ast.List, ast.Tuple, ast.Set)):
      vals = [self.ev(x, env) for x in e.elts]
      if isinstance(e, ast.Set):
        for x, v in zip(e.elts, vals):
          self.need(x, "set element needs a hashable value", v, HASHABLE)
      js = [v for v in vals if isinstance(v, J)]
      return Cont(J(ALL)) if js else None
    if isinstance(e, ast.Dict):
      for k in e.keys:
        kv = self.ev(k, env)
        self.need(k, "dict key needs a hashable value", kv, HASHABLE)
      vals = [self.ev(v, env) for v in e.values]
      return Cont(J(ALL)) if any(isinstance(v, J) for v in vals) else None
    if isinstance(e, (ast.ListComp, ast.SetComp, ast.GeneratorExp, ast.DictComp)):
      return self.ev_comp(e, env)
    if isinstance(e, ast.JoinedStr):
      for v in e.values:
        if isinstance(v, ast.FormattedValue):
          self.ev(v.value, env)
      return None
    if isinstance(e, ast.Starred):
      return self.ev(e.value, env)
    if isinstance(e, ast.Lambda):
      return None
    if isinstance(e, ast.NamedExpr):
      v = self.ev(e.value, env)
      env[e.target.id] = v
      return v
    if isinstance(e, ast.Slice):
      self.ev(e.lower, env); self.ev(e.upper, env); self.ev(e.step, env)
      return None
    raise AnalysisError("expression outside the JSON-shape subset: %s" % short(e))

  def _key_guarded(self, sub, env):
    """v[k] where a dominating condition `k in v` holds is recorded in env under a marker."""
    return ("__has__", text(sub.value), text(sub.slice)) in env

  def ev_comp(self, e, env):
    env = dict(env)
    for g in e.generators:
      it = self.ev(g.iter, env)
      self.bind_iter(g.target, g.iter, it, env)
      for c in g.ifs:
        self.ev(c, env)
        t, f = self.refine(c, env)
        if t is not None:
          env = t
    if isinstance(e, ast.DictComp):
      k = self.ev(e.key, env)
      self.need(e.key, "dict key needs a hashable value", k, HASHABLE)
      v = self.ev(e.value, env)
      return Cont(v) if isinstance(v, (J, Cont)) else None
    v = self.ev(e.elt, env)
    if isinstance(e, ast.SetComp):
      self.need(e.elt, "set element needs a hashable value", v, HASHABLE)
    return Cont(v) if isinstance(v, (J, Cont)) else None

  def bind_iter(self, target, iter_node, it, env):
    if isinstance(it, J):
      self.need(iter_node, "iteration needs a list/dict/str", it, ITERABLE)
      elem = J(ALL)
    elif isinstance(it, Cont):
      elem = it.elem
    else:
      elem = None
    if isinstance(target, ast.Name):
      env[target.id] = elem
    else:
      for n in ast.walk(target):
        if isinstance(n, ast.Name):
          env[n.id] = None
      # (k, v) in <Cont>.items()
      if isinstance(iter_node, ast.Call) and isinstance(iter_node.func, ast.Attribute) and \
          iter_node.func.attr == "items" and isinstance(target, ast.Tuple) and \
          len(target.elts) == 2 and isinstance(target.elts[1], ast.Name):
        base = self.ev_quiet(iter_node.func.value, env)
        if isinstance(base, Cont):
          env[target.elts[1].id] = base.elem
        elif isinstance(base, J):
          env[target.elts[1].id] = J(ALL)

  def ev_quiet(self, e, env):
    saved = self.ops
    self.ops = []
    try:
      return self.ev(e, env)
    finally:
      self.ops = saved

  def ev_call(self, c, env):
    d = dotted(c.func)
    args = [self.ev(a, env) for a in c.args]
    kwargs = {k.arg: self.ev(k.value, env) for k in c.keywords}
    if d in self.sources:
      return J(ALL)
    if d in ("isinstance", "bool", "str", "repr", "json.dumps", "type", "id", "print",
             "log.info", "log.warning", "log.debug", "hash" if False else "isinstance"):
      return None
    if d == "len":
      if args:
        self.need(c, "len() needs a sized value", args[0], ITERABLE)
      return None
    if d in ("int", "float"):
      if args:
        self.need(c, "%s() needs a number" % d, args[0], NUMERIC)
      return None
    if d in ("all", "any", "list", "tuple", "sorted", "set", "iter", "enumerate", "reversed",
             "sum", "min", "max", "dict", "zip"):
      for a, v in zip(c.args, args):
        if isinstance(v, J):
          self.need(a, "iteration needs a list/dict/str", v, ITERABLE)
      if d in ("set",) and args and isinstance(args[0], (J, Cont)):
        el = args[0].elem if isinstance(args[0], Cont) else J(ALL)
        self.need(c, "set element needs a hashable value", el, HASHABLE)
      if d in ("list", "tuple", "sorted", "reversed") and args and isinstance(args[0], (J, Cont)):
        return Cont(J(ALL)) if isinstance(args[0], J) else args[0]
      return None
    # local closure: inline
    if isinstance(c.func, ast.Name) and c.func.id in self.closures and self._inline_depth < 3:
      fdef = self.closures[c.func.id]
      params = [a.arg for a in fdef.args.args]
      cenv = dict(env)
      for p, v in zip(params, args):
        cenv[p] = v
      for p in params[len(args):]:
        cenv[p] = kwargs.get(p)
      self._inline_depth += 1
      self._via.append(short(c, 60))
      try:
        ret = self.run_body(fdef.body, cenv)
      finally:
        self._inline_depth -= 1
        self._via.pop()
      return ret
    if isinstance(c.func, ast.Attribute):
      recv = self.ev(c.func.value, env)
      m = c.func.attr
      if isinstance(recv, J):
        if m in ("get", "pop", "items", "keys", "values", "setdefault", "update", "copy"):
          self.need(c, ".%s() needs a dict" % m, recv, {"dict"})
          if m in ("get", "pop", "setdefault"):
            return J(ALL)
          if m in ("items", "values", "keys"):
            return Cont(J(ALL))
          return None
        if m in ("append", "extend", "insert", "remove", "index", "count", "sort"):
          self.need(c, ".%s() needs a list" % m, recv, {"list"})
          return None
        if m in ("startswith", "endswith", "split", "strip", "lower", "upper", "replace",
                 "format", "join", "encode"):
          self.need(c, ".%s() needs a str" % m, recv, {"str"})
          return None
        self.need(c, ".%s() needs an object of a specific type" % m, recv, ())
        return None
      if isinstance(recv, Cont):
        if m in ("get", "pop"):
          return recv.elem
        if m in ("values",):
          return recv
        if m in ("items",):
          return recv
        if m in ("append", "add"):
          return None
        return None
      # python dict/set lookups with a JSON value as key
      if m in ("get", "pop", "setdefault", "add", "remove", "discard", "index", "__getitem__"):
        if args:
          self.need(c, "key/element of a python dict/set needs a hashable value", args[0],
                    HASHABLE)
      return None
    return None

  # ------------------------------------------------------------------ refinement
  def refine(self, test, env):
    """(env if test is true, env if test is false); either may be None (= unchanged copy)."""
    t, f = dict(env), dict(env)
    if isinstance(test, ast.UnaryOp) and isinstance(test.op, ast.Not):
      a, b = self.refine(test.operand, env)
      return b, a
    if isinstance(test, ast.BoolOp):
      if isinstance(test.op, ast.And):
        cur = dict(env)
        for x in test.values:
          a, _ = self.refine(x, cur)
          cur = a
        return cur, dict(env)
      else:
        cur = dict(env)
        for x in test.values:
          _, b = self.refine(x, cur)
          cur = b
        return dict(env), cur
    if isinstance(test, ast.Name):
      v = env.get(test.id)
      if isinstance(v, J):
        t[test.id] = J(v.kinds - {"none"})
        self._spread(test.id, env, t, f)
      elif ("__cond__", test.id) in env:
        # a local holding the outcome of an earlier test: `ok = isinstance(v, dict)` ... `if ok:`
        return self.refine(env[("__cond__", test.id)], env)
      return t, f
    if isinstance(test, ast.Call) and isinstance(test.func, ast.Name) and \
        test.func.id in self.closures and not test.keywords:
      # a predicate helper `def h(x): return <test over x>` called on plain names
      e = _predicate_body(self.closures[test.func.id], test.args)
      if e is not None:
        return self.refine(e, env)
      return t, f
    if isinstance(test, ast.Call) and dotted(test.func) == "isinstance" and len(test.args) == 2 \
        and isinstance(test.args[0], ast.Name):
      v = env.get(test.args[0].id)
      if isinstance(v, J):
        ts = test.args[1].elts if isinstance(test.args[1], ast.Tuple) else [test.args[1]]
        kinds = set()
        for x in ts:
          nm = (dotted(x) or "").split(".")[-1]
          if nm not in ISINSTANCE_KINDS:
            return t, f
          kinds |= ISINSTANCE_KINDS[nm]
        t[test.args[0].id] = J(v.kinds & kinds)
        # isinstance(x, int) is also true for bools; the false branch keeps what is not covered
        f[test.args[0].id] = J(v.kinds - kinds)
        self._spread(test.args[0].id, env, t, f)
      return t, f
    if isinstance(test, ast.Compare) and len(test.ops) == 1:
      l, op, r = test.left, test.ops[0], test.comparators[0]
      if isinstance(l, ast.Name) and isinstance(r, ast.Constant) and r.value is None and \
          isinstance(env.get(l.id), J):
        v = env[l.id]
        if isinstance(op, (ast.Is, ast.Eq)):
          t[l.id] = J(v.kinds & {"none"}); f[l.id] = J(v.kinds - {"none"})
        elif isinstance(op, (ast.IsNot, ast.NotEq)):
          f[l.id] = J(v.kinds & {"none"}); t[l.id] = J(v.kinds - {"none"})
        self._spread(l.id, env, t, f)
        return t, f
      # len(v) >= n / len(v) > n  establishes a minimum length
      if isinstance(l, ast.Call) and dotted(l.func) == "len" and len(l.args) == 1 and \
          isinstance(r, ast.Constant) and isinstance(r.value, int):
        key = ("__len__", text(l.args[0]))
        if isinstance(op, ast.GtE):
          t[key] = max(t.get(key, 0), r.value)
        elif isinstance(op, ast.Gt):
          t[key] = max(t.get(key, 0), r.value + 1)
        elif isinstance(op, ast.Eq):
          t[key] = max(t.get(key, 0), r.value)
        elif isinstance(op, ast.Lt):
          f[key] = max(f.get(key, 0), r.value)
        elif isinstance(op, ast.LtE):
          f[key] = max(f.get(key, 0), r.value + 1)
        return t, f
      if isinstance(op, ast.In):
        t[("__has__", text(r), text(l))] = True
        return t, f
      if isinstance(op, ast.NotIn):
        f[("__has__", text(r), text(l))] = True
        return t, f
    return t, f

  def _spread(self, name, env, t, f):
    """What a test established for `name` also holds for the locals that are the same value
    (`b = a` with neither rebound since)."""
    grp = env.get(("__same__", name))
    if not grp:
      return
    for other in grp:
      if other != name and isinstance(env.get(other), J):
        if name in t:
          t[other] = t[name]
        if name in f:
          f[other] = f[name]

  # ------------------------------------------------------------------ statements
  def run_body(self, stmts, env):
    """Interpret statements; returns the join of returned abstract values. env is updated in
    place to the fall-through environment; the key '__dead__' marks no fall-through."""
    ret = None
    for s in stmts:
      if env.get("__dead__"):
        break
      r = self.stmt(s, env)
      ret = join(ret, r)
    return ret

  def stmt(self, s, env):
    if isinstance(s, ast.Expr):
      self.ev(s.value, env)
      return None
    if isinstance(s, ast.Assign):
      v = self.ev(s.value, env)
      for t in s.targets:
        self.assign(t, v, env, s.value)
      return None
    if isinstance(s, ast.AugAssign):
      v = self.ev(s.value, env)
      cur = self.ev(s.target, env) if isinstance(s.target, ast.Name) else None
      if isinstance(s.op, (ast.Add, ast.Sub, ast.Mult, ast.Div)) and isinstance(cur, J):
        self.need(s, "arithmetic needs a number", cur, NUMERIC)
      return None
    if isinstance(s, ast.AnnAssign):
      if s.value is not None:
        self.assign(s.target, self.ev(s.value, env), env, s.value)
      return None
    if isinstance(s, ast.Return):
      v = self.ev(s.value, env) if s.value is not None else None
      env["__dead__"] = True
      return v
    if isinstance(s, (ast.Raise,)):
      if s.exc is not None:
        self.ev(s.exc, env)
      env["__dead__"] = True
      return None
    if isinstance(s, (ast.Continue, ast.Break)):
      env["__dead__"] = True
      return None
    if isinstance(s, (ast.Pass, ast.Import, ast.ImportFrom, ast.Global, ast.Nonlocal)):
      return None
    if isinstance(s, ast.Assert):
      self.ev(s.test, env)
      t, _ = self.refine(s.test, env)
      env.clear(); env.update(t)
      return None
    if isinstance(s, ast.Delete):
      return None
    if isinstance(s, (ast.FunctionDef, ast.AsyncFunctionDef)):
      self.closures = dict(self.closures)
      self.closures[s.name] = s
      return None
    if isinstance(s, ast.If):
      self.ev(s.test, env)
      t, f = self.refine(s.test, env)
      r1 = self.run_body(s.body, t)
      r2 = self.run_body(s.orelse, f)
      new = join_env(None if t.get("__dead__") else t, None if f.get("__dead__") else f)
      env.clear()
      if new is None:
        env["__dead__"] = True
      else:
        env.update(new)
      return join(r1, r2)
    if isinstance(s, (ast.For, ast.AsyncFor)):
      it = self.ev(s.iter, env)
      ret = None
      for _ in range(2):      # two rounds reach the fixpoint of this join-only domain
        benv = dict(env)
        self.bind_iter(s.target, s.iter, it if _ == 0 else self.ev_quiet(s.iter, env), benv)
        saved = self.ops
        if _ == 0:
          self.ops = []       # first round only propagates bindings
        r = self.run_body(s.body, benv)
        if _ == 0:
          self.ops = saved
        benv.pop("__dead__", None)
        merged = join_env(dict(env), benv)
        env.clear(); env.update(merged)
        ret = join(ret, r)
      ret = join(ret, self.run_body(s.orelse, env))
      return ret
    if isinstance(s, ast.While):
      self.ev(s.test, env)
      benv = dict(env)
      r = self.run_body(s.body, benv)
      benv.pop("__dead__", None)
      merged = join_env(dict(env), benv)
      env.clear(); env.update(merged)
      return r
    if isinstance(s, (ast.With, ast.AsyncWith)):
      for it in s.items:
        self.ev(it.context_expr, env)
      return self.run_body(s.body, env)
    if isinstance(s, ast.Try):
      fence = any(_catches_all(h) for h in s.handlers)
      before = dict(env)
      if fence:
        self.fenced += 1
      try:
        r = self.run_body(s.body, env)
      finally:
        if fence:
          self.fenced -= 1
      body_dead = env.pop("__dead__", None)
      r = join(r, self.run_body(s.orelse, env)) if not body_dead else r
      out = None if body_dead or env.get("__dead__") else dict(env)
      for h in s.handlers:
        henv = join_env(dict(before), dict(env))
        henv.pop("__dead__", None)
        r = join(r, self.run_body(h.body, henv))
        if not henv.get("__dead__"):
          out = join_env(out, henv)
      env.clear()
      if out is None:
        env["__dead__"] = True
      else:
        env.update(out)
      if s.finalbody:
        env.pop("__dead__", None) if out is not None else None
        r = join(r, self.run_body(s.finalbody, env))
      return r
    raise AnalysisError("statement outside the JSON-shape subset: %s at line %s"
                        % (s.__class__.__name__, getattr(s, "lineno", "?")))

  def assign(self, target, v, env, value_node):
    if isinstance(target, ast.Name):
      env[target.id] = v
      # a rebinding invalidates membership facts about the old value
      for k in [k for k in env if isinstance(k, tuple) and k[0] in ("__has__", "__len__") and
                k[1] == target.id]:
        del env[k]
      # ... remembered test outcomes that mention it, and its membership in alias groups
      for k in [k for k in env if isinstance(k, tuple) and k[0] == "__cond__" and
                (k[1] == target.id or target.id in _names(env[k]))]:
        del env[k]
      for k in [k for k in env if isinstance(k, tuple) and k[0] == "__same__"]:
        if k[1] == target.id:
          del env[k]
        elif target.id in env[k]:
          env[k] = env[k] - {target.id}
      if isinstance(value_node, ast.Name) and isinstance(v, J) and value_node.id != target.id:
        grp = set(env.get(("__same__", value_node.id), {value_node.id})) | {target.id}
        for nm in grp:
          env[("__same__", nm)] = frozenset(grp)
      elif value_node is not None and _is_test(value_node) and isinstance(value_node, ast.expr):
        env[("__cond__", target.id)] = value_node
    elif isinstance(target, (ast.Tuple, ast.List)):
      for el in target.elts:
        self.assign(el, None, env, value_node)
    elif isinstance(target, ast.Subscript):
      base = target.value
      bv = self.ev(base, env)
      kv = self.ev(target.slice, env)
      if not isinstance(bv, J):
        self.need(target, "dict key needs a hashable value", kv, HASHABLE)
      else:
        self.need(target, "item assignment needs a dict/list", bv, {"dict", "list"})
      if isinstance(base, ast.Name) and isinstance(v, (J, Cont)) and not isinstance(bv, J):
        env[base.id] = join(env.get(base.id), Cont(v if isinstance(v, J) else v.elem)) \
            if isinstance(env.get(base.id), Cont) else Cont(v if isinstance(v, J) else v.elem)
    elif isinstance(target, ast.Attribute):
      self.ev(target.value, env)


def _names(e):
  return {n.id for n in ast.walk(e) if isinstance(n, ast.Name)}


def _is_test(e):
  """An expression whose truth value refine() can interpret (isinstance / None / membership /
  length tests and their and/or/not combinations)."""
  if isinstance(e, ast.UnaryOp) and isinstance(e.op, ast.Not):
    return _is_test(e.operand)
  if isinstance(e, ast.BoolOp):
    return all(_is_test(v) or isinstance(v, ast.Name) for v in e.values) and \
        any(_is_test(v) for v in e.values)
  if isinstance(e, ast.Call):
    return dotted(e.func) == "isinstance"
  return isinstance(e, ast.Compare)


def _predicate_body(fdef, args):
  """For `def h(p...): return <expr>` called with plain names / constants: <expr> with the
  parameters replaced by the arguments; None otherwise."""
  import copy
  body = [x for x in fdef.body if not (isinstance(x, ast.Expr) and
                                       isinstance(x.value, ast.Constant))]
  def fold(stmts):
    # if/return chains read as one boolean expression:
    #   if c: return A      ==>   (c and A) or (not c and <rest>)
    #   <rest>
    if not stmts:
      return ast.Constant(value=None)
    st = stmts[0]
    if isinstance(st, ast.Return):
      return st.value if st.value is not None else ast.Constant(value=None)
    if isinstance(st, ast.If):
      a, b = fold(st.body + stmts[1:]), fold(st.orelse + stmts[1:])
      if a is None or b is None:
        return None
      return ast.BoolOp(op=ast.Or(), values=[
        ast.BoolOp(op=ast.And(), values=[st.test, a]),
        ast.BoolOp(op=ast.And(), values=[ast.UnaryOp(op=ast.Not(), operand=st.test), b])])
    return None
  folded = fold(body)
  if folded is None:
    return None
  body = [ast.Return(value=folded)]
  params = [a.arg for a in fdef.args.args]
  if len(args) != len(params) or not all(isinstance(a, (ast.Name, ast.Constant)) for a in args):
    return None
  sub = dict(zip(params, args))
  bound = {n.id for n in ast.walk(body[0].value)
           if isinstance(n, ast.Name) and isinstance(n.ctx, ast.Store)}
  if bound & set(params):
    return None
  class T(ast.NodeTransformer):
    def visit_Name(self, n):
      if n.id in sub and isinstance(n.ctx, ast.Load):
        return copy.deepcopy(sub[n.id])
      return n
  return T().visit(copy.deepcopy(body[0].value))


def _catches_all(h):
  if h.type is None:
    return True
  names = h.type.elts if isinstance(h.type, ast.Tuple) else [h.type]
  return any(isinstance(n, ast.Name) and n.id in ("Exception", "BaseException") for n in names)


def analyse_function(fnode, sources, qualname, helpers=None):
  """helpers: {name: FunctionDef} of same-module functions that may be called with JSON values;
  they are interpreted at their call sites like local closures (so a guard or an operation that
  was extracted into a helper is still seen)."""
  it = Interp(sources, closures=dict(helpers or {}), func_name=qualname)
  env = {}
  it.run_body(fnode.body, env)
  return it.ops
