"""Per-function analysis wrapper: CFG (normal / exceptional), alias-expanded calls, event nodes."""
import ast
from .cfg import CFG
from .astutil import Aliases, calls_in, text, short, walk_no_nested
from .index import dotted, AnalysisError
from .types import Typer


class World(object):
  """Repo + typer + cache of function wrappers; one per run."""
  def __init__(self, repo):
    self.repo = repo
    self.typer = Typer(repo)
    self._fns = {}
    self._action_types = None

  def fn(self, qualname):
    if qualname not in self._fns:
      self._fns[qualname] = Fn(self, self.repo.func(qualname))
    return self._fns[qualname]

  def fn_of(self, fi):
    if fi.qualname not in self._fns:
      self._fns[fi.qualname] = Fn(self, fi)
    return self._fns[fi.qualname]

  # ---- registries read from the code -------------------------------------------------
  def action_types(self):
    """{name: [fields]} for the namedtuple_eq action types of actions.py (TableData included)."""
    if self._action_types is not None:
      return self._action_types
    mod = self.repo.module("actions")
    out = {}
    for node in mod.tree.body:
      if isinstance(node, ast.Assign) and len(node.targets) == 1 and \
          isinstance(node.targets[0], ast.Name) and isinstance(node.value, ast.Call) and \
          dotted(node.value.func) == "namedtuple_eq" and len(node.value.args) == 2:
        name = node.targets[0].id
        f = node.value.args[1]
        if isinstance(f, ast.Tuple):
          fields = [e.value for e in f.elts if isinstance(e, ast.Constant)]
        elif isinstance(f, ast.Attribute) and f.attr == "_fields" and \
            isinstance(f.value, ast.Name) and f.value.id in out:
          fields = list(out[f.value.id])
        else:
          raise AnalysisError("actions.%s: unrecognised field spec" % name)
        out[name] = fields
    if len(out) < 10:
      raise AnalysisError("actions.py: fewer than 10 action types found")
    self._action_types = out
    return out

  def doc_action_names(self):
    return sorted(n for n in self.action_types() if n != "TableData")

  def schema_action_names(self):
    """actions.schema_actions evaluated statically: names ending in Column/Table."""
    mod = self.repo.module("actions")
    node = mod.assigns.get("schema_actions")
    if node is None:
      raise AnalysisError("actions.schema_actions vanished")
    suffixes = [c.value for c in ast.walk(node)
                if isinstance(c, ast.Constant) and isinstance(c.value, str)]
    if not isinstance(node, ast.SetComp) or not suffixes:
      raise AnalysisError("actions.schema_actions: not a suffix set comprehension any more")
    return sorted(n for n in self.action_types() if any(n.endswith(s) for s in suffixes))

  def useraction_methods(self):
    """FuncInfos of UserActions methods decorated with @useraction."""
    ci = self.repo.cls("useractions.UserActions")
    return {n: f for n, f in ci.methods.items()
            if any(dotted(d) == "useraction" for d in f.decorators())}

  def override_methods(self):
    """{(action, table_id): FuncInfo} from @override_action(...)."""
    ci = self.repo.cls("useractions.UserActions")
    out = {}
    for n, f in ci.methods.items():
      for d in f.decorators():
        if isinstance(d, ast.Call) and dotted(d.func) == "override_action" and len(d.args) == 2 \
            and all(isinstance(a, ast.Constant) for a in d.args):
          out[(d.args[0].value, d.args[1].value)] = f
    return out


SAFE_CONTAINER_METHODS = ("clear", "add", "discard", "append")


def _default_may_raise(node):
  """Exceptional mode: a node may raise when it evaluates a call, a subscript or arithmetic.
  Not counted: plain name/attribute moves, and clear/add/discard/append on a container attribute of
  self (they cannot fail for the engine's own sets, dicts and lists)."""
  for e in node.exprs:
    for n in walk_no_nested(e):
      if isinstance(n, ast.Call):
        f = n.func
        if isinstance(f, ast.Attribute) and f.attr in SAFE_CONTAINER_METHODS and \
            isinstance(f.value, ast.Attribute) and isinstance(f.value.value, ast.Name) and \
            f.value.value.id == "self":
          continue
        return True
      if isinstance(n, (ast.Subscript, ast.BinOp)):
        return True
  return False


class Fn(object):
  def __init__(self, world, fi):
    self.world = world
    self.fi = fi
    self.node = fi.node
    self.qualname = fi.qualname
    self.aliases = Aliases(fi.node)
    self._cfg = None
    self._xcfg = None
    self._env = None

  @property
  def cfg(self):
    if self._cfg is None:
      self._cfg = CFG(self.node)
    return self._cfg

  @property
  def xcfg(self):
    if self._xcfg is None:
      self._xcfg = CFG(self.node, may_raise=_default_may_raise)
    return self._xcfg

  @property
  def env(self):
    if self._env is None:
      self._env = self.world.typer.env(self.fi)
    return self._env

  def type_of(self, expr):
    return self.world.typer.type_of(expr, self.env)

  def name(self, call_or_expr):
    """Dotted name with local aliases expanded (closures also see the enclosing function's)."""
    e = call_or_expr.func if isinstance(call_or_expr, ast.Call) else call_or_expr
    nm = self.aliases.dotted(e)
    fi = self.fi.parent
    while nm is not None and fi is not None:
      head = nm.split(".")[0]
      if head in self._local_bindings():
        break
      nm = self.world.fn_of(fi).aliases.expand(nm)
      fi = fi.parent
    return nm

  def _local_bindings(self):
    if not hasattr(self, "_lb"):
      lb = set(a.arg for a in self.node.args.args + self.node.args.kwonlyargs)
      for n in ast.walk(self.node):
        if isinstance(n, ast.Name) and isinstance(n.ctx, ast.Store):
          lb.add(n.id)
      self._lb = lb
    return self._lb

  def calls(self, cfg=None):
    """[(cfg node, Call, expanded dotted name or None)] for every call evaluated at a node."""
    cfg = cfg or self.cfg
    out = []
    for n in cfg.nodes:
      for c in calls_in(n.exprs):
        out.append((n, c, self.name(c)))
    return out

  def nodes_calling(self, pred, cfg=None):
    """ids of nodes with a call satisfying pred(call, name, fn)."""
    cfg = cfg or self.cfg
    return {n.id for (n, c, nm) in self.calls(cfg) if pred(c, nm, self)}

  def nodes_where(self, pred, cfg=None):
    cfg = cfg or self.cfg
    return {n.id for n in cfg.nodes if n.stmt is not None and pred(n)}

  def recv_type(self, call):
    if isinstance(call.func, ast.Attribute):
      return self.type_of(call.func.value)
    return None
