"""
Private module-level anchors found by role when their name is gone (a rename). The rules address a
few private functions by qualified name; a behaviour-preserving rename of such a function must not
end in "anchor function vanished". When the canonical name is missing from its module and exactly
one private module-level function fulfils the role, this run's index gives it the canonical name
back (definition and the call sites inside that module). In memory only; no-op on a tree that has
the names. (The engine's private methods are handled the same way by rules/_h_A.canonicalise.)
"""
import ast
from .index import dotted


def _wraps_params_in_text(f):
  """Contains textbuilder.Text(<param>, <param>): the translator of one formula."""
  params = {a.arg for a in f.args.args}
  for c in ast.walk(f):
    if isinstance(c, ast.Call) and (dotted(c.func) or "").endswith("textbuilder.Text") and \
        len(c.args) == 2 and all(isinstance(a, ast.Name) and a.id in params for a in c.args):
      return True
  return False


def _yields_string_nodes(f):
  """A generator that tests nodes with isinstance(..., (ast.Constant, ast.JoinedStr)) and yields
  them: the walker for string literals that span lines."""
  has_yield = any(isinstance(x, (ast.Yield, ast.YieldFrom)) for x in ast.walk(f))
  tests = any(isinstance(c, ast.Call) and dotted(c.func) == "isinstance" and len(c.args) == 2 and
              "JoinedStr" in ast.unparse(c.args[1]) for c in ast.walk(f))
  return has_yield and tests


ROLES = {
  "codebuilder": {"_do_make_formula_body": _wraps_params_in_text,
                  "_multiline_string_nodes": _yields_string_nodes},
}


def canonicalise_module_functions(repo):
  if getattr(repo, "_canon_modfuncs", False):
    return
  repo._canon_modfuncs = True
  for modname, roles in ROLES.items():
    mod = repo.modules.get(modname)
    if mod is None:
      continue
    for canon, pred in roles.items():
      if canon in mod.functions:
        continue
      cands = [fi for fi in mod.functions.values() if fi.name.startswith("_") and pred(fi.node)]
      if len(cands) != 1:
        continue
      fi = cands[0]
      old, old_q = fi.name, fi.qualname
      new_q = "%s.%s" % (modname, canon)
      mod.functions.pop(old, None)
      fi.node.name = canon
      fi.name = canon
      mod.functions[canon] = fi
      for q in [q for q in repo.funcs if q == old_q or q.startswith(old_q + ".")]:
        f2 = repo.funcs.pop(q)
        f2.qualname = new_q + q[len(old_q):]
        repo.funcs[f2.qualname] = f2
      for x in ast.walk(mod.tree):
        if isinstance(x, ast.Name) and x.id == old:
          x.id = canon
