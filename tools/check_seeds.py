#!/venv/bin/python
"""Apply every seeded change under /verif/seeded to a scratch copy of the analysed sources
(VERIF_REPO; /repo itself is not touched, so this is safe to run concurrently), run all READY
checks, record which fire.
   tools/check_seeds.py [name-substring ...] [--only-own]     (--only-own: run just the seed's own property)"""
import json, os, shutil, subprocess, sys, tempfile
from concurrent.futures import ThreadPoolExecutor
sys.path.insert(0, "/verif")
from sa.selftest import make_copy
ready = open("/verif/sa/rules/READY").read().split()
if os.environ.get("VERIF_PROPS"):
  ready = [p for p in ready if p in os.environ["VERIF_PROPS"].split()]
args = [a for a in sys.argv[1:] if not a.startswith("--")]
only_own = "--only-own" in sys.argv
names = [n for n in sorted(os.listdir("/verif/seeded"))
         if os.path.exists(os.path.join("/verif/seeded", n, "patch.diff")) and (not args or any(a in n for a in args))]

def one(name):
  d = os.path.join("/verif/seeded", name)
  tmp = tempfile.mkdtemp(prefix="vsd_")
  try:
    make_copy(tmp)
    p = subprocess.run(["git", "apply", "--unsafe-paths", "-p1", "--include=sandbox/*", "--include=app/*",
                        os.path.join(d, "patch.diff")], cwd=tmp, capture_output=True, text=True)
    if p.returncode != 0:
      return (name, "PATCH-DOES-NOT-APPLY", {"err": [p.stderr.strip()[:200]]})
    env = dict(os.environ, VERIF_REPO=tmp, VERIF_NO_EVIDENCE="1")
    fired = {}
    for prop in ([name[:3]] if only_own else ready):
      q = subprocess.run([sys.executable, "-B", "-m", "sa.main", prop], cwd="/verif", env=env,
                         capture_output=True, text=True)
      if q.returncode == 1:
        fired[prop] = sorted({l.split()[1] for l in q.stdout.splitlines() if l.startswith("FINDING")})
      elif q.returncode != 0:
        fired[prop] = ["ANALYSIS-ERROR"]
    if not only_own and not os.environ.get("VERIF_PROPS"):
      mp = os.path.join(d, "meta.json")
      meta = json.load(open(mp)) if os.path.exists(mp) else {}
      meta["detected_by"] = fired
      json.dump(meta, open(mp, "w"), indent=1)
    st = "DETECTED" if any(v != ["ANALYSIS-ERROR"] for v in fired.values()) else ("ERROR-ONLY" if fired else "MISSED")
    return (name, st, fired)
  finally:
    shutil.rmtree(tmp, ignore_errors=True)

with ThreadPoolExecutor(max_workers=int(os.environ.get("VERIF_JOBS", "8"))) as ex:
  rows = list(ex.map(one, names))
for r in rows:
  print("%-55s %-10s %s" % (r[0], r[1], "; ".join("%s:%s" % (k, ",".join(v)) for k, v in r[2].items())))
print("seeds: %d, detected %d" % (len(rows), sum(1 for r in rows if r[1] == "DETECTED")))
