#!/venv/bin/python
"""Apply every seeded change under /verif/seeded to /repo in turn, run all READY checks, record which fire.
   tools/check_seeds.py [name-substring]"""
import json, os, subprocess, sys
def sh(cmd, cwd=None, env=None):
  p = subprocess.run(cmd, shell=True, cwd=cwd, env=env, capture_output=True, text=True)
  return p.returncode, p.stdout + p.stderr
ready = open("/verif/sa/rules/READY").read().split()
rc, st = sh("git -C /repo status --porcelain")
assert not st.strip(), "/repo not clean"
env = dict(os.environ, VERIF_NO_EVIDENCE="1")
sub = sys.argv[1] if len(sys.argv) > 1 else ""
rows = []
for name in sorted(os.listdir("/verif/seeded")):
  d = os.path.join("/verif/seeded", name)
  patch = os.path.join(d, "patch.diff")
  if sub not in name or not os.path.exists(patch):
    continue
  rc, out = sh("git -C /repo apply %s" % patch)
  if rc != 0:
    rows.append((name, "PATCH-DOES-NOT-APPLY", {})); continue
  fired = {}
  try:
    for p in ready:
      rc, out = sh("./vcheck %s" % p, cwd="/verif", env=env)
      if rc == 1:
        fired[p] = sorted({l.split()[1] for l in out.splitlines() if l.startswith("FINDING")})
      elif rc != 0:
        fired[p] = ["ANALYSIS-ERROR"]
  finally:
    sh("git -C /repo checkout -- .")
  mp = os.path.join(d, "meta.json")
  meta = json.load(open(mp)) if os.path.exists(mp) else {}
  meta["detected_by"] = fired
  json.dump(meta, open(mp, "w"), indent=1)
  rows.append((name, "DETECTED" if any(v != ["ANALYSIS-ERROR"] for v in fired.values()) else ("ERROR-ONLY" if fired else "MISSED"), fired))
for r in rows:
  print("%-55s %-10s %s" % (r[0], r[1], "; ".join("%s:%s" % (k, ",".join(v)) for k, v in r[2].items())))
