#!/venv/bin/python
"""Rewrite the seed detection table of DESIGN.md (between the SEED-TABLE markers) from seeded/*/meta.json."""
import json, os, re
rows = ["| seed | rules that fire today | what the change does |", "|---|---|---|"]
for name in sorted(os.listdir("/verif/seeded")):
  mp = os.path.join("/verif/seeded", name, "meta.json")
  if not os.path.exists(mp):
    continue
  m = json.load(open(mp))
  det = m.get("detected_by", {})
  fired = "; ".join("%s" % ",".join(v) for k, v in sorted(det.items())) or "**none**"
  what = m.get("what") or m.get("description") or m.get("summary") or m.get("change") or ""
  if isinstance(what, (list, dict)):
    what = json.dumps(what)
  what = re.sub(r"\s+", " ", str(what)).replace("|", "/")[:170]
  rows.append("| `%s` | %s | %s |" % (name, fired, what))
s = open("/verif/DESIGN.md").read()
a, b = "<!-- SEED-TABLE-BEGIN -->", "<!-- SEED-TABLE-END -->"
assert a in s and b in s
s = s[:s.index(a) + len(a)] + "\n" + "\n".join(rows) + "\n" + s[s.index(b):]
open("/verif/DESIGN.md", "w").write(s)
print(len(rows) - 2, "seeds")
