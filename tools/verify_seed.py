#!/venv/bin/python
"""
Confirm a seeded change independently, then keep it under /verif/seeded/<name>/.

  tools/verify_seed.py <seed-src-dir> <name>      # seed-src-dir has patch.diff, demo*.py, meta.json

Steps (all in a scratch worktree under /tmp, removed afterwards):
  1. demo passes on the clean tree
  2. patch applies, touched files compile
  3. demo fails with the patch
  4. pinned baseline gives the same pass set size (158 passed) with the patch
Then runs every registered check against /repo with the patch applied (git apply / checkout --)
and records which fire.
"""
import json, os, shutil, subprocess, sys, glob

def sh(cmd, cwd=None, env=None, timeout=1800):
  p = subprocess.run(cmd, shell=True, cwd=cwd, env=env, capture_output=True, text=True, timeout=timeout)
  return p.returncode, p.stdout + p.stderr

def main():
  src, name = sys.argv[1], sys.argv[2]
  dst = os.path.join("/verif/seeded", name)
  os.makedirs(dst, exist_ok=True)
  for f in os.listdir(src):
    if os.path.isfile(os.path.join(src, f)):
      shutil.copy(os.path.join(src, f), dst)
  patch = os.path.join(dst, "patch.diff")
  demos = sorted(glob.glob(os.path.join(dst, "demo*.py")))
  assert os.path.exists(patch) and demos, "need patch.diff and demo*.py"
  demo = demos[0]
  wt = "/tmp/seedverify_%s" % name
  sh("git -C /repo worktree remove --force %s" % wt)
  rc, out = sh("git -C /repo worktree add -q --detach %s HEAD" % wt)
  assert rc == 0, out
  ran = []
  try:
    env = dict(os.environ, PYTHONPATH="/tmp/ftstub:%s/sandbox/grist" % wt, PYTHONDONTWRITEBYTECODE="1")
    g = os.path.join(wt, "sandbox/grist")
    rc0, out0 = sh("/venv/bin/python %s" % demo, cwd=g, env=env)
    ran.append("clean demo rc=%d" % rc0)
    rc, out = sh("git apply %s" % patch, cwd=wt)
    assert rc == 0, "patch does not apply: " + out
    rc, files = sh("git diff --name-only", cwd=wt)
    for f in files.split():
      if f.endswith(".py"):
        rcc, o = sh("/venv/bin/python -m py_compile %s" % f, cwd=wt)
        assert rcc == 0, "does not compile: " + o
    rc1, out1 = sh("/venv/bin/python %s" % demo, cwd=g, env=env)
    ran.append("patched demo rc=%d" % rc1)
    rcb, outb = sh("/venv/bin/python -m pytest -ra -q -p no:cacheprovider --timeout=900 "
                   "--continue-on-collection-errors 2>&1 | tail -1", cwd=wt)
    ran.append("baseline with patch: " + outb.strip())
    ok = rc0 == 0 and rc1 != 0 and " 158 passed" in outb
    print("clean demo rc=%d; patched demo rc=%d; baseline: %s" % (rc0, rc1, outb.strip()))
    if not ok:
      print("SEED NOT CONFIRMED")
      print(out0[-600:]); print(out1[-600:])
  finally:
    sh("git -C /repo worktree remove --force %s" % wt)
    shutil.rmtree(wt, ignore_errors=True)
  # which checks fire? (on a scratch copy; /repo itself is left alone)
  mp = os.path.join(dst, "meta.json")
  meta = json.load(open(mp)) if os.path.exists(mp) else {}
  meta["confirmed"] = bool(ok)
  meta["confirmation_ran"] = ran
  json.dump(meta, open(mp, "w"), indent=1)
  rc, out = sh("/verif/tools/check_seeds.py %s" % name, cwd="/verif")
  print(out.strip())
  return 0 if ok else 1

def _unused():
  fired = {}
  print("checks firing:", json.dumps(fired, indent=1))
  mp = os.path.join(dst, "meta.json")
  meta = json.load(open(mp)) if os.path.exists(mp) else {}
  meta["confirmed"] = bool(ok)
  meta["confirmation_ran"] = ran
  meta["detected_by"] = {k: v for k, v in fired.items()}
  json.dump(meta, open(mp, "w"), indent=1)
  return 0 if ok else 1

if __name__ == "__main__":
  sys.exit(main())
