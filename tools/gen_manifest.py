#!/venv/bin/python
"""Regenerate /verif/MANIFEST.json from the rule modules present under sa/rules."""
import importlib, json, os, sys
sys.path.insert(0, "/verif")
NA = {
 "C34": "Round-trip equality of timestamp<->local-time arithmetic over every zone table and instant lives in numeric relations between the untils/offsets data and bisect results, not in code shape; no sound static clause in reach.",
 "C37": "Offset arithmetic of nested Replacer/Combiner maps: correctness is equality of computed positions for all texts and patch sets; no structural clause separates right from wrong offsets.",
}
BASE = json.load(open("/root/.vp/BASELINE.json"))["cmd"].replace("--junitxml=<file>", "").strip()
props = [json.loads(l) for l in open("/verif/properties.jsonl")]
READY = set(open("/verif/sa/rules/READY").read().split())
checks, na = [], []
for p in props:
  pid = p["id"]
  modname = "sa.rules.%s" % pid.lower()
  try:
    mod = importlib.import_module(modname)
  except ModuleNotFoundError:
    mod = None
  if pid not in READY:
    mod = None
  if mod is None or getattr(mod, "DISABLED", None):
    reason = NA.get(pid) or (getattr(mod, "DISABLED", None) if mod else None) or \
      "No sound structural rule implemented for this property in this revision (static-analysis family); not claimed."
    na.append({"property_id": pid, "reason": reason})
    continue
  level = getattr(mod, "LEVEL", "other")
  checks.append({
    "property_id": pid,
    "quick_cmd": "./vcheck %s --tier quick" % pid,
    "thorough_cmd": "./vcheck %s --tier thorough" % pid,
    "evidence_file": "/verif/evidence/%s.json" % pid,
    "replay_cmd_template": "./vcheck explain {path}",
    "engine": "sa",
    "level_claimed": {
      "category": level,
      "text": getattr(mod, "LEVEL_TEXT", None) or (
        "Static analysis of the current source: decides the structural clauses listed in the evidence "
        "(necessary conditions of the property) on every path / call site of the anchored code; it does "
        "not establish the behavioural property's values. " + getattr(mod, "EXPLANATION", "")),
      "design_ref": "DESIGN.md section 4, %s" % pid,
    },
    "level_note": getattr(mod, "LEVEL_NOTE", "Trusted: python ast; the rule tables in sa/rules/%s.py (each entry one named symbol with a reason); receiver-typing seed table in sa/types.py. Dynamic dispatch is modelled, not followed." % pid.lower()),
    "technique": getattr(mod, "TECHNIQUE", "custom AST/CFG rules (path, def-use, who-may-call) over the repository source"),
  })
man = {
  "version": 1,
  "setup_cmd": "true",
  "hooks": {
    "guard": "GRIST_CORE_VERIF",
    "enable": "none - checks read source text only; no instrumentation exists in /repo",
    "baseline_off_cmd": BASE,
    "source_commits": [],
    "add_only": True,
  },
  "engines": [{"name": "sa", "path": "/verif/sa", "serves_properties": [c["property_id"] for c in checks],
               "kind_free_text": "repository-specific static analysis: ast index, statement CFG with exceptional edges, def-use, light receiver typing, rule modules per property"}],
  "checks": checks,
  "not_applicable": na,
  "notes": "Static-analysis family only. Exit 0 = all obligations discharged; exit 1 + VIOLATION = an obligation fails; exit 2 + ANALYSIS-ERROR = the checker cannot decide (anchor moved). Known findings: /verif/known_findings.txt.",
}
json.dump(man, open("/verif/MANIFEST.json", "w"), indent=1)
print("checks:", len(checks), "n/a:", len(na))
