#!/venv/bin/python
"""Rewrite the rule inventory of DESIGN.md (between the RULE-INVENTORY markers) from evidence/*.json."""
import json, os, re, glob
def key(r):
  m = re.match(r"C(\d+)-R(\d+)", r["id"]); return (int(m.group(1)), int(m.group(2))) if m else (99, 99)
rows = ["| rule | decides | obligations on the current tree |", "|---|---|---|"]
n = 0
for f in sorted(glob.glob("/verif/evidence/C*.json")):
  e = json.load(open(f))
  for r in sorted(e["coverage"].get("rules", []), key=key):
    d = re.sub(r"\s+", " ", r.get("decides") or "").replace("|", "/")
    rows.append("| %s | %s | %s |" % (r["id"], d, r.get("instances")))
    n += 1
s = open("/verif/DESIGN.md").read()
a, b = "<!-- RULE-INVENTORY-BEGIN -->", "<!-- RULE-INVENTORY-END -->"
assert a in s and b in s
s = s[:s.index(a) + len(a)] + "\n" + "\n".join(rows) + "\n" + s[s.index(b):]
open("/verif/DESIGN.md", "w").write(s)
print(n, "rules")
