#!/venv/bin/python
"""Behaviour-preserving refactors must keep every claimed check quiet.
   tools/check_benign.py [dir-with-diffs ...]   (default: /verif/benign/*)
Each *.diff is applied to a scratch copy of the analysed sources (VERIF_REPO), never to /repo."""
import glob, os, shutil, subprocess, sys, tempfile
from concurrent.futures import ThreadPoolExecutor
sys.path.insert(0, "/verif")
from sa.selftest import make_copy
ready = open("/verif/sa/rules/READY").read().split()
if os.environ.get("VERIF_PROPS"):
  ready = [p for p in ready if p in os.environ["VERIF_PROPS"].split()]
dirs = sys.argv[1:] or sorted(glob.glob("/verif/benign/*"))
diffs = [f for d in dirs for f in sorted(glob.glob(os.path.join(d, "*.diff")))]
def one(diff):
  tmp = tempfile.mkdtemp(prefix="vbn_")
  try:
    make_copy(tmp)
    p = subprocess.run(["git", "apply", "--unsafe-paths", "-p1", diff], cwd=tmp, capture_output=True, text=True)
    if p.returncode != 0:
      return (diff, "PATCH-DOES-NOT-APPLY", p.stderr.strip()[:200])
    env = dict(os.environ, VERIF_REPO=tmp, VERIF_NO_EVIDENCE="1")
    bad = []
    for prop in ready:
      q = subprocess.run([sys.executable, "-B", "-m", "sa.main", prop], cwd="/verif", env=env, capture_output=True, text=True)
      if q.returncode != 0:
        lines = [l for l in q.stdout.splitlines() if l.startswith(("FINDING", "ANALYSIS-ERROR"))][:3]
        bad.append((prop, q.returncode, lines))
    return (diff, "quiet" if not bad else "NOISY", bad)
  finally:
    shutil.rmtree(tmp, ignore_errors=True)
with ThreadPoolExecutor(max_workers=int(os.environ.get("VERIF_JOBS", "8"))) as ex:
  res = list(ex.map(one, diffs))
nv = ne = 0
for diff, st, info in res:
  if st == "quiet":
    continue
  print("%s %s" % (st, diff))
  if st == "NOISY":
    for prop, rc, lines in info:
      nv += rc == 1; ne += rc == 2
      print("   %s rc=%d" % (prop, rc))
      for l in lines:
        print("      " + l[:260])
  else:
    print("   " + str(info))
print("benign: %d patches, %d quiet, %d false VIOLATIONS, %d analysis errors" % (len(res), sum(1 for r in res if r[1] == "quiet"), nv, ne))
