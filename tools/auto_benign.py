#!/venv/bin/python
"""
Mechanical behaviour-preserving rewrites of the analysed sources; every claimed check must stay
quiet on each rewritten copy (exit 0). Complements the hand-written corpus under /verif/benign.

  tools/auto_benign.py [-t T0,T1,...] [-f file-substring] [--per-file] [--keep DIR]
  VERIF_PROPS="C01 C02" restricts the checks run.

Transforms (each applied to every function of every non-test module of sandbox/grist, or of the
files selected with -f; --per-file makes one scratch copy per (transform, file) to localise noise):
  T0  parse + unparse only (layout, quoting, parenthesis normalisation)
  T1  rename every plain local variable x -> x_r (parameters, globals, names captured by nested
      functions/lambdas and functions using locals()/eval are left alone)
  T2  `if c: A else: B`  ->  `if not c: B else: A`
  T3  trailing `if c: BODY` of a function body / loop body  ->  `if not c: return|continue` + BODY
  T4  `return EXPR`  ->  `ret_value = EXPR; return ret_value`
  T5  `x = A if c else B` -> if/else statement;  `return A if c else B` -> if c: return A / return B
  T6  `x = [E for t in IT if C]` (list/set/dict comprehension, one generator) -> explicit loop
  T7  `self._engine` / `self._docmodel` aliased to a local at the top of each method reading it
Scratch copies live under $TMPDIR and are removed. Never touches /repo.
"""
import ast, copy, glob, os, shutil, subprocess, sys, tempfile
from concurrent.futures import ThreadPoolExecutor
sys.path.insert(0, "/verif")
from sa.selftest import make_copy

ready = open("/verif/sa/rules/READY").read().split()
if os.environ.get("VERIF_PROPS"):
  ready = [p for p in ready if p in os.environ["VERIF_PROPS"].split()]


from sa.refactor import TRANSFORMS, target_files, rewrite


def one(job):
  tname, rels, keep = job
  tmp = tempfile.mkdtemp(prefix="vab_")
  try:
    make_copy(tmp)
    for rel in rels:
      rewrite(os.path.join(tmp, rel), tname)
    if keep:
      dst = os.path.join(keep, tname)
      shutil.rmtree(dst, ignore_errors=True)
      shutil.copytree(tmp, dst)
    env = dict(os.environ, VERIF_REPO=tmp, VERIF_NO_EVIDENCE="1")
    bad = []
    def chk(prop):
      q = subprocess.run([sys.executable, "-B", "-m", "sa.main", prop], cwd="/verif", env=env,
                         capture_output=True, text=True)
      if q.returncode != 0:
        lines = [l for l in (q.stdout + q.stderr).splitlines()
                 if l.startswith(("FINDING", "ANALYSIS-ERROR", "Traceback"))]
        return (prop, q.returncode, lines)
    with ThreadPoolExecutor(max_workers=int(os.environ.get("VERIF_INNER_JOBS", "4"))) as ex:
      bad = [r for r in ex.map(chk, ready) if r]
    return (tname, rels, bad)
  finally:
    shutil.rmtree(tmp, ignore_errors=True)


def main():
  args = sys.argv[1:]
  ts = list(TRANSFORMS)
  sub = []
  per_file = False
  keep = None
  i = 0
  while i < len(args):
    if args[i] == "-t":
      ts = args[i + 1].split(","); i += 2
    elif args[i] == "-f":
      sub.append(args[i + 1]); i += 2
    elif args[i] == "--per-file":
      per_file = True; i += 1
    elif args[i] == "--keep":
      keep = args[i + 1]; i += 2
    else:
      raise SystemExit("unknown argument " + args[i])
  tmp = tempfile.mkdtemp(prefix="vab_ls_")
  try:
    make_copy(tmp)
    rels = target_files(tmp, sub)
  finally:
    shutil.rmtree(tmp, ignore_errors=True)
  jobs = []
  for t in ts:
    if per_file:
      jobs += [(t, [r], keep) for r in rels]
    else:
      jobs.append((t, rels, keep))
  with ThreadPoolExecutor(max_workers=4 if not per_file else 6) as ex:
    res = list(ex.map(one, jobs))
  nv = ne = 0
  for tname, rr, bad in res:
    label = "%s %s" % (tname, rr[0] if len(rr) == 1 else "(%d files)" % len(rr))
    if not bad:
      print("quiet  " + label)
      continue
    print("NOISY  " + label)
    for prop, rc, lines in bad:
      nv += rc == 1; ne += rc != 1
      print("   %s rc=%d" % (prop, rc))
      for l in lines[:12]:
        print("      " + l[:230])
  print("auto-benign: %d rewritten copies, %d false VIOLATION exits, %d analysis-error exits"
        % (len(res), nv, ne))
  return 1 if nv or ne else 0


if __name__ == "__main__":
  sys.exit(main())
